"""Operand-kind cases and value contracts (K5-K9) for *, /, ** of Unit and Quantity.
Shared by C02 (value, type, unit, error class), C05 (rounded once) and C17 (cache effects)."""
from __future__ import annotations

from .contracts import *  # noqa: F401,F403

N = RF.atom(("n",))


def nexp(o):
    """Exponent of the symbolic power on this path: (c, 0) once a guard fixed n == c."""
    v = o.state.subst.get(("n",))
    if v is not None and v.is_const():
        return (int(v.const_value()), 0)
    return (0, 1)


def _dims_sum(st, *parts):
    out = {}
    for tid, e in parts:
        for k, d in st.dims_of_type(tid).items():
            o = out.get(k, (0, 0))
            out[k] = (o[0] + d[0] * e[0], o[1] + d[0] * e[1])
    return {k: v for k, v in out.items() if v != (0, 0)}


def _res_dims_ok(st, tid, want):
    got = st.dims_of_type(tid)
    return got == want, got


def judge_product(value_fn, dims_fn, *, allow=("UndefinedResultError",), mode="value",
                  plain_when_cancels=True, want_tuple=False, same_unit_type=None):
    """Result of a multiplicative operation.

    value_fn(o) -> RF exact value in base units; dims_fn(o) -> expected dimension vector.
    Accepted outcomes: quantity (or (factor, unit) tuple) of a unit whose type has exactly that
    dimension and whose exact value is the contract value; the plain number when the dimensions
    cancel; one of the allowed QuantityError subclasses."""
    def judge(o: Outcome):
        st = o.state
        if o.kind == "raise":
            if o.exc.name in allow:
                return None
            return (exc_sig(o), f"contract: result or one of {list(allow)}")
        v = o.value
        want = value_fn(o)
        wdims = dims_fn(o)
        if want_tuple:
            if not (isinstance(v, TupleV) and len(v.items) == 2 and isinstance(v.items[0], Num)):
                return ("returns non (factor, unit) tuple", repr(v))
            f, w = v.items
            if isinstance(w, NoneV):
                if wdims and not _can_cancel(wdims):
                    return ("no unit although the dimensions cannot cancel", f"dims {wdims}")
                return _cmp_val(st, st.norm(f.rf), want)
            if not isinstance(w, UnitV):
                return ("returns non (factor, unit) tuple", repr(v))
            ok, got = _res_dims_ok(st, st.unit_type(w.uid), wdims)
            if not ok:
                return ("result unit of wrong dimension", f"unit type dims {got}, contract {wdims}")
            return _cmp_val(st, st.norm(f.rf) * mu_of(st, w), want)
        if isinstance(v, Num):
            if wdims and not _can_cancel(wdims):
                return ("plain number although the dimensions do not cancel", f"dims {wdims}, {v!r}")
            if mode == "rounding":
                return None if st.rnd_depth(v.rf) == 0 else ("rounded plain number", repr(st.norm(v.rf)))
            return judge_num(o, want)
        if isinstance(v, QtyV):
            if v.amount is None or v.unit is None:
                return ("returns raw quantity", "")
            ok, got = _res_dims_ok(st, v.tid, wdims)
            if not ok:
                return ("result type of wrong dimension", f"type dims {got}, contract {wdims}")
            if mode == "rounding":
                return judge_qty(o, max_depth=1)
            return judge_qty(o, value=want, max_depth=99)
        return ("returns neither quantity nor number", repr(v))
    return judge


def _cmp_val(st, got, want):
    got, want = st.expand_rnd(got), st.expand_rnd(want)
    if not got.equals(want):
        return ("wrong value", f"exact value {got!r}, contract {want!r}")
    return None


def _can_cancel(dims):
    nz = [(k, e) for k, e in dims.items() if e != (0, 0)]
    if not nz:
        return True
    if len(nz) == 1:
        return False
    if len(nz) == 2 and nz[0][1][1] == 0 and nz[1][1][1] == 0 and nz[0][1][0] == -nz[1][1][0]:
        return False
    return True


def judge_scaled(value_fn, mode="value"):
    """number (x) quantity/unit: same unit and type, value scaled."""
    def judge(o: Outcome):
        st = o.state
        if o.kind == "raise":
            return (exc_sig(o), "contract: scaled quantity of the same unit and type")
        s = o.args[0]
        unit = s.unit if isinstance(s, QtyV) else s
        tid = st.unit_type(unit.uid)
        if mode == "rounding":
            return judge_qty(o, unit=unit, tid=tid, max_depth=1)
        return judge_qty(o, unit=unit, tid=tid, value=value_fn(o), max_depth=99)
    return judge


def judge_notimpl(o):
    if o.kind == "return" and isinstance(o.value, NotImplV):
        return None
    return ("unsupported operand accepted", f"{o.brief()}; contract: NotImplemented")


def T_of(o, i):
    a = o.args[i]
    st = o.state
    return st.unit_type((a.unit if isinstance(a, QtyV) else a).uid)


def op_cases(prog, mode="value", flavors=("ref", "ref+quantum", "noref", "money")):
    """Yield (rule, fi, label, setup, judge, kwargs)."""
    U = lambda n: prog.method("Unit", n)
    Q = lambda n: prog.method("Quantity", n)
    one = (1, 0)
    neg = (-1, 0)
    cases = []
    num_kinds = ["int", "dec", "frac", "float"]
    second = [None, "ref+quantum", "money"] if mode != "quick" else [None]

    # ---------------- Unit (x) Unit -> (factor, unit)
    for name, sgn in (("__mul__", 1), ("__truediv__", -1)):
        e2 = (sgn, 0)
        for fl2 in second:
            cases.append(("R02.1", U(name), f"Unit{name} Unit other type [{fl2 or 'any'}]",
                          two_units_other_type("ref", fl2),
                          judge_product(lambda o, sgn=sgn: VAL(o, 0) * VAL(o, 1).pow_int(sgn),
                                        lambda o, e2=e2: _dims_sum(o.state, (T_of(o, 0), one), (T_of(o, 1), e2)),
                                        want_tuple=True, mode=mode), {}))
        for fl in flavors:
            allow = ("UndefinedResultError",) if (sgn == 1) else \
                (("UnitConversionError",) if fl in ("noref", "money") else ())
            if sgn == 1 and fl in ("noref", "money"):
                allow = ("UndefinedResultError",)
            cases.append(("R02.1", U(name), f"Unit{name} Unit same type [{fl}]", two_units_same_type(fl),
                          judge_product(lambda o, sgn=sgn: VAL(o, 0) * VAL(o, 1).pow_int(sgn),
                                        lambda o, e2=e2: _dims_sum(o.state, (T_of(o, 0), one), (T_of(o, 1), e2)),
                                        want_tuple=True, allow=allow, mode=mode), {}))
    # ---------------- Unit (x) number / SIPrefix
    for k in num_kinds:
        for fl in ("ref", "ref+quantum", "money"):
            cases.append(("R02.2", U("__mul__"), f"Unit*{k} [{fl}]", unit_and_num(fl, k),
                          judge_scaled(lambda o: K * VAL(o, 0), mode), {}))
            cases.append(("R02.2", U("__rmul__"), f"{k}*Unit [{fl}]", unit_and_num(fl, k),
                          judge_scaled(lambda o: K * VAL(o, 0), mode), {}))
            cases.append(("R02.2", U("__truediv__"), f"Unit/{k} [{fl}]", unit_and_num(fl, k),
                          judge_scaled(lambda o: VAL(o, 0) / K, mode), {}))
    cases.append(("R02.2", U("__mul__"), "Unit*SIPrefix", unit_and_value("ref", lambda c: SIPrefixV("p")),
                  judge_scaled(lambda o: RF.atom(("pw10", "prefix:p")) * VAL(o, 0), mode), {}))
    for k in num_kinds:
        cases.append(("R02.2", U("__rtruediv__"), f"{k}/Unit", unit_and_num("ref", k),
                      judge_product(lambda o: K / VAL(o, 0), lambda o: _dims_sum(o.state, (T_of(o, 0), neg)),
                                    mode=mode), {}))
    for fl in ("ref+quantum", "noref", "money"):
        cases.append(("R02.2", U("__rtruediv__"), f"dec/Unit [{fl}]", unit_and_num(fl, "dec"),
                      judge_product(lambda o: K / VAL(o, 0), lambda o: _dims_sum(o.state, (T_of(o, 0), neg)),
                                    mode=mode), {}))
    # ---------------- Unit (x) Quantity
    for name, sgn in (("__mul__", 1), ("__truediv__", -1)):
        e2 = (sgn, 0)

        def su(c, same):
            c.new_type("T", **FLAVORS["ref"])
            if same:
                return [c.unit("us", "T"), c.qty("other", c.unit("uo", "T"))], {}
            c.new_type("T2")
            c.st.distinct_types("T", "T2")
            return [c.unit("us", "T"), c.qty("other", c.unit("uo", "T2"))], {}
        for same in (False, True):
            cases.append(("R02.2", U(name), f"Unit{name} Quantity {'same' if same else 'other'} type",
                          lambda c, same=same: su(c, same),
                          judge_product(lambda o, sgn=sgn: VAL(o, 0) * VAL(o, 1).pow_int(sgn),
                                        lambda o, e2=e2: _dims_sum(o.state, (T_of(o, 0), one), (T_of(o, 1), e2)),
                                        mode=mode), {}))
    # ---------------- Unit ** n
    def upow(c, nval):
        c.new_type("T", **FLAVORS["ref"])
        return [c.unit("us", "T"), nval], {}
    cases.append(("R02.2", U("__pow__"), "Unit**n (symbolic int)", lambda c: upow(c, Num(N, "int")),
                  judge_product(lambda o: VAL(o, 0).pow_sym(nexp(o)),
                                lambda o: _dims_sum(o.state, (T_of(o, 0), nexp(o))), mode=mode), {}))
    for n in (0, 1, 2, -1, 3):
        cases.append(("R02.2", U("__pow__"), f"Unit**{n}", lambda c, n=n: upow(c, Num(RF.const(n), "int")),
                      judge_product(lambda o, n=n: VAL(o, 0).pow_int(n),
                                    lambda o, n=n: _dims_sum(o.state, (T_of(o, 0), (n, 0))), mode=mode), {}))
    cases.append(("R02.2", U("__pow__"), "Unit**Decimal", lambda c: upow(c, c.num("k", "dec")), judge_notimpl, {}))

    def qpow(c, nval, fl="ref"):
        c.new_type("T", **FLAVORS[fl])
        return [c.qty("self", c.unit("us", "T")), nval], {}

    # ---------------- Quantity (x) number
    for k in num_kinds:
        for fl in ("ref", "ref+quantum", "money"):
            for nm, lbl in (("__mul__", f"Quantity*{k}"), ("__rmul__", f"{k}*Quantity")):
                cases.append(("R02.2", Q(nm), f"{lbl} [{fl}]", qty_and_num(fl, k),
                              judge_scaled(lambda o: K * VAL(o, 0), mode), {}))
            cases.append(("R02.2", Q("__truediv__"), f"Quantity/{k} [{fl}]", qty_and_num(fl, k),
                          judge_scaled(lambda o: VAL(o, 0) / K, mode), {}))
        cases.append(("R02.2", Q("__rtruediv__"), f"{k}/Quantity", qty_and_num("ref", k),
                      judge_product(lambda o: K / VAL(o, 0), lambda o: _dims_sum(o.state, (T_of(o, 0), neg)),
                                    mode=mode), {}))
    for fl in ("ref+quantum", "noref", "money"):
        cases.append(("R02.2", Q("__rtruediv__"), f"dec/Quantity [{fl}]", qty_and_num(fl, "dec"),
                      judge_product(lambda o: K / VAL(o, 0), lambda o: _dims_sum(o.state, (T_of(o, 0), neg)),
                                    mode=mode), {}))
        cases.append(("R02.2", Q("__pow__"), f"Quantity**2 [{fl}]" if fl != "ref+quantum" else "Quantity**-1 [ref+quantum]",
                      (lambda c, fl=fl: qpow(c, Num(RF.const(2 if fl != "ref+quantum" else -1), "int"), fl)),
                      judge_product(lambda o, fl=fl: VAL(o, 0).pow_int(2 if fl != "ref+quantum" else -1),
                                    lambda o, fl=fl: _dims_sum(o.state, (T_of(o, 0), (2 if fl != "ref+quantum" else -1, 0))),
                                    mode=mode), {}))
    # ---------------- Quantity (x) Quantity / Unit
    for name, sgn in (("__mul__", 1), ("__truediv__", -1)):
        e2 = (sgn, 0)
        vf = lambda o, sgn=sgn: VAL(o, 0) * VAL(o, 1).pow_int(sgn)
        df = lambda o, e2=e2: _dims_sum(o.state, (T_of(o, 0), one), (T_of(o, 1), e2))
        for fl2 in second:
            cases.append(("R02.2", Q(name), f"Quantity{name} Quantity other type [{fl2 or 'any'}]",
                          two_qty_other_type("ref", fl2), judge_product(vf, df, mode=mode), {}))
            cases.append(("R02.2", Q(name), f"Quantity{name} Unit other type [{fl2 or 'any'}]",
                          qty_and_unit_other_type("ref", fl2), judge_product(vf, df, mode=mode), {}))
        for fl in flavors:
            if sgn == 1:
                allow = ("UndefinedResultError",)
                jq = judge_product(vf, df, allow=allow, mode=mode)
                ju = jq
            else:
                allow = ("UnitConversionError",) if fl in ("noref", "money") else ()
                jq = _judge_same_type_quotient(fl, allow, mode, unit_operand=False)
                ju = _judge_same_type_quotient(fl, allow, mode, unit_operand=True)
            cases.append(("R02.2", Q(name), f"Quantity{name} Quantity same type [{fl}]", two_qty_same_type(fl), jq, {}))
            cases.append(("R02.2", Q(name), f"Quantity{name} Unit same type [{fl}]", qty_and_unit_same_type(fl), ju, {}))
    # ---------------- Quantity ** n
    def qpow(c, nval, fl="ref"):
        c.new_type("T", **FLAVORS[fl])
        return [c.qty("self", c.unit("us", "T")), nval], {}
    cases.append(("R02.2", Q("__pow__"), "Quantity**n (symbolic int)", lambda c: qpow(c, Num(N, "int")),
                  judge_product(lambda o: VAL(o, 0).pow_sym(nexp(o)),
                                lambda o: _dims_sum(o.state, (T_of(o, 0), nexp(o))), mode=mode), {}))
    for n in (0, 1, 2, -1):
        cases.append(("R02.2", Q("__pow__"), f"Quantity**{n}", lambda c, n=n: qpow(c, Num(RF.const(n), "int")),
                      judge_product(lambda o, n=n: VAL(o, 0).pow_int(n),
                                    lambda o, n=n: _dims_sum(o.state, (T_of(o, 0), (n, 0))), mode=mode), {}))
    for n in (1, 2):
        cases.append(("R02.2", Q("__pow__"), f"Quantity**{n} [ref+quantum]",
                      lambda c, n=n: qpow(c, Num(RF.const(n), "int"), "ref+quantum"),
                      judge_product(lambda o, n=n: VAL(o, 0).pow_int(n),
                                    lambda o, n=n: _dims_sum(o.state, (T_of(o, 0), (n, 0))), mode=mode), {}))
    cases.append(("R02.2", Q("__pow__"), "Quantity**Decimal", lambda c: qpow(c, c.num("k", "dec")), judge_notimpl, {}))
    for lbl, mk in (("str", lambda c: StrV(None, "text")), ("None", lambda c: NONE)):
        for nm in ("__mul__", "__truediv__"):
            cases.append(("R02.2", Q(nm), f"Quantity{nm} {lbl}", qty_and_value("ref", mk), judge_notimpl,
                          {"flag_kinds": ()}))
            cases.append(("R02.2", U(nm), f"Unit{nm} {lbl}", unit_and_value("ref", mk), judge_notimpl,
                          {"flag_kinds": ()}))
    return cases


def _judge_same_type_quotient(fl, allow, mode, unit_operand):
    """quantity / quantity (or unit) of the same type -> plain exact number val(self)/val(other)."""
    def judge(o: Outcome):
        st = o.state
        linear = fl in ("ref", "ref+quantum")
        if o.kind == "raise":
            if o.exc.name in allow:
                s, other = o.args[0], o.args[1]
                ou = other if unit_operand else other.unit
                if st.same_unit(s.unit.uid, ou.uid) is True:
                    return (exc_sig(o), "identical units cannot fail to convert")
                return None if converters_tried(o) else NOT_TRIED
            return (exc_sig(o), "contract: plain number val(self)/val(other)")
        v = o.value
        if not isinstance(v, Num):
            return ("same-type quotient is not a plain number", repr(v))
        if mode == "rounding":
            return None if st.rnd_depth(v.rf) == 0 else ("rounded plain number", repr(v))
        ex = st.norm(v.rf)
        ca = conv_atoms(ex)
        if ca:
            if linear:
                return ("converter consulted for a linear type", repr(ex))
            a_s = st.norm(o.args[0].amount.rf)
            if unit_operand:
                ok = ex.equals(RF.atom(ca[0]))
            else:
                ok = ex.equals(a_s / RF.atom(ca[0]))
            return None if ok else ("converter result misused", repr(ex))
        return judge_num(o, VAL(o, 0) / VAL(o, 1))
    return judge
