"""Memoisation by decorator (functools.lru_cache / cache / cached_property and look-alikes): a decorated
function's result is replayed for equal arguments, so it must not depend on anything that can change after
the first call.  Rule (applied to every property, over the functions its check evaluated and everything they
reach): a memoised function may read only its arguments, immutable attributes (written at construction /
declaration time only) and insert-only directories; it may not read an attribute or a module-level object that
some non-construction function writes, nor call a stored callable or an ambient-state function (today(), the
default rounding mode).  Decided on the write inventory and the call graph (Engine B); nothing is executed."""
from __future__ import annotations

import ast
from typing import Dict, List, Set

from .anchors import UNIT_CREATION_ENTRY_POINTS
from .effects import CallGraph, inventory
from .loader import FuncInfo, Program, src_of

CACHE_WORDS = ("lru_cache", "cached_property", "memoize", "memoise", "memoized", "cache")
AMBIENT_CALLS = {"today", "now", "utcnow", "time", "get_dflt_rounding_mode", "getcontext", "random", "getenv"}
CONSTRUCTORS = {"__init__", "__new__", "__init_subclass__", "__set_name__", "__post_init__"}


def _deco_names(fi: FuncInfo) -> List[str]:
    node = fi.node
    if not isinstance(node, ast.FunctionDef):
        return []
    return [src_of(d.func if isinstance(d, ast.Call) else d) for d in node.decorator_list]


def memoised_functions(prog: Program) -> Dict[str, FuncInfo]:
    out = {}
    for fi in prog.all_functions():
        names = _deco_names(fi)
        if any(any(w == n.split(".")[-1] or (w != "cache" and w in n.split(".")[-1]) for w in CACHE_WORDS) for n in names):
            out[fi.qualname] = fi
    return out


def _construction_time(q: str, cg: CallGraph) -> bool:
    name = q.split(".")[-1]
    if name in CONSTRUCTORS or q in UNIT_CREATION_ENTRY_POINTS or q.startswith("<module"):
        return True
    if name.startswith("_") and not name.startswith("__"):
        # a private helper that only construction-time functions reach
        seen, stack = set(), list(cg.callers.get(q, ()))
        if not stack:
            return False
        while stack:
            c = stack.pop()
            if c in seen:
                continue
            seen.add(c)
            cn = c.split(".")[-1]
            if cn in CONSTRUCTORS or c in UNIT_CREATION_ENTRY_POINTS:
                continue
            if cn.startswith("_") and not cn.startswith("__"):
                stack.extend(cg.callers.get(c, ()))
                continue
            return False
        return True
    return False


def _reads(fi: FuncInfo, prog: Program):
    """(attribute names read on the receiver, module globals read, ambient / stored-callable calls)"""
    node = fi.node
    params = [p.arg for p in node.args.posonlyargs + node.args.args] if hasattr(node, "args") else []
    me = params[0] if params and fi.cls is not None and fi.kind != "static" else None
    attrs, globs, ambient = set(), set(), set()
    local = set(params)
    for n in ast.walk(node):
        if isinstance(n, ast.Name) and isinstance(n.ctx, ast.Store):
            local.add(n.id)
    for n in ast.walk(node):
        if isinstance(n, ast.Attribute) and isinstance(n.ctx, ast.Load) and isinstance(n.value, ast.Name) and n.value.id == me:
            attrs.add(n.attr)
        elif isinstance(n, ast.Name) and isinstance(n.ctx, ast.Load) and n.id not in local and n.id in fi.module.globals:
            globs.add(n.id)
        if isinstance(n, ast.Call):
            f = n.func
            nm = f.attr if isinstance(f, ast.Attribute) else (f.id if isinstance(f, ast.Name) else None)
            if nm in AMBIENT_CALLS:
                ambient.add(src_of(f))
            if isinstance(f, ast.Attribute) and isinstance(f.value, ast.Name) and f.value.id == me and fi.cls is not None \
                    and prog.lookup(fi.cls, f.attr) is None:
                ambient.add(f"{src_of(f)}() (a callable stored on the instance)")
    return attrs, globs, ambient


def frozen_defaults(prog: Program, res, cg: CallGraph, reach) -> None:
    """A default argument is evaluated once, when the `def` runs (at import): a default that calls an
    ambient-state function freezes that state for all later calls."""
    for q in sorted(reach):
        fi = cg.funcs.get(q)
        if fi is None or not hasattr(fi.node, "args"):
            continue
        a = fi.node.args
        for d in list(a.defaults) + [k for k in a.kw_defaults if k is not None]:
            bad = []
            for n in ast.walk(d):
                if isinstance(n, ast.Call):
                    f = n.func
                    nm = f.attr if isinstance(f, ast.Attribute) else (f.id if isinstance(f, ast.Name) else None)
                    if nm in AMBIENT_CALLS:
                        bad.append(src_of(n))
            if bad:
                res.ob("R00.default", q, f"default argument `{src_of(d)[:60]}`", False,
                       f"{', '.join(bad)} is evaluated once at import time, not at each call: a later change of that "
                       f"state is ignored by calls that rely on the default",
                       sig="default argument freezes ambient state at import time")


def identity_keys(prog: Program, res, cg: CallGraph, reach) -> None:
    """`id(x)` is unique only while x is alive: a container that outlives the call and is keyed by the identity
    number of an object it does not hold answers, later, for another object at the same address."""
    for q in sorted(reach):
        fi = cg.funcs.get(q)
        if fi is None or not hasattr(fi.node, "body"):
            continue
        node = fi.node
        params = [p.arg for p in node.args.posonlyargs + node.args.args] if hasattr(node, "args") else []
        me = params[0] if params and fi.cls is not None else None
        local = set(params) | {n.id for n in ast.walk(node) if isinstance(n, ast.Name) and isinstance(n.ctx, ast.Store)}

        def has_id(e, idnames):
            return any((isinstance(x, ast.Call) and isinstance(x.func, ast.Name) and x.func.id == "id") or
                       (isinstance(x, ast.Name) and x.id in idnames) for x in ast.walk(e))

        def id_subjects(e, idnames, subj):
            out = set()
            for x in ast.walk(e):
                if isinstance(x, ast.Call) and isinstance(x.func, ast.Name) and x.func.id == "id" and x.args:
                    out.add(src_of(x.args[0]))
                elif isinstance(x, ast.Name) and x.id in idnames:
                    out |= subj.get(x.id, set())
            return out
        idnames, subj = set(), {}
        for n in ast.walk(node):
            if isinstance(n, ast.Assign) and len(n.targets) == 1 and isinstance(n.targets[0], ast.Name) and has_id(n.value, set()):
                idnames.add(n.targets[0].id)
                subj[n.targets[0].id] = id_subjects(n.value, set(), {})

        aliases = {}
        for n in ast.walk(node):
            if isinstance(n, ast.Assign) and len(n.targets) == 1 and isinstance(n.targets[0], ast.Name) and \
                    isinstance(n.value, ast.Name) and n.value.id not in local and n.value.id in fi.module.globals:
                aliases[n.targets[0].id] = n.value.id

        def persistent(c):
            if isinstance(c, ast.Name):
                return (c.id not in local and c.id in fi.module.globals) or c.id in aliases
            return isinstance(c, ast.Attribute) and isinstance(c.value, ast.Name) and c.value.id in ((me,) if me else ()) + ("cls", "self")
        sites = []
        for n in ast.walk(node):
            if isinstance(n, ast.Assign):
                for t in n.targets:
                    if isinstance(t, ast.Subscript):
                        # (as a key, or - container[...] = (id(x), ...) - as a stored value that later calls compare)
                        sites.append((n, t.value, t.slice, n.value))
            elif isinstance(n, ast.Call) and isinstance(n.func, ast.Attribute) and n.func.attr in ("add", "setdefault", "append", "extend") \
                    and n.args:
                sites.append((n, n.func.value, n.args[0], n.args[1] if len(n.args) > 1 else None))
        for n, cont, key, val in sites:
            if not persistent(cont):
                continue
            exprs = [e for e in (key, val) if e is not None and has_id(e, idnames)]
            if not exprs:
                continue
            subjects = set()
            for e in exprs:
                subjects |= id_subjects(e, idnames, subj)
            kept = set()
            for e in (key, val):
                if e is None:
                    continue
                # the object itself stored alongside: the value / key, or an element of it (not something computed
                # from the object)
                elems = list(e.elts) if isinstance(e, (ast.Tuple, ast.List)) else [e]
                for x in elems:
                    if isinstance(x, (ast.Name, ast.Attribute)):
                        kept.add(src_of(x))
            lost = sorted(s_ for s_ in subjects if s_ not in kept)
            if lost:
                res.ob("R00.id", q, f"`{src_of(cont)}` keyed by the identity number of {', '.join(lost)}", False,
                       f"{src_of(n)[:120]}: the container outlives the call but does not hold the object(s) - after they "
                       f"die, another object at the same address finds their entry", sig="state keyed by id() of an object it does not keep alive")


def apply(prog: Program, res) -> None:
    """File the memoisation / default-argument obligations of one property's result."""
    cg = CallGraph(prog)
    roots = [q for q in getattr(res, "functions", ()) if q in cg.funcs]
    reach = cg.reachable_from(roots) if roots else set()
    frozen_defaults(prog, res, cg, reach)
    identity_keys(prog, res, cg, set(reach) | set(roots))
    memo = memoised_functions(prog)
    if not memo:
        res.notes.append("memoisation by decorator: none in the package")
        return
    # properties are looked up like methods: a cached property is reached by attribute access, which the
    # name-resolved call graph records as a call
    hit = sorted(q for q in memo if q in reach)
    if not hit:
        return
    writes = inventory(prog)
    writers: Dict[str, Set[str]] = {}
    for w in writes:
        if w.kind == "attr-store" and w.op == "=" and w.base_src in ("self", "cls") and w.func.split(".")[-1] in CONSTRUCTORS:
            continue
        if _construction_time(w.func, cg):
            continue
        writers.setdefault(w.state, set()).add(w.func)
    for q in hit:
        fi = memo[q]
        # what the memoised function and its callees inside the package read
        todo, seen = [fi], set()
        attrs, globs, ambient = set(), set(), set()
        while todo:
            f = todo.pop()
            if f.qualname in seen or len(seen) > 40:
                continue
            seen.add(f.qualname)
            a, g, amb = _reads(f, prog)
            attrs |= a
            globs |= g
            ambient |= amb
            for c in cg.callees.get(f.qualname, ()):
                cf = cg.funcs.get(c)
                if cf is not None and (cf.cls is fi.cls or cf.cls is None) and cf.qualname not in seen:
                    todo.append(cf)
        stale = sorted((s, sorted(writers[s] - {q})) for s in (attrs | globs) if writers.get(s, set()) - {q})
        detail = ""
        if stale:
            detail = "; ".join(f"reads `{s}`, which {', '.join(ws[:3])} change{'s' if len(ws) == 1 else ''}" for s, ws in stale[:4])
        if ambient:
            detail = (detail + "; " if detail else "") + "consults " + ", ".join(sorted(ambient)[:3])
        res.ob("R00.memo", q, "memoised by decorator: depends only on its arguments and immutable state",
               not stale and not ambient,
               f"decorators {_deco_names(fi)}: {detail} - a cached result is replayed after the change",
               sig="memoised function depends on state that can change")
