"""Abstract values and path state of Engine A."""
from __future__ import annotations

from typing import Dict, List, Optional

from .loader import AnalysisError
from .poly import RF


class Infeasible(Exception):
    """The current path contradicts an established fact; the path is dropped."""


class Unsupported(AnalysisError):
    """Construct outside the analysed Python subset (fail closed, exit 2)."""


class ExcV:
    def __init__(self, name, args=(), node=None, where=None):
        self.name = name
        self.args = args
        self.node = node
        self.where = where

    def __repr__(self):
        return f"{self.name}@{self.where}" if self.where else self.name


class ExcObjV:
    """An exception instance that was created but not (yet) raised (`return SomeError(...)`)."""

    def __init__(self, exc: ExcV):
        self.exc = exc

    def __repr__(self):
        return f"ExcObj<{self.exc!r}>"


class AbsRaise(Exception):
    def __init__(self, exc: ExcV):
        self.exc = exc


# ---------------------------------------------------------------- values
class V:
    pass


class Num(V):
    """kinds: int bool dec frac exact(dec|frac) float stddec"""

    def __init__(self, rf: RF, kind: str = "exact"):
        self.rf = rf
        self.kind = kind

    def __repr__(self):
        return f"Num[{self.kind}]({self.rf!r})"


class NoneV(V):
    def __repr__(self):
        return "None"


class NotImplV(V):
    def __repr__(self):
        return "NotImplemented"


NONE = NoneV()
NOTIMPL = NotImplV()


class BoolV(V):
    def __init__(self, val: bool):
        self.val = val

    def __repr__(self):
        return str(self.val)


class CmpV(V):
    """Symbolic result of a numeric comparison op(l, r)."""

    def __init__(self, op: str, l: Num, r: Num, negated=False):
        self.op, self.l, self.r, self.negated = op, l, r, negated

    def __repr__(self):
        return f"{'not ' if self.negated else ''}({self.l.rf!r} {self.op} {self.r.rf!r})"


class StrV(V):
    def __init__(self, const: Optional[str] = None, tag: str = "str"):
        self.const = const
        self.tag = tag
        self.nonempty: Optional[bool] = None if const is None else bool(const)

    def __repr__(self):
        return f"Str({self.const!r})" if self.const is not None else f"Str<{self.tag}>"


class TupleV(V):
    def __init__(self, items: List[V]):
        self.items = list(items)

    def __repr__(self):
        return f"({', '.join(map(repr, self.items))})"


class NTupleV(TupleV):
    """typing.NamedTuple / collections.namedtuple instance: a tuple whose items also have names."""

    def __init__(self, items, fields, clsname="namedtuple"):
        super().__init__(items)
        self.fields = list(fields)
        self.clsname = clsname


class ListV(V):
    def __init__(self, items: Optional[List[V]] = None, tag="list", opaque_elem=None):
        self.items = items          # None => opaque content
        self.tag = tag
        self.opaque_elem = opaque_elem
        self.length = None if items is None else len(items)
        self.len_choices = None
        self.lazy = False           # True: produced by a generator (not Sized, always truthy)

    def __repr__(self):
        return f"List<{self.tag}>" if self.items is None else f"[{', '.join(map(repr, self.items))}]"


class GenV(V):
    """A generator expression: its element expressions run when it is consumed (late binding of free names)."""

    def __init__(self, node, frame, first_iter):
        self.node = node
        self.frame = frame
        self.first_iter = first_iter      # the outermost iterable is evaluated eagerly, as in Python
        self.consumed = False
        self.lazy = True

    def __repr__(self):
        return "Generator<expr>"


class SliceV(V):
    def __init__(self, lo, hi):
        self.lo, self.hi = lo, hi


class UnitV(V):
    def __init__(self, uid: str):
        self.uid = uid

    def __repr__(self):
        return f"Unit({self.uid})"


class ClsV(V):
    def __init__(self, tid: str):
        self.tid = tid

    def __repr__(self):
        return f"QCls({self.tid})"


class QtyV(V):
    def __init__(self, amount: Optional[Num], unit: Optional[UnitV], tid: str,
                 name: str = "", fresh: bool = False):
        self.amount = amount
        self.unit = unit
        self.tid = tid
        self.name = name
        self.fresh = fresh
        self.writes: List = []

    def __repr__(self):
        return f"Qty[{self.tid}]({self.amount!r}, {self.unit!r}{', fresh' if self.fresh else ''})"


class TermV(V):
    def __init__(self, mag: RF, dims: Dict[str, tuple], items=None, normalized=False,
                 origin=None):
        self.mag = mag
        self.dims = dims          # tid -> exponent (c0, c1)
        self.items = items        # list[(V, Num)] when literally known
        self.normalized = normalized
        self.origin = origin
        self.empty: Optional[bool] = None

    def __repr__(self):
        return f"Term(mag={self.mag!r}, dims={self.dims})"


class RateV(V):
    def __init__(self, unit: UnitV, term: UnitV, um: Num, ta: Num, name=""):
        self.unit, self.term, self.um, self.ta, self.name = unit, term, um, ta, name

    def __repr__(self):
        return f"Rate({self.unit!r}->{self.term!r}, ta={self.ta.rf!r}, um={self.um.rf!r})"


class FuncV(V):
    """Reference to a named external callable (operator.lt, Decimal, ...)."""

    def __init__(self, name: str):
        self.name = name

    def __repr__(self):
        return f"Fn<{self.name}>"


class PyFuncV(V):
    """A repo function, possibly bound."""

    def __init__(self, fi, self_val=None):
        self.fi = fi
        self.self_val = self_val

    def __repr__(self):
        return f"PyFn<{self.fi.qualname}>"


class LambdaV(V):
    def __init__(self, node, env, module, cls):
        self.node, self.env, self.module, self.cls = node, env, module, cls


class TypeV(V):
    """A plain Python type used in isinstance / calls (Unit, Term, Rational ...)."""

    def __init__(self, name: str, ci=None):
        self.name = name
        self.ci = ci

    def __repr__(self):
        return f"Type<{self.name}>"


class ModuleV(V):
    def __init__(self, name):
        self.name = name


class EnumV(V):
    def __init__(self, enum, member):
        self.enum, self.member = enum, member

    def __repr__(self):
        return f"{self.enum}.{self.member}"


class GlobalMapV(V):
    def __init__(self, name):
        self.name = name

    def __repr__(self):
        return f"GlobalMap<{self.name}>"


class ObjV(V):
    """Instance of a repo class with lazily created opaque fields."""

    def __init__(self, ci, name="", fields=None):
        self.ci = ci
        self.name = name
        self.fields: Dict[str, V] = dict(fields or {})

    def __repr__(self):
        return f"Obj<{self.ci.name if self.ci else '?'}:{self.name}>"


class OpaqueV(V):
    def __init__(self, tag="opaque"):
        self.tag = tag

    def __repr__(self):
        return f"Opaque<{self.tag}>"


class DateV(OpaqueV):
    """A calendar date with symbolic components: equal dates are dates with equal components."""

    def __init__(self, tag, y, m, d):
        super().__init__(tag)
        self.kinds = {"date"}
        self.y, self.m, self.d = y, m, d

    def __repr__(self):
        return f"Date<{self.tag}>"


class RegexV(V):
    """A compiled pattern of the repository (data, interpreted by the checker's own matcher)."""

    def __init__(self, pattern: str, flags: int):
        self.pattern, self.flags = pattern, flags

    def __repr__(self):
        return f"Regex<{self.pattern[:30]!r}>"


class MatchV(V):
    """A match of a reader pattern on an opaque text: its groups are the pieces of the text form."""

    def __init__(self, regex: RegexV, text, profile: dict, concrete=None):
        self.regex, self.text, self.profile, self.concrete = regex, text, profile, concrete
        self.pieces = {}


class SIPrefixV(V):
    def __init__(self, name="p"):
        self.name = name


class ConvV(V):
    def __init__(self, name="conv"):
        self.name = name


class SuperV(V):
    def __init__(self, ci, self_val):
        self.ci, self.self_val = ci, self_val


# ---------------------------------------------------------------- state
class TypeS:
    def __init__(self, tid, generic=False):
        self.tid = tid
        self.generic = generic
        self.has_ref: Optional[bool] = None
        self.has_quantum: Optional[bool] = None
        self.money: Optional[bool] = None
        self.ref_uid: Optional[str] = None


class UnitS:
    def __init__(self, uid, tid, mu: RF):
        self.uid = uid
        self.tid = tid
        self.mu = mu
        self.kind: Optional[str] = None    # ref | base | defined


class State:
    def __init__(self, oracle):
        self.oracle = oracle
        self.types: Dict[str, TypeS] = {}
        self.units: Dict[str, UnitS] = {}
        self.tparent: Dict[str, str] = {}
        self.uparent: Dict[str, str] = {}
        self.tdistinct = set()
        self.udistinct = set()
        self.subst: Dict[tuple, RF] = {}
        self.rnd_args: Dict[int, RF] = {}
        self.rnd_epoch: Dict[int, int] = {}
        self.rnd_index: Dict[tuple, int] = {}
        self.effects: List[tuple] = []
        self.flags: List[tuple] = []        # (kind, site, detail) soft findings (float arithmetic ...)
        self.cmp_facts: List[tuple] = []
        self.cmp_raw: List[tuple] = []        # (difference, operator, outcome) as decided, un-normalised
        self.counter = 0
        self.kind_refine: Dict[tuple, str] = {}
        self.type_dims: Dict[str, dict] = {}
        self.type_defs: Dict[str, object] = {}
        self.cls_fields: Dict[tuple, object] = {}
        self.known_absent = set()
        self.prior_effects = []     # effects of the earlier call(s) of a replayed case
        self.memo_hidden = False    # recomputation: nothing memoised is visible
        self.absent_before = set()
        self.never_found = set()    # terms known to be dimensionless on this path
        self.found_units = {}       # (directory, symbol) -> unit a directory look-up by symbol found
        self.rf_tables = []         # (table, symbolic values, extra, value): look-ups by term, keyed unknowns
        self.lookup_memo = {}       # (directory, key) -> found?  (consulted by the calls of a replayed case)
        self.lru = {}               # memoised function -> [(args, kwargs, value)] seen on this path
        self.epoch = 0              # bumped between the calls of a replayed case: ambient state may have changed
        self.unit_defs: Dict[str, object] = {}
        self.notes: List[str] = []

    # -- fresh ids
    def fresh(self, prefix):
        self.counter += 1
        return f"{prefix}{self.counter}"

    def fresh_keyed(self, prefix, rfs, extra=None):
        """A name for an unknown that is a function of the values `rfs` (and `extra`): the same unknown whenever it
        is asked for again - values compared under what the path knows *now* (facts learnt since do not split it)."""
        name = self.rf_table_get("name:" + prefix, rfs, extra)
        if name is None:
            name = self.fresh(prefix)
            self.rf_table_set("name:" + prefix, rfs, extra, name)
        return name

    # tables keyed by symbolic values: looked up by equality of the normal forms at the time of the look-up
    def rf_table_get(self, table, rfs, extra=None):
        found = []
        for t_, rs_, ex_, val_ in self.rf_tables:
            if t_ == table and ex_ == extra and len(rs_) == len(rfs) and \
                    all(self.norm(a).equals(self.norm(b)) for a, b in zip(rs_, rfs)):
                found.append(val_)
        if not found:
            return None
        if any(v != found[0] for v in found[1:]):
            # two keys that the path has since learnt to be one were answered differently: no such world
            raise Infeasible
        return found[0]

    def rf_table_set(self, table, rfs, extra, val):
        for i, (t_, rs_, ex_, _v) in enumerate(self.rf_tables):
            if t_ == table and ex_ == extra and len(rs_) == len(rfs) and \
                    all(self.norm(a).equals(self.norm(b)) for a, b in zip(rs_, rfs)):
                self.rf_tables[i] = (t_, rs_, ex_, val)
                return
        self.rf_tables.append((table, tuple(rfs), extra, val))

    # -- types
    def new_type(self, tid=None, generic=False, **attrs) -> str:
        tid = tid or self.fresh("R")
        t = TypeS(tid, generic)
        for k, v in attrs.items():
            setattr(t, k, v)
        self.types[tid] = t
        self.tparent[tid] = tid
        self._type_invariants(t)
        return tid

    def _type_invariants(self, t: TypeS):
        # class invariants established by QuantityMeta.__new__/MoneyMeta (checked by shape rules)
        if t.money:
            if t.has_ref or t.has_quantum:
                raise Infeasible
            t.has_ref = False
            t.has_quantum = False
        if t.has_quantum:
            if t.has_ref is False:
                raise Infeasible
            t.has_ref = True
        if t.has_ref is False and t.has_quantum is None:
            t.has_quantum = False
        if t.has_ref and t.money is None:
            t.money = False
        if t.has_quantum and t.money is None:
            t.money = False

    def tfind(self, tid):
        while self.tparent[tid] != tid:
            tid = self.tparent[tid]
        return tid

    def T(self, tid) -> TypeS:
        return self.types[self.tfind(tid)]

    def same_type(self, a, b) -> Optional[bool]:
        a, b = self.tfind(a), self.tfind(b)
        if a == b:
            return True
        if frozenset((a, b)) in self.tdistinct:
            return False
        ta, tb = self.types[a], self.types[b]
        if ta.generic != tb.generic:
            return False
        # a type whose dimension vector is known to be composite differs from a type of another dimension
        da = self._explicit_dims(a)
        db = self._explicit_dims(b)
        if da is not None or db is not None:
            xa = da if da is not None else {a: (1, 0)}
            xb = db if db is not None else {b: (1, 0)}
            if xa != xb:
                return False
        for attr in ("has_ref", "has_quantum", "money"):
            x, y = getattr(ta, attr), getattr(tb, attr)
            if x is not None and y is not None and x != y:
                return False
        return None

    def _explicit_dims(self, tid):
        d = self.type_dims.get(tid)
        if d is None:
            return None
        out = {}
        for k, e in d.items():
            k2 = self.tfind(k) if k in self.tparent else k
            o = out.get(k2, (0, 0))
            out[k2] = (o[0] + e[0], o[1] + e[1])
        return {k: e for k, e in out.items() if e != (0, 0)}

    def unify_types(self, a, b):
        a, b = self.tfind(a), self.tfind(b)
        if a == b:
            return
        if self.same_type(a, b) is False:
            raise Infeasible
        ta, tb = self.types[a], self.types[b]
        for attr in ("has_ref", "has_quantum", "money"):
            if getattr(ta, attr) is None:
                setattr(ta, attr, getattr(tb, attr))
        self.tparent[b] = a
        self.tdistinct = {frozenset(self.tfind(x) for x in p) for p in self.tdistinct}
        if any(len(p) == 1 for p in self.tdistinct):
            raise Infeasible
        self.add_subst(("rho", b), RF.atom(("rho", a)))
        self.add_subst(("Qm", b), RF.atom(("Qm", a)))
        if ta.ref_uid and tb.ref_uid:
            self.unify_units(ta.ref_uid, tb.ref_uid)
        elif tb.ref_uid:
            ta.ref_uid = tb.ref_uid
        self._type_invariants(ta)

    def distinct_types(self, a, b):
        a, b = self.tfind(a), self.tfind(b)
        if a == b:
            raise Infeasible
        self.tdistinct.add(frozenset((a, b)))

    # -- units
    def new_unit(self, tid, uid=None, mu: Optional[RF] = None, kind=None) -> str:
        uid = uid or self.fresh("U")
        if mu is None:
            mu = RF.atom(("mu", uid))
        u = UnitS(uid, tid, mu)
        u.kind = kind
        self.units[uid] = u
        self.uparent[uid] = uid
        return uid

    def ufind(self, uid):
        while self.uparent[uid] != uid:
            uid = self.uparent[uid]
        return uid

    def U(self, uid) -> UnitS:
        return self.units[self.ufind(uid)]

    def unit_type(self, uid) -> str:
        return self.tfind(self.U(uid).tid)

    def same_unit(self, a, b) -> Optional[bool]:
        a, b = self.ufind(a), self.ufind(b)
        if a == b:
            return True
        if frozenset((a, b)) in self.udistinct:
            return False
        ua, ub = self.units[a], self.units[b]
        if self.same_type(ua.tid, ub.tid) is False:
            return False
        if ua.kind and ub.kind and ua.kind != ub.kind:
            return False
        if ua.kind == "ref" and ub.kind == "ref" and self.same_type(ua.tid, ub.tid):
            return True
        return None

    def unify_units(self, a, b):
        a, b = self.ufind(a), self.ufind(b)
        if a == b:
            return
        if self.same_unit(a, b) is False:
            raise Infeasible
        ua, ub = self.units[a], self.units[b]
        # keep the unit whose mu is an atom of its own as secondary
        self.unify_types(ua.tid, ub.tid)
        if ua.kind is None:
            ua.kind = ub.kind
        self.uparent[b] = a
        self.udistinct = {frozenset(self.ufind(x) for x in p) for p in self.udistinct}
        if any(len(p) == 1 for p in self.udistinct):
            raise Infeasible
        self.equate(ub.mu, ua.mu)
        for nm in ("beta", "sf"):
            self.add_subst((nm, b), RF.atom((nm, a)))

    def distinct_units(self, a, b):
        a, b = self.ufind(a), self.ufind(b)
        if a == b:
            raise Infeasible
        self.udistinct.add(frozenset((a, b)))

    def dims_of_type(self, tid) -> dict:
        """Dimension vector of a type over the symbolic parameter types."""
        tid = self.tfind(tid)
        d = self.type_dims.get(tid)
        if d is None:
            for k, v in self.type_dims.items():
                if self.tfind(k) == tid:
                    d = v
                    break
        if d is None:
            return {tid: (1, 0)}
        out = {}
        for k, e in d.items():
            k2 = self.tfind(k) if k in self.tparent else k
            o = out.get(k2, (0, 0))
            out[k2] = (o[0] + e[0], o[1] + e[1])
        return {k: e for k, e in out.items() if e != (0, 0)}

    def ref_unit(self, tid) -> str:
        t = self.T(tid)
        if t.ref_uid is None:
            t.ref_uid = self.new_unit(t.tid, uid=f"ref({t.tid})",
                                      mu=RF.atom(("rho", t.tid)), kind="ref")
        return t.ref_uid

    # -- numeric facts
    def add_subst(self, atom, rf: RF):
        from .poly import PolyError
        rf = self.norm(rf)
        if atom in rf.atoms():
            return
        # apply to existing substitutions
        try:
            for k in list(self.subst):
                self.subst[k] = self.subst[k].subst({atom: rf})
        except PolyError:
            raise Infeasible
        self.subst[atom] = rf

    def norm(self, rf: RF) -> RF:
        from .poly import PolyError
        try:
            return self._norm(rf)
        except PolyError:
            # an equality fact of this path makes an earlier divisor zero: the concrete run would have
            # raised ZeroDivisionError before reaching this point - the path is infeasible
            raise Infeasible

    def _norm(self, rf: RF) -> RF:
        for _ in range(8):
            if not (rf.atoms() & set(self.subst)) and not (("n",) in self.subst and rf.has_sym_exp()):
                return rf
            rf = rf.subst(self.subst)
        return rf

    def equate(self, x: RF, y: RF) -> bool:
        """Record the fact x == y by solving it for one atom that occurs linearly."""
        x, y = self.norm(x), self.norm(y)
        if x.equals(y):
            return True
        for lhs, rhs in ((x, y), (y, x)):
            a = _single_atom(lhs)
            if a is not None and a not in rhs.atoms() and a[0] not in ("const", "rnd", "fn"):
                self.add_subst(a, rhs)
                return True
        diff = (x - y)
        num = diff.n            # diff == 0  <=>  numerator == 0
        # clear negative exponents of non-zero atoms (scales, quanta, numeric elements): a*b*c^-1 - 1 == 0  <=>  a*b - c == 0
        from .poly import Poly as _P
        from fractions import Fraction as _F
        low = {}
        for m in num.t:
            for a, e in m:
                if a[0] in ("mu", "rho", "Qm", "sf", "pw10", "beta", "nu") and e[1] == 0:
                    low[a] = min(low.get(a, 0), e[0])
        for m in num.t:
            for a in low:
                if a not in dict(m):
                    low[a] = min(low[a], 0)
        shift = tuple(sorted(((a, (-e, 0)) for a, e in low.items() if e < 0), key=lambda kv: repr(kv[0])))
        if shift:
            num = (RF(num) * RF(_P({shift: _F(1)}))).n
        from .poly import Poly
        pref = {"nu": -1, "ki": 0, "a": 1, "k": 2, "sym": 3, "parsed": 4, "ta": 5, "um": 6, "mu": 7, "n": 8,
                "rho": 9, "beta": 10, "sf": 11}
        cands = sorted((a for a in num.atoms() if a[0] in pref), key=lambda a: (pref[a[0]], repr(a)))
        for atom in cands:
            coef: dict = {}
            rest: dict = {}
            ok = True
            for m, c in num.t.items():
                es = [e for (a, e) in m if a == atom]
                if not es:
                    rest[m] = c
                elif es[0] == (1, 0):
                    mm = tuple((a, e) for (a, e) in m if a != atom)
                    coef[mm] = coef.get(mm, 0) + c
                else:
                    ok = False
                    break
            if not ok or not coef:
                continue
            C, R = RF(Poly(coef)), RF(Poly(rest))
            if C.is_zero():
                continue
            val = (RF.const(0) - R) / C
            if atom in val.atoms() or self._mentions(val, atom, 0):
                continue        # would define the atom through a rounding of itself
            if atom[0] in ("mu", "rho", "Qm", "sf", "pw10", "beta") and not self._positive_monomial(val):
                continue        # scales and quanta are positive: only a positive monomial can define them
            self.add_subst(atom, val)
            return True
        self.notes.append(f"unused equality fact {x!r} == {y!r}")
        return False

    def _positive_monomial(self, rf: RF) -> bool:
        if not (rf.d.is_const() and rf.n.is_monomial()):
            return False
        (m, c), = rf.n.t.items()
        if c / rf.d.const_value() <= 0:
            return False
        return all(a[0] in ("mu", "rho", "Qm", "sf", "pw10", "beta", "const") for a, _ in m)

    def _mentions(self, rf: RF, atom, depth) -> bool:
        if depth > 12:
            return True
        for a in rf.atoms():
            if a == atom:
                return True
            if a[0] in ("rnd", "fn"):
                arg = self.rnd_args.get(a[2])
                if arg is not None and self._mentions(self.norm(arg), atom, depth + 1):
                    return True
        return False

    # -- rounding atoms
    def canon_diff(self, rf: RF) -> RF:
        """Sign-preserving canonical form of a difference: for every positive-valued atom (scales, quanta) the
        minimal exponent over all monomials is shifted to 0, so  mu(a) - mu(b),  mu(a)/mu(b) - 1  and
        1 - mu(b)/mu(a)  ... all become  mu(a) - mu(b)."""
        rf = self.norm(rf)
        if not rf.d.is_const() or rf.n.is_zero():
            return rf
        from .poly import Poly
        from fractions import Fraction
        atoms = {}
        monos = list(rf.n.t)
        for m in monos:
            for a, e in m:
                if a[0] in ("mu", "rho", "Qm", "sf", "pw10", "beta") and e[1] == 0:
                    atoms.setdefault(a, [])
        for a in atoms:
            exps = []
            for m in monos:
                d = dict(m)
                exps.append(d[a][0] if a in d else 0)
            atoms[a] = min(exps)
        shift = tuple(sorted(((a, (-e, 0)) for a, e in atoms.items() if e != 0), key=lambda kv: repr(kv[0])))
        if not shift:
            return rf
        return rf * RF(Poly({shift: Fraction(1)}))

    def integer_valued(self, rf: RF) -> bool:
        """Z-linear combination of products of integer atoms (precision-0 roundings, grid indices)."""
        rf = self.norm(rf)
        if not rf.d.is_const():
            return False
        dc = rf.d.const_value()
        for m, c in rf.n.t.items():
            if (c / dc).denominator != 1:
                return False
            for a, e in m:
                if e[1] != 0 or e[0] < 0:
                    return False
                if not ((a[0] == "rnd" and a[1] == 0) or a[0] == "ki" or
                        (a[0] == "fn" and a[1] in ("floordiv", "numerator", "denominator", "int"))):
                    return False
        return True

    def bump_epoch(self):
        """The ambient state may have changed: the default rounding mode is another symbol (roundings under it are
        other roundings), look-ups that failed may succeed now (what was found stays found)."""
        self.epoch += 1
        self.absent_before |= self.known_absent
        self.known_absent = set()
        # (a look-up that failed may succeed now; what was found stays found; dimensionless terms are never found)
        self.rf_tables = [e for e in self.rf_tables if not (e[0].startswith("lookup:") and e[3] == 0)]

    def rnd(self, prec: int, arg: RF) -> RF:
        arg = self.norm(arg)
        if prec == 0 and self.integer_valued(arg):
            return arg          # rounding an integer to precision 0 is the identity
        key = (prec, arg.key()) if not self.epoch else (prec, arg.key(), self.epoch)
        n = self.rnd_index.get(key)
        if n is None and not (arg.d.is_const()):
            # rational functions are not stored in canonical form: intern by semantic equality
            for k_, m_ in self.rnd_index.items():
                p_ = k_[0]
                if p_ == prec and isinstance(p_, int) and (k_[2] if len(k_) > 2 else 0) == self.epoch and \
                        self.rnd_args[m_].equals(arg):
                    n = m_
                    break
        if n is None:
            n = len(self.rnd_args) + 1
            self.rnd_index[key] = n
            self.rnd_args[n] = arg
            self.rnd_epoch[n] = self.epoch
        return RF.atom(("rnd", prec, n))

    def rnd_epochs(self, rf: RF):
        """The ambient states (epochs) under whose default mode the roundings in a value were made."""
        out, todo = set(), [self.norm(rf)]
        for _ in range(20):
            if not todo:
                break
            r = todo.pop()
            for a in r.atoms():
                if a[0] == "rnd":
                    out.add(self.rnd_epoch.get(a[2], 0))
                    todo.append(self.norm(self.rnd_args[a[2]]))
        return tuple(sorted(out))

    def expand_rnd(self, rf: RF) -> RF:
        """Replace every rounding atom by its argument (exact value)."""
        rf = self.norm(rf)
        for _ in range(10):
            rs = [a for a in rf.atoms() if a[0] == "rnd"]
            if not rs:
                return rf
            rf = rf.subst({a: self.norm(self.rnd_args[a[2]]) for a in rs})
        return rf

    def rnd_depth(self, rf: RF) -> int:
        rf = self.norm(rf)
        d = 0
        for a in rf.atoms():
            if a[0] == "rnd":
                d = max(d, 1 + self.rnd_depth(self.rnd_args[a[2]]))
        return d

    def rnd_count(self, rf: RF) -> int:
        rf = self.norm(rf)
        return sum(1 for a in rf.atoms() if a[0] == "rnd")


def _single_atom(rf: RF):
    if rf.d.is_const() and rf.n.is_monomial():
        (m, c), = rf.n.t.items()
        if c == rf.d.const_value() and len(m) == 1 and m[0][1] == (1, 0):
            return m[0][0]
    return None
