"""Engine D: constant-propagating evaluator of the declarative catalogue
(predefined.py, si_prefixes.py) with the *checker's own* semantics of what a
declaration denotes.  The module-level code is folded over concrete values
(exact numbers, text, lists, units, types) by a small evaluator of the Python
subset a catalogue can reasonably be written in (literals, names, arithmetic,
f-strings, comprehensions, tuple unpacking, loops, local helper functions);
what `new_unit`, `derive_unit_from`, a class statement or a converter table
*mean* is the checker's own reading, written below.  Exact Fraction arithmetic;
unknown forms are an AnalysisError naming the statement.  Nothing is imported
from /repo."""
from __future__ import annotations

import ast
import re
from fractions import Fraction
from typing import Dict, List, Optional, Tuple

from .loader import AnalysisError, Program, src_of

SUP = {2: "²", 3: "³", 4: "⁴", 5: "⁵", 6: "⁶", 7: "⁷", 8: "⁸", 9: "⁹"}


class CType:
    def __init__(self, name, definition, ref_symbol, ref_name, quantum, lineno):
        self.name = name
        self.definition: Optional[List[Tuple["CType", int]]] = definition
        self.ref_symbol = ref_symbol
        self.ref_name = ref_name
        self.quantum = quantum
        self.lineno = lineno
        self.units: List["CUnit"] = []
        self.ref_unit: Optional["CUnit"] = None
        self.converters = []

    def dims(self) -> Dict[str, int]:
        if not self.definition:
            return {self.name: 1}
        out: Dict[str, int] = {}
        for t, e in self.definition:
            for k, v in t.dims().items():
                out[k] = out.get(k, 0) + v * e
        return {k: v for k, v in out.items() if v}

    def __repr__(self):
        return f"<CType {self.name}>"


class CUnit:
    def __init__(self, ctype: CType, symbol, name, scale: Optional[Fraction], how, lineno, var=None,
                 definition_text=""):
        self.ctype = ctype
        self.symbol = symbol
        self.name = name
        self.scale = scale          # absolute, in products of the base types' reference units
        self.how = how              # ref | scaled | term | derived | base
        self.lineno = lineno
        self.var = var
        self.definition_text = definition_text

    def __repr__(self):
        return f"<CUnit {self.symbol} {self.scale}>"


_SI_NAMES = ("yocto", "zepto", "atto", "femto", "pico", "nano", "micro", "milli", "centi", "deci", "deca", "hecto",
             "kilo", "mega", "giga", "tera", "peta", "exa", "zetta", "yotta")


class Prefix:
    def __init__(self, var, name, abbr, exp):
        self.var, self.name, self.abbr, self.exp = var, name, abbr, exp

    def __repr__(self):
        return f"<Prefix {self.name}>"


class CQty:
    """number * unit"""

    def __init__(self, amount: Fraction, unit: CUnit):
        self.amount, self.unit = amount, unit

    def __repr__(self):
        return f"<CQty {self.amount} {self.unit.symbol}>"


class CTerm:
    def __init__(self, items):
        self.items = items          # [(CUnit | number, int)]


class CClassTerm:
    """Class algebra: ordered list of (type, exponent)."""

    def __init__(self, items):
        self.items = items


class CFunc:
    def __init__(self, node, env, name):
        self.node, self.env, self.name = node, env, name


class CBuiltin:
    def __init__(self, name):
        self.name = name

    def __repr__(self):
        return f"<builtin {self.name}>"


class CBound:
    def __init__(self, obj, attr):
        self.obj, self.attr = obj, attr


class CConverter:
    def __init__(self, rows):
        self.rows = rows


class CModule:
    def __init__(self, name):
        self.name = name

    def __repr__(self):
        return f"<module {self.name}>"


class XTree:
    def __init__(self, tree):
        self.tree = tree


class XElem:
    """An element of a data file of the repository, parsed by the checker's own XML reader."""

    def __init__(self, el):
        self.el = el


class ModuleRaises(AnalysisError):
    """Module-level code of the catalogue would raise when imported (decided by the constant evaluator)."""


class _PyRaise(Exception):
    """A Python exception raised by the evaluated code."""

    def __init__(self, name, msg=""):
        self.name, self.msg = name, msg


_EXC_PARENTS = {"KeyError": ("LookupError", "Exception"), "IndexError": ("LookupError", "Exception"),
                "ValueError": ("Exception",), "TypeError": ("Exception",), "AttributeError": ("Exception",),
                "ZeroDivisionError": ("ArithmeticError", "Exception"), "StopIteration": ("Exception",),
                "AssertionError": ("Exception",), "LookupError": ("Exception",), "ArithmeticError": ("Exception",)}


class _Return(Exception):
    def __init__(self, v):
        self.v = v


class _Break(Exception):
    pass


class _Continue(Exception):
    pass


def _has_own_yield(fn_node) -> bool:
    todo = list(fn_node.body) if isinstance(fn_node.body, list) else [fn_node.body]
    while todo:
        n = todo.pop()
        if isinstance(n, (ast.Yield, ast.YieldFrom)):
            return True
        if isinstance(n, (ast.FunctionDef, ast.AsyncFunctionDef, ast.Lambda, ast.ClassDef)):
            continue
        todo.extend(ast.iter_child_nodes(n))
    return False


def _decimal_digits(q: Fraction) -> Optional[int]:
    """Number of fractional digits of a terminating decimal expansion (None: not a decimal fraction)."""
    d = q.denominator
    n2 = n5 = 0
    while d % 2 == 0:
        d //= 2
        n2 += 1
    while d % 5 == 0:
        d //= 5
        n5 += 1
    return max(n2, n5) if d == 1 else None


def term_symbol(items: List[Tuple[str, int]]) -> str:
    """Symbol of a product of unit symbols, in the documentation's convention."""
    pos, neg = [], []
    for sym, e in items:
        parts = sym.split("/")
        for i, s in enumerate(parts):
            ee = e if i == 0 else -e
            txt = s + SUP.get(abs(ee), "")
            (pos if ee > 0 else neg).append(txt)
    p = "·".join(pos) if pos else "1"
    return p + ("/" + "·".join(neg) if neg else "")


def _is_num(v) -> bool:
    return isinstance(v, (int, Fraction, float)) and not isinstance(v, bool)


def _exact(v) -> Fraction:
    """Exact rational value of a number (a float stands for its binary value, as in Quantity(float))."""
    return Fraction(v)


_BUILTINS = ("Decimal", "Fraction", "Term", "TableConverter", "Quantity", "len", "range", "zip", "enumerate",
             "str", "int", "tuple", "list", "dict", "sorted", "reversed", "isinstance", "sum", "min", "max",
             "abs", "round", "repr", "float", "bool", "getattr", "print", "map", "filter", "any", "all", "set", "iter",
             "List", "Tuple", "Dict", "Optional", "Union", "MutableMapping", "Mapping", "Sequence", "Iterable",
             "Iterator", "Callable", "Any", "Element", "suppress", "type", "Rational", "Real", "Integral", "Number",
             "locals", "format", "issubclass", "Unit", "QuantityMeta")


class Catalogue:
    def __init__(self, prog: Program):
        self.prog = prog
        self.prefixes: Dict[str, Prefix] = {}
        self.types: Dict[str, CType] = {}
        self.env: Dict[str, object] = {}
        self.units: List[CUnit] = []
        self.statements = 0
        self.doc = ""
        self.file = "predefined.py"
        self.cur = None
        self.prefix_factor_ok: Optional[bool] = None
        self.prefix_factor_detail = ""
        self._eval_prefixes()
        self._eval_predefined()

    # ------------------------------------------------------------ errors
    def err(self, what, node=None):
        ln = getattr(node, "lineno", None) or getattr(self.cur, "lineno", "?")
        raise AnalysisError(f"{self.file}:{ln}: {what}")

    # ------------------------------------------------------------ helper modules of the package
    _SKIP_MODULES = ("quantity", "quantity.predefined", "quantity.si_prefixes", "quantity.money", "quantity.term",
                     "quantity.registry", "quantity.converter", "quantity.cwdmeta", "quantity.exceptions")

    def _import_from_package(self, module, env):
        """Names a catalogue module imports from *other, small* modules of the package (helpers split off by a
        refactoring) are bound by evaluating the definitions of exactly those names in a scope of the helper module."""
        for name, (mod, nm) in getattr(module, "imports", {}).items():
            if nm is None or name in env or mod not in self.prog.modules or mod in self._SKIP_MODULES:
                continue
            v = self._module_name(mod, nm)
            if v is not None:
                env[name] = v

    def _module_name(self, mod, nm, _depth=0):
        cache = self.__dict__.setdefault("_helper_envs", {})
        m = self.prog.modules[mod]
        henv = cache.get(mod)
        if henv is None:
            henv = cache[mod] = {}
            for iname, (imod, inm) in m.imports.items():
                if inm in _BUILTINS or iname in _BUILTINS:
                    henv[iname] = CBuiltin(inm if inm in _BUILTINS else iname)
                elif inm == "ONE":
                    henv[iname] = Fraction(1)
        if nm in henv:
            return henv[nm]
        if _depth > 4:
            return None
        for st in m.tree.body:
            if isinstance(st, ast.FunctionDef) and st.name == nm:
                henv[nm] = CFunc(st, henv, nm)
                # the helper may use other names of its module: bind those it mentions
                for n in ast.walk(st):
                    if isinstance(n, ast.Name) and n.id not in henv and n.id != nm and \
                            (n.id in m.functions or n.id in m.globals):
                        self._module_name(mod, n.id, _depth + 1)
                return henv[nm]
            tgt = None
            if isinstance(st, ast.Assign) and len(st.targets) == 1 and isinstance(st.targets[0], ast.Name):
                tgt = st.targets[0].id
            elif isinstance(st, ast.AnnAssign) and isinstance(st.target, ast.Name) and st.value is not None:
                tgt = st.target.id
            if tgt == nm:
                saved = self.file
                self.file = m.rel() if hasattr(m, "rel") else mod
                try:
                    self._exec(st, henv, top=False)
                finally:
                    self.file = saved
                return henv.get(nm)
        # re-exported from a further module
        if nm in m.imports and m.imports[nm][0] in self.prog.modules and m.imports[nm][0] not in self._SKIP_MODULES:
            return self._module_name(m.imports[nm][0], m.imports[nm][1], _depth + 1)
        return None

    # ------------------------------------------------------------ prefixes
    def _eval_prefixes(self):
        m = self.prog.modules.get("quantity.si_prefixes")
        if m is None:
            raise AnalysisError("module si_prefixes missing")
        self.file = "si_prefixes.py"
        env: Dict[str, object] = {}
        self.prefix_class = None
        self.prefix_env = env
        self._import_from_package(m, env)
        for st in m.tree.body:
            self.cur = st
            if isinstance(st, (ast.Import, ast.ImportFrom)):
                for a in st.names:
                    nm = a.asname or a.name
                    if nm in _BUILTINS:
                        env[nm] = CBuiltin(nm)
                continue
            if isinstance(st, ast.Expr) and isinstance(st.value, ast.Constant):
                continue
            if isinstance(st, ast.ClassDef):
                if st.name == "SIPrefix":
                    self.prefix_class = st
                    env[st.name] = CBuiltin("SIPrefix")
                continue
            self._exec(st, env, top=True)
        for k, v in env.items():
            if isinstance(v, Prefix):
                if v.var is None:
                    v.var = k
                self.prefixes[k] = v
        for k, v in self.prefixes.items():
            if not isinstance(v.exp, int) or isinstance(v.exp, bool):
                raise AnalysisError(f"si_prefixes.py: exponent of {k} is not an integer")
        # what SIPrefix.factor computes, evaluated for every prefix (the checker's reading: 10 ** exp)
        self._check_prefix_factor(env)

    def _check_prefix_factor(self, env):
        cd = self.prefix_class
        if cd is None:
            return
        fac = None
        for s in cd.body:
            if isinstance(s, ast.FunctionDef) and s.name == "factor":
                fac = s
        if fac is None:
            self.prefix_factor_ok, self.prefix_factor_detail = False, "SIPrefix has no factor"
            return
        fenv = dict(env)
        for nm in ("Decimal", "Fraction"):
            fenv.setdefault(nm, CBuiltin(nm))
        self.prefix_factor_def = CFunc(fac, fenv, "SIPrefix.factor")
        bad = []
        self.prefix_factors = {}
        # the members of the public list SI_PREFIXES are the SI prefixes the package registers (looked up by factor)
        listed = env.get("SI_PREFIXES")
        listed = [x for x in listed if isinstance(x, Prefix)] if isinstance(listed, (list, tuple)) else []
        for p in list(self.prefixes.values()) + [x for x in listed if not any(x is y for y in self.prefixes.values())]:
            try:
                v = self._call_func(self.prefix_factor_def, [p], {})
            except AnalysisError as e:
                self.prefix_factor_ok, self.prefix_factor_detail = None, str(e)
                return
            self.prefix_factors[id(p)] = v
            si = (p.var or "").lower() in _SI_NAMES or any(p is x for x in listed)
            if si and (not _is_num(v) or isinstance(v, float) or not isinstance(p.exp, int) or _exact(v) != Fraction(10) ** p.exp):
                bad.append(f"{p.name}: factor {v!r}" + (f", 10^{p.exp}" if isinstance(p.exp, int) else "") +
                           (" (listed in SI_PREFIXES)" if any(p is x for x in listed) else ""))
        self.prefix_factor_ok = not bad
        self.prefix_factor_detail = "; ".join(bad[:3])

    def _prefix_factor(self, p: "Prefix", node=None):
        fd = getattr(self, "prefix_factor_def", None)
        if fd is None:
            return Fraction(10) ** p.exp
        v = self._call_func(fd, [p], {}, node)
        if not _is_num(v):
            self.err(f"factor of prefix {p.name} is not a number: {v!r}", node)
        return _exact(v)

    # ------------------------------------------------------------ predefined
    def _eval_predefined(self):
        m = self.prog.modules["quantity.predefined"]
        self.module = m
        self.file = "predefined.py"
        self.doc = ast.get_docstring(m.tree, clean=False) or ""
        for name, (mod, nm) in m.imports.items():
            if mod == "quantity.si_prefixes":
                if nm not in self.prefixes:
                    raise AnalysisError(f"predefined.py imports unknown prefix {nm}")
                self.env[name] = self.prefixes[nm]
            elif nm in _BUILTINS or name in _BUILTINS:
                self.env[name] = CBuiltin(nm if nm in _BUILTINS else name)
        self._import_from_package(m, self.env)
        for st in m.tree.body:
            self.statements += 1
            self.cur = st
            try:
                self._exec(st, self.env, top=True)
            except _PyRaise as ex:
                self.err(f"the statement raises {ex.name}: {ex.msg}", st)
        # `from quantity.predefined import *` raises AttributeError for a name listed in __all__ but not bound
        bound = set(self.env) | set(m.imports) | set(getattr(m, "globals", {})) | set(getattr(m, "functions", {})) \
            | set(getattr(m, "classes", {}))
        self.unbound_exports = [n for n in getattr(self, "exported", []) if n not in bound]

    # ------------------------------------------------------------ statements
    def _exec_block(self, body, env):
        for st in body:
            self._exec(st, env)

    def _exec(self, st, env, top=False):
        if isinstance(st, (ast.Import, ast.ImportFrom)):
            if getattr(self, "bind_imports", False):
                for a in st.names:
                    nm = a.asname or a.name.split(".")[0]
                    full = a.name if isinstance(st, ast.Import) else f"{st.module}.{a.name}"
                    if isinstance(st, ast.Import) and a.asname is None:
                        full = a.name.split(".")[0]
                    env[nm] = CBuiltin(nm) if nm in _BUILTINS else CModule(full)
            return
        if isinstance(st, (ast.Pass, ast.Global)):
            return
        if isinstance(st, ast.Try):
            try:
                try:
                    self._exec_block(st.body, env)
                except _PyRaise as ex:
                    for h in st.handlers:
                        names = []
                        if h.type is not None:
                            names = [src_of(e).split(".")[-1] for e in
                                     (h.type.elts if isinstance(h.type, ast.Tuple) else [h.type])]
                        if h.type is None or ex.name in names or any(p in names for p in _EXC_PARENTS.get(ex.name, ("Exception",))):
                            if h.name:
                                env[h.name] = ex
                            self._exec_block(h.body, env)
                            break
                    else:
                        raise
                else:
                    self._exec_block(st.orelse, env)
            finally:
                self._exec_block(st.finalbody, env)
            return
        if isinstance(st, ast.Raise):
            if st.exc is None:
                self.err("bare raise", st)
            tgt = st.exc.func if isinstance(st.exc, ast.Call) else st.exc
            msg = ""
            if isinstance(st.exc, ast.Call) and st.exc.args:
                try:
                    msg = self._text(self._eval(st.exc.args[0], env))
                except AnalysisError:
                    msg = ""
            raise _PyRaise(src_of(tgt).split(".")[-1], msg)
        if isinstance(st, ast.Expr):
            if isinstance(st.value, ast.Constant):
                return
            self._eval(st.value, env)
            return
        if isinstance(st, ast.ClassDef):
            if top and env is self.env:
                return self._class(st, env)
            self.err(f"class statement outside the module level: {st.name}", st)
        if isinstance(st, ast.Assert):
            return
        if isinstance(st, ast.FunctionDef):
            env[st.name] = CFunc(st, env, st.name)
            return
        if isinstance(st, ast.Assign):
            v = self._eval(st.value, env)
            for t in st.targets:
                self._assign(t, v, env)
            return
        if isinstance(st, ast.AnnAssign):
            if st.value is not None:
                self._assign(st.target, self._eval(st.value, env), env)
            return
        if isinstance(st, ast.AugAssign):
            cur = self._eval(st.target, env)
            v = self._binop(st.op, cur, self._eval(st.value, env), st)
            self._assign(st.target, v, env)
            return
        if isinstance(st, ast.For):
            for x in self._iter(self._eval(st.iter, env), st):
                self._assign(st.target, x, env)
                try:
                    self._exec_block(st.body, env)
                except _Break:
                    break
                except _Continue:
                    continue
            else:
                self._exec_block(st.orelse, env)
            return
        if isinstance(st, ast.If):
            if isinstance(st.test, ast.Name) and st.test.id == "TYPE_CHECKING":
                return self._exec_block(st.orelse, env)
            if self._truth(self._eval(st.test, env)):
                self._exec_block(st.body, env)
            else:
                self._exec_block(st.orelse, env)
            return
        if isinstance(st, ast.Match):
            subject = self._eval(st.subject, env)
            for case in st.cases:
                binds = {}
                if self._match(case.pattern, subject, env, binds):
                    for k, v in binds.items():
                        self._assign(ast.Name(id=k, ctx=ast.Store()), v, env)
                    if case.guard is None or self._truth(self._eval(case.guard, env)):
                        self._exec_block(case.body, env)
                        return
            return
        if isinstance(st, ast.With):
            suppressed = []
            for item in st.items:
                cm = self._eval(item.context_expr, env)
                if isinstance(cm, tuple) and cm and cm[0] == "suppress":
                    suppressed.extend(cm[1])
                else:
                    self.err(f"with statement over {cm!r} outside the catalogue language", st)
            try:
                self._exec_block(st.body, env)
            except _PyRaise as ex:
                if ex.name in suppressed or any(p_ in suppressed for p_ in _EXC_PARENTS.get(ex.name, ("Exception",))):
                    return
                raise
            return
        if isinstance(st, ast.Return):
            raise _Return(self._eval(st.value, env) if st.value is not None else None)
        if isinstance(st, ast.Break):
            raise _Break()
        if isinstance(st, ast.Continue):
            raise _Continue()
        if isinstance(st, ast.Delete):
            for t in st.targets:
                if isinstance(t, ast.Name):
                    env.pop(t.id, None)
                else:
                    self.err(f"statement form outside the catalogue language: {src_of(st)[:100]}", st)
            return
        self.err(f"statement form outside the catalogue language: {src_of(st)[:100]}", st)

    def _assign(self, target, v, env):
        if isinstance(target, ast.Name):
            if target.id == "__all__":
                if isinstance(v, (list, tuple)) and all(isinstance(x, str) for x in v):
                    self.exported = list(v)
                return
            env[target.id] = v
            if env is self.env:
                if isinstance(v, CUnit) and v.var is None:
                    v.var = target.id
                if isinstance(v, Prefix) and v.var is None:
                    v.var = target.id
            return
        if isinstance(target, (ast.Tuple, ast.List)):
            seq = list(self._iter(v, target))
            star = [i for i, e in enumerate(target.elts) if isinstance(e, ast.Starred)]
            if star:
                i = star[0]
                na = len(target.elts) - i - 1
                if len(seq) < len(target.elts) - 1:
                    self.err("not enough values to unpack", target)
                for t, x in zip(target.elts[:i], seq[:i]):
                    self._assign(t, x, env)
                self._assign(target.elts[i].value, list(seq[i:len(seq) - na]), env)
                for t, x in zip(target.elts[i + 1:], seq[len(seq) - na:]):
                    self._assign(t, x, env)
                return
            if len(seq) != len(target.elts):
                self.err(f"unpacking {len(seq)} values into {len(target.elts)} names", target)
            for t, x in zip(target.elts, seq):
                self._assign(t, x, env)
            return
        if isinstance(target, ast.Subscript):
            obj = self._eval(target.value, env)
            key = self._eval(target.slice, env)
            if isinstance(obj, (list, dict)):
                obj[self._key(key)] = v
                return
        if isinstance(target, ast.Attribute):
            obj = self._eval(target.value, env)
            if isinstance(obj, Prefix):
                setattr(obj, target.attr, v)
                return
        self.err(f"assignment target outside the catalogue language: {src_of(target)[:80]}", target)

    @staticmethod
    def _key(k):
        if isinstance(k, Fraction) and k.denominator == 1:
            return int(k)
        return k

    # ------------------------------------------------------------ class statements
    def _class(self, st: ast.ClassDef, env):
        bases = [src_of(b) for b in st.bases]
        if "Quantity" not in bases:
            raise AnalysisError(f"predefined.py:{st.lineno}: class {st.name} is not a Quantity subclass")
        kw = {k.arg: self._eval(k.value, env) for k in st.keywords if k.arg != "metaclass"}
        definition = None
        if "define_as" in kw:
            d = kw["define_as"]
            if isinstance(d, CType):
                d = CClassTerm([(d, 1)])
            if not isinstance(d, CClassTerm):
                raise AnalysisError(f"predefined.py:{st.lineno}: define_as form outside the class algebra: {d!r}")
            definition = list(d.items)
        ref_symbol = kw.get("ref_unit_symbol")
        ref_name = kw.get("ref_unit_name")
        quantum = kw.get("quantum")
        if quantum is not None:
            if not _is_num(quantum):
                raise AnalysisError(f"predefined.py:{st.lineno}: quantum is not a number")
            quantum = _exact(quantum)
        unknown = set(kw) - {"define_as", "ref_unit_symbol", "ref_unit_name", "quantum"}
        if unknown:
            raise AnalysisError(f"predefined.py:{st.lineno}: unknown class keywords {unknown}")
        t = CType(st.name, definition, ref_symbol, ref_name, quantum, st.lineno)
        if definition is not None and all(tt.ref_unit is not None for tt, _ in definition):
            if not ref_symbol:
                ref_symbol = term_symbol([(tt.ref_unit.symbol, e) for tt, e in definition])
                t.ref_symbol = ref_symbol
        if ref_symbol:
            scale = Fraction(1)
            if definition is not None:
                # the checker's semantics: reference unit of a derived type = product of the base types' reference units
                for tt, e in definition:
                    if tt.ref_unit is None:
                        raise AnalysisError(f"predefined.py:{st.lineno}: derived type with reference unit over a "
                                            f"type without one")
                    scale *= tt.ref_unit.scale ** e
            u = CUnit(t, ref_symbol, ref_name, scale, "ref", st.lineno)
            t.ref_unit = u
            t.units.append(u)
            self.units.append(u)
        self.types[st.name] = t
        env[st.name] = t

    @staticmethod
    def _merge(items):
        out: List[Tuple[CType, int]] = []
        for t, e in items:
            for i, (t2, e2) in enumerate(out):
                if t2 is t:
                    out[i] = (t, e + e2)
                    break
            else:
                out.append((t, e))
        return [(t, e) for t, e in out if e]

    # ------------------------------------------------------------ expressions
    def _truth(self, v) -> bool:
        if isinstance(v, (CType, CUnit, Prefix, CQty, CFunc, CBuiltin, CBound, CConverter)):
            return True
        return bool(v)

    def _iter(self, v, node):
        if isinstance(v, (list, tuple, str, range, dict)):
            return list(v)
        if isinstance(v, CTerm):
            return [tuple(it) for it in v.items]
        if isinstance(v, XElem):
            return [XElem(c) for c in list(v.el)]
        self.err(f"iteration over {v!r}", node)

    def _eval(self, n, env):
        m = getattr(self, "_e_" + type(n).__name__, None)
        if m is None:
            self.err(f"value form outside the catalogue language: {src_of(n)[:100]}", n)
        return m(n, env)

    def _e_Constant(self, n, env):
        return n.value

    def _e_Name(self, n, env):
        e = env
        while e is not None:
            if n.id in e:
                return e[n.id]
            e = e.get("__parent__") if isinstance(e, dict) else None
        if n.id in self.env:
            return self.env[n.id]
        if n.id in _BUILTINS:
            return CBuiltin(n.id)
        if n.id in _EXC_PARENTS or n.id in ("Exception", "BaseException"):
            return CBuiltin(n.id)
        if n.id in ("True", "False", "None"):
            return {"True": True, "False": False, "None": None}[n.id]
        import builtins
        if not hasattr(builtins, n.id):
            # not a name of the module, of its imports or a builtin: Python raises NameError here
            ln = getattr(n, "lineno", None) or getattr(self.cur, "lineno", "?")
            raise ModuleRaises(f"{self.file}:{ln}: name '{n.id}' is not defined when the statement is executed "
                               f"(NameError while the module is imported)")
        self.err(f"unknown name {n.id}", n)

    def _e_Tuple(self, n, env):
        return tuple(self._elts(n.elts, env))

    def _e_List(self, n, env):
        return list(self._elts(n.elts, env))

    def _e_Set(self, n, env):
        return list(self._elts(n.elts, env))

    def _elts(self, elts, env):
        out = []
        for e in elts:
            if isinstance(e, ast.Starred):
                out.extend(self._iter(self._eval(e.value, env), e))
            else:
                out.append(self._eval(e, env))
        return out

    def _e_Dict(self, n, env):
        out = {}
        for k, v in zip(n.keys, n.values):
            if k is None:
                out.update(self._eval(v, env))
            else:
                out[self._key(self._eval(k, env))] = self._eval(v, env)
        return out

    def _e_UnaryOp(self, n, env):
        v = self._eval(n.operand, env)
        if isinstance(n.op, ast.Not):
            return not self._truth(v)
        if _is_num(v):
            if isinstance(n.op, ast.USub):
                return -v
            if isinstance(n.op, ast.UAdd):
                return v
        if isinstance(v, CQty) and isinstance(n.op, ast.USub):
            return CQty(-v.amount, v.unit)
        self.err(f"unary operation on {v!r}", n)

    def _e_BinOp(self, n, env):
        return self._binop(n.op, self._eval(n.left, env), self._eval(n.right, env), n)

    def _num_binop(self, op, l, r, node):
        # Python's own arithmetic; a Fraction stands for an exact Decimal/Fraction, mixed with a float it stays exact
        if isinstance(l, Fraction) and isinstance(r, float):
            r = Fraction(r)
        if isinstance(r, Fraction) and isinstance(l, float):
            l = Fraction(l)
        try:
            if isinstance(op, ast.Add):
                return l + r
            if isinstance(op, ast.Sub):
                return l - r
            if isinstance(op, ast.Mult):
                return l * r
            if isinstance(op, ast.Div):
                return l / r
            if isinstance(op, ast.FloorDiv):
                return l // r
            if isinstance(op, ast.Mod):
                return l % r
            if isinstance(op, ast.Pow):
                if isinstance(r, Fraction) and r.denominator == 1:
                    r = int(r)
                if isinstance(r, Fraction):
                    self.err("non-integer power", node)
                return l ** r
        except ZeroDivisionError:
            self.err("division by zero", node)
        self.err(f"operator {type(op).__name__} on numbers", node)

    def _binop(self, op, l, r, node):
        if _is_num(l) and _is_num(r):
            return self._num_binop(op, l, r, node)
        if isinstance(op, ast.Add):
            if isinstance(l, str) and isinstance(r, str):
                return l + r
            if isinstance(l, list) and isinstance(r, list):
                return l + r
            if isinstance(l, tuple) and isinstance(r, tuple):
                return l + r
        if isinstance(op, ast.Mod) and isinstance(l, str):
            args = r if isinstance(r, tuple) else (r,)
            return l % tuple(self._fmt_arg(a) for a in args)
        if isinstance(op, ast.Mult):
            if isinstance(l, (str, list, tuple)) and isinstance(r, int):
                return l * r
            if isinstance(r, (str, list, tuple)) and isinstance(l, int):
                return r * l
            # <number | prefix> * unit -> quantity; number * quantity
            for a, b in ((l, r), (r, l)):
                f = None
                if isinstance(a, Prefix):
                    f = self._prefix_factor(a, node)
                elif _is_num(a):
                    f = _exact(a)
                if f is not None:
                    if isinstance(b, CUnit):
                        return CQty(f, b)
                    if isinstance(b, CQty):
                        return CQty(f * b.amount, b.unit)
            # class algebra
            if isinstance(l, (CType, CClassTerm)) and isinstance(r, (CType, CClassTerm)):
                return CClassTerm(self._merge(self._cls_items(l) + self._cls_items(r)))
        if isinstance(op, ast.Div):
            if isinstance(l, (CType, CClassTerm)) and isinstance(r, (CType, CClassTerm)):
                return CClassTerm(self._merge(self._cls_items(l) + [(t, -e) for t, e in self._cls_items(r)]))
            if isinstance(l, CQty) and _is_num(r):
                return CQty(l.amount / _exact(r), l.unit)
            if isinstance(l, CUnit) and _is_num(r):
                return CQty(1 / _exact(r), l)
        if isinstance(op, ast.Pow) and isinstance(l, (CType, CClassTerm)) and _is_num(r):
            k = _exact(r)
            if k.denominator != 1:
                self.err("non-integer exponent in the class algebra", node)
            return CClassTerm([(t, e * int(k)) for t, e in self._cls_items(l)])
        self.err(f"operation {type(op).__name__} on {l!r} and {r!r} outside the catalogue language", node)

    @staticmethod
    def _cls_items(v):
        return [(v, 1)] if isinstance(v, CType) else list(v.items)

    def _e_BoolOp(self, n, env):
        v = None
        for e in n.values:
            v = self._eval(e, env)
            if isinstance(n.op, ast.And) and not self._truth(v):
                return v
            if isinstance(n.op, ast.Or) and self._truth(v):
                return v
        return v

    def _e_IfExp(self, n, env):
        return self._eval(n.body if self._truth(self._eval(n.test, env)) else n.orelse, env)

    def _e_Compare(self, n, env):
        l = self._eval(n.left, env)
        for op, rn in zip(n.ops, n.comparators):
            r = self._eval(rn, env)
            if isinstance(op, (ast.Is, ast.IsNot)):
                same = l is r or (l is None and r is None) or (isinstance(l, bool) and isinstance(r, bool) and l == r) \
                    or (isinstance(l, CBuiltin) and isinstance(r, CBuiltin) and l.name == r.name)
                ok = same if isinstance(op, ast.Is) else not same
            elif isinstance(op, (ast.In, ast.NotIn)):
                try:
                    hit = l in r
                except TypeError:
                    self.err("membership test", n)
                ok = hit if isinstance(op, ast.In) else not hit
            else:
                plain = (str, int, float, Fraction, tuple, list, type(None), bool)
                if isinstance(l, plain) and isinstance(r, plain):
                    try:
                        ok = {ast.Eq: l == r, ast.NotEq: l != r}.get(type(op))
                        if ok is None:
                            ok = {ast.Lt: lambda: l < r, ast.LtE: lambda: l <= r, ast.Gt: lambda: l > r,
                                  ast.GtE: lambda: l >= r}[type(op)]()
                    except TypeError:
                        self.err("comparison", n)
                elif isinstance(op, (ast.Eq, ast.NotEq)):
                    ok = (l is r) if isinstance(op, ast.Eq) else (l is not r)
                else:
                    self.err(f"comparison of {l!r} and {r!r}", n)
            if not ok:
                return False
            l = r
        return True

    def _fmt_arg(self, v):
        if isinstance(v, Fraction):
            return int(v) if v.denominator == 1 else v
        if isinstance(v, CUnit):
            return v.symbol
        if isinstance(v, CType):
            return v.name
        return v

    def _text(self, v) -> str:
        v = self._fmt_arg(v)
        if isinstance(v, (str, int, float, Fraction, bool, type(None))):
            return str(v)
        self.err(f"text form of {v!r}")

    def _e_JoinedStr(self, n, env):
        out = []
        for p in n.values:
            if isinstance(p, ast.Constant):
                out.append(p.value)
            else:
                v = self._fmt_arg(self._eval(p.value, env))
                spec = self._e_JoinedStr(p.format_spec, env) if p.format_spec is not None else ""
                if p.conversion == ord("r"):
                    v = repr(v)
                elif p.conversion == ord("s"):
                    v = str(v)
                if not isinstance(v, (str, int, float, Fraction, bool, type(None))):
                    self.err(f"text form of {v!r}", p)
                try:
                    out.append(format(v, spec))
                except (TypeError, ValueError):
                    self.err("format spec", p)
        return "".join(out)

    def _e_Subscript(self, n, env):
        obj = self._eval(n.value, env)
        if isinstance(n.slice, ast.Slice):
            idx = []
            for part in (n.slice.lower, n.slice.upper, n.slice.step):
                v = self._eval(part, env) if part is not None else None
                idx.append(self._key(v))
            if isinstance(obj, (str, list, tuple)):
                return obj[slice(*idx)]
            self.err(f"slice of {obj!r}", n)
        key = self._key(self._eval(n.slice, env))
        if isinstance(obj, (str, list, tuple, dict)):
            try:
                return obj[key]
            except KeyError:
                raise _PyRaise("KeyError", repr(key))
            except IndexError:
                raise _PyRaise("IndexError", repr(key))
            except TypeError:
                self.err(f"subscript {key!r} of {src_of(n.value)}", n)
        if isinstance(obj, CBuiltin):
            return obj          # typing subscription
        self.err(f"subscript of {obj!r}", n)

    def _e_Attribute(self, n, env):
        return self._attr(self._eval(n.value, env), n.attr, n)

    def _attr(self, obj, a, n):
        if isinstance(obj, CType):
            if a == "ref_unit":
                if obj.ref_unit is None:
                    self.err(f"{obj.name} has no reference unit", n)
                return obj.ref_unit
            if a in ("__name__", "__qualname__"):
                return obj.name
            if a == "quantum":
                return obj.quantum
            if a in ("new_unit", "derive_unit_from", "register_converter", "units"):
                return CBound(obj, a)
        if isinstance(obj, CUnit):
            if a == "symbol":
                return obj.symbol
            if a == "name":
                return obj.name if obj.name is not None else obj.symbol
            if a == "qty_cls":
                return obj.ctype
        if isinstance(obj, Prefix):
            if a == "factor":
                return self._prefix_factor(obj, n)
            if a != "var" and a in obj.__dict__:
                return getattr(obj, a)
        if isinstance(obj, CQty):
            if a == "amount":
                return obj.amount
            if a == "unit":
                return obj.unit
        if isinstance(obj, (str, list, dict, tuple)):
            return CBound(obj, a)
        if isinstance(obj, CModule):
            if obj.name in ("os", "xml", "xml.etree") and a in ("path", "etree", "ElementTree"):
                return CModule(f"{obj.name}.{a}")
            return CBound(obj, a)
        if isinstance(obj, XElem):
            if a == "attrib":
                return dict(obj.el.attrib)
            if a == "text":
                return obj.el.text
            if a == "tag":
                return obj.el.tag
            if a == "tail":
                return obj.el.tail
            return CBound(obj, a)
        if isinstance(obj, XTree):
            return CBound(obj, a)
        self.err(f"attribute {a} of {obj!r}", n)

    def _e_ListComp(self, n, env):
        out = []
        self._comp2(n, env, lambda e: out.append(self._eval(n.elt, e)))
        return out

    _e_GeneratorExp = _e_ListComp
    _e_SetComp = _e_ListComp

    def _e_DictComp(self, n, env):
        out = {}

        def emit(e):
            out[self._key(self._eval(n.key, e))] = self._eval(n.value, e)
        self._comp2(n, env, emit)
        return out

    def _comp2(self, n, env, emit):
        def rec(i, e):
            if i == len(n.generators):
                emit(e)
                return
            g = n.generators[i]
            for x in self._iter(self._eval(g.iter, e), g.iter):
                e2 = _Scope(e)
                self._assign(g.target, x, e2)
                if all(self._truth(self._eval(c, e2)) for c in g.ifs):
                    rec(i + 1, e2)
        rec(0, env)

    def _match(self, pat, v, env, binds) -> bool:
        if isinstance(pat, ast.MatchValue):
            return self._eval(pat.value, env) == v
        if isinstance(pat, ast.MatchSingleton):
            return v is pat.value
        if isinstance(pat, ast.MatchAs):
            if pat.pattern is not None and not self._match(pat.pattern, v, env, binds):
                return False
            if pat.name is not None:
                binds[pat.name] = v
            return True
        if isinstance(pat, ast.MatchOr):
            return any(self._match(p, v, env, binds) for p in pat.patterns)
        if isinstance(pat, ast.MatchSequence):
            if not isinstance(v, (list, tuple)):
                return False
            seq = list(v)
            stars = [i for i, p in enumerate(pat.patterns) if isinstance(p, ast.MatchStar)]
            if not stars:
                return len(seq) == len(pat.patterns) and all(self._match(p, x, env, binds) for p, x in zip(pat.patterns, seq))
            i = stars[0]
            na = len(pat.patterns) - i - 1
            if len(seq) < len(pat.patterns) - 1:
                return False
            ok = all(self._match(p, x, env, binds) for p, x in zip(pat.patterns[:i], seq[:i])) and \
                all(self._match(p, x, env, binds) for p, x in zip(pat.patterns[i + 1:], seq[len(seq) - na:]))
            if ok and pat.patterns[i].name is not None:
                binds[pat.patterns[i].name] = list(seq[i:len(seq) - na])
            return ok
        if isinstance(pat, ast.MatchClass):
            cname = src_of(pat.cls).split(".")[-1]
            types = {"str": str, "int": int, "float": float, "list": list, "tuple": tuple, "dict": dict, "bool": bool}
            if cname not in types or not isinstance(v, types[cname]) or (cname == "int" and isinstance(v, bool)):
                return False
            if len(pat.patterns) == 1:
                return self._match(pat.patterns[0], v, env, binds)
            return not pat.patterns and not pat.kwd_patterns
        self.err("match pattern outside the catalogue language", pat)

    def _e_NamedExpr(self, n, env):
        v = self._eval(n.value, env)
        self._assign(n.target, v, env)
        return v

    def _e_Lambda(self, n, env):
        return CFunc(n, env, "<lambda>")

    def _e_Starred(self, n, env):
        self.err("starred expression", n)

    def _e_Call(self, n, env):
        fn = self._eval(n.func, env)
        args = self._elts(n.args, env)
        kwargs = {}
        for k in n.keywords:
            if k.arg is None:
                kwargs.update(self._eval(k.value, env))
            else:
                kwargs[k.arg] = self._eval(k.value, env)
        if isinstance(fn, CFunc):
            return self._call_func(fn, args, kwargs, n)
        if isinstance(fn, CBound):
            return self._call_bound(fn, args, kwargs, n)
        if isinstance(fn, CBuiltin):
            return self._call_builtin(fn.name, args, kwargs, n)
        self.err(f"call of {fn!r}", n)

    def _call_func(self, fn: CFunc, args, kwargs, node=None):
        a = fn.node.args
        params = [p.arg for p in a.posonlyargs + a.args]
        env = _Scope(fn.env)
        defaults = [None] * (len(params) - len(a.defaults)) + list(a.defaults)
        if len(args) > len(params) and a.vararg is None:
            self.err(f"too many arguments for {fn.name}", node)
        for p, v in zip(params, args):
            env[p] = v
        if a.vararg is not None:
            env[a.vararg.arg] = tuple(args[len(params):])
        for p, d in zip(params[len(args):], defaults[len(args):]):
            if p in kwargs:
                env[p] = kwargs.pop(p)
            elif d is not None:
                env[p] = self._eval(d, fn.env)
            else:
                self.err(f"missing argument {p} for {fn.name}", node)
        for p, d in zip(a.kwonlyargs, a.kw_defaults):
            if p.arg in kwargs:
                env[p.arg] = kwargs.pop(p.arg)
            elif d is not None:
                env[p.arg] = self._eval(d, fn.env)
            else:
                self.err(f"missing argument {p.arg} for {fn.name}", node)
        if kwargs:
            if a.kwarg is not None:
                env[a.kwarg.arg] = dict(kwargs)
            else:
                self.err(f"unexpected keyword arguments {sorted(kwargs)} for {fn.name}", node)
        if isinstance(fn.node, ast.Lambda):
            return self._eval(fn.node.body, env)
        if _has_own_yield(fn.node):
            # a generator function: module-level code is finite and deterministic, so what it yields is collected
            # eagerly (the consumer sees the same sequence of values)
            stack = self.__dict__.setdefault("_gen_stack", [])
            stack.append([])
            try:
                self._exec_block(fn.node.body, env)
            except _Return:
                pass
            finally:
                out = stack.pop()
            return out
        try:
            self._exec_block(fn.node.body, env)
        except _Return as r:
            return r.v
        return None

    def _e_Yield(self, n, env):
        stack = self.__dict__.get("_gen_stack")
        if not stack:
            self.err("yield outside a function", n)
        stack[-1].append(self._eval(n.value, env) if n.value is not None else None)
        return None

    def _e_YieldFrom(self, n, env):
        stack = self.__dict__.get("_gen_stack")
        if not stack:
            self.err("yield from outside a function", n)
        stack[-1].extend(self._iter(self._eval(n.value, env), n))
        return None

    def _call_bound(self, b: CBound, args, kwargs, node):
        obj, a = b.obj, b.attr
        if isinstance(obj, CType):
            if a == "new_unit":
                return self._new_unit(obj, args, kwargs, node)
            if a == "derive_unit_from":
                return self._derive(obj, args, kwargs, node)
            if a == "register_converter":
                if len(args) != 1 or not isinstance(args[0], CConverter):
                    self.err("register_converter with something else than a TableConverter", node)
                obj.converters.append(args[0].rows)
                return None
            if a == "units":
                return list(obj.units)
        if isinstance(obj, CModule):
            return self._call_module(obj.name, a, args, kwargs, node)
        if isinstance(obj, XTree) and a == "getroot":
            return XElem(obj.tree.getroot())
        if isinstance(obj, XElem):
            if a == "findall":
                return [XElem(c) for c in obj.el.findall(args[0])]
            if a == "find":
                c = obj.el.find(args[0])
                return None if c is None else XElem(c)
            if a == "findtext":
                return obj.el.findtext(args[0], args[1] if len(args) > 1 else None)
            if a == "get":
                return obj.el.get(args[0], args[1] if len(args) > 1 else None)
            if a == "iter":
                return [XElem(c) for c in obj.el.iter(*args)]
        if isinstance(obj, str) and a in ("isdigit", "isalpha", "isalnum", "isspace", "isnumeric", "isdecimal"):
            return getattr(obj, a)()
        if isinstance(obj, dict) and a == "setdefault":
            return obj.setdefault(self._key(args[0]), args[1] if len(args) > 1 else None)
        if isinstance(obj, dict) and a == "update":
            for src in args:
                obj.update(src if isinstance(src, dict) else {self._key(k): v for k, v in self._iter(src, node)})
            obj.update(kwargs)
            return None
        if isinstance(obj, str):
            if a in ("lower", "upper", "capitalize", "title", "strip", "lstrip", "rstrip", "replace", "split",
                     "startswith", "endswith", "join", "format", "zfill", "center", "ljust", "rjust", "rsplit",
                     "partition", "removeprefix", "removesuffix", "casefold", "swapcase", "isupper", "islower"):
                try:
                    if a == "join":
                        return obj.join(self._text(x) for x in self._iter(args[0], node))
                    if a == "format":
                        return obj.format(*[self._fmt_arg(x) for x in args],
                                          **{k: self._fmt_arg(v) for k, v in kwargs.items()})
                    r = getattr(obj, a)(*[self._key(x) for x in args])
                    return list(r) if a in ("split", "rsplit") else r
                except (TypeError, ValueError, IndexError, KeyError):
                    self.err(f"str.{a}", node)
        if isinstance(obj, list):
            if a == "append":
                obj.append(args[0])
                return None
            if a == "extend":
                obj.extend(self._iter(args[0], node))
                return None
            if a == "index":
                try:
                    return obj.index(args[0])
                except ValueError:
                    self.err("list.index", node)
        if isinstance(obj, dict):
            if a == "items":
                return [tuple(kv) for kv in obj.items()]
            if a == "keys":
                return list(obj.keys())
            if a == "values":
                return list(obj.values())
            if a == "get":
                return obj.get(self._key(args[0]), args[1] if len(args) > 1 else None)
        self.err(f"method {a} of {obj!r} outside the catalogue language", node)

    def _call_module(self, mod, a, args, kwargs, node):
        import posixpath
        if mod == "os.path":
            if a == "join" and all(isinstance(x, str) for x in args):
                return posixpath.join(*args)
            if a == "dirname" and isinstance(args[0], str):
                return posixpath.dirname(args[0])
            if a == "basename" and isinstance(args[0], str):
                return posixpath.basename(args[0])
            if a == "abspath" and isinstance(args[0], str):
                return args[0]
        if mod.endswith("ElementTree") and a == "parse" and isinstance(args[0], str):
            from xml.etree import ElementTree
            path = args[0]
            root = getattr(self, "data_root", None)
            if root is None or not posixpath.normpath(path).startswith(posixpath.normpath(root)):
                self.err(f"data file outside the repository: {path}", node)
            try:
                return XTree(ElementTree.parse(path))       # a data file, read by the checker's own parser
            except (OSError, ElementTree.ParseError) as e:
                raise AnalysisError(f"data file {path}: {e}")
        self.err(f"call of {mod}.{a} outside the catalogue language", node)

    def _call_builtin(self, name, args, kwargs, node):
        if name in ("Decimal", "Fraction"):
            if not args:
                return Fraction(0)
            if name == "Decimal" and len(args) == 2 and _is_num(args[0]):
                self.err("Decimal with a precision", node)
            if len(args) == 2 and name == "Fraction" and all(_is_num(a) for a in args):
                return _exact(args[0]) / _exact(args[1])
            a = args[0]
            if isinstance(a, str):
                try:
                    return Fraction(a.strip())
                except (ValueError, ZeroDivisionError):
                    self.err(f"{name}({a!r})", node)
            if _is_num(a):
                return _exact(a)
            self.err(f"{name} of {a!r}", node)
        if name == "Term":
            if len(args) != 1:
                self.err("Term literal expected", node)
            items = []
            for it in self._iter(args[0], node):
                it = list(self._iter(it, node)) if isinstance(it, (tuple, list)) else None
                if it is None or len(it) != 2 or not _is_num(it[1]) or _exact(it[1]).denominator != 1:
                    self.err("term item form", node)
                el = it[0]
                if not (isinstance(el, CUnit) or _is_num(el)):
                    self.err(f"term item is not a known unit: {el!r}", node)
                items.append((el, int(_exact(it[1]))))
            return CTerm(items)
        if name == "TableConverter":
            rows = []
            src = args[0] if args else kwargs.get("conv_table")
            if isinstance(src, dict):
                src = [tuple(k) + tuple(v) for k, v in src.items()]
            for r in self._iter(src, node):
                r = list(self._iter(r, node))
                rows.append([_exact(x) if _is_num(x) else x for x in r])
            return CConverter(rows)
        if name in ("suppress", "contextlib.suppress"):
            return ("suppress", [getattr(a, "name", str(a)) for a in args])
        if name == "len":
            if isinstance(args[0], XElem):
                return len(args[0].el)
            return len(args[0]) if isinstance(args[0], (str, list, tuple, dict)) else self.err("len", node)
        if name == "iter":
            return list(self._iter(args[0], node))
        if name == "range":
            return list(range(*[self._key(a) for a in args]))
        if name == "zip":
            return [tuple(t) for t in zip(*[self._iter(a, node) for a in args])]
        if name == "enumerate":
            start = self._key(args[1]) if len(args) > 1 else self._key(kwargs.get("start", 0))
            return [(i, x) for i, x in enumerate(self._iter(args[0], node), start)]
        if name == "str":
            return self._text(args[0]) if args else ""
        if name == "repr":
            return repr(self._fmt_arg(args[0]))
        if name == "int":
            a = args[0]
            if isinstance(a, str):
                try:
                    return int(a)
                except ValueError:
                    raise _PyRaise("ValueError", f"int({a!r})")
            if _is_num(a):
                return int(a)
        if name == "float":
            if _is_num(args[0]):
                return float(args[0])
        if name == "bool":
            return self._truth(args[0]) if args else False
        if name in ("tuple", "list", "set"):
            seq = self._iter(args[0], node) if args else []
            return tuple(seq) if name == "tuple" else list(seq)
        if name == "dict":
            d = dict(kwargs)
            if args:
                src = args[0]
                d.update(src if isinstance(src, dict) else {self._key(k): v for k, v in self._iter(src, node)})
            return d
        if name in ("sorted", "reversed"):
            seq = self._iter(args[0], node)
            if name == "reversed":
                return list(reversed(seq))
            key = kwargs.get("key")
            try:
                kf = (lambda x: self._call_func(key, [x], {}, node)) if isinstance(key, CFunc) else None
                return sorted(seq, key=kf, reverse=bool(kwargs.get("reverse")))
            except TypeError:
                self.err("sorted()", node)
        if name == "isinstance":
            return False
        if name in ("sum", "min", "max"):
            seq = self._iter(args[0], node) if len(args) == 1 else list(args)
            if all(_is_num(x) for x in seq) and (seq or name == "sum"):
                return {"sum": sum, "min": min, "max": max}[name](seq)
        if name == "abs" and _is_num(args[0]):
            return abs(args[0])
        if name in ("any", "all"):
            vals = [self._truth(x) for x in self._iter(args[0], node)]
            return any(vals) if name == "any" else all(vals)
        if name == "map" and isinstance(args[0], (CFunc, CBuiltin)) and len(args) >= 2:
            seqs = [self._iter(a, node) for a in args[1:]]
            out = []
            for t in zip(*seqs):
                out.append(self._call_func(args[0], list(t), {}, node) if isinstance(args[0], CFunc)
                           else self._call_builtin(args[0].name, list(t), {}, node))
            return out
        if name == "filter" and len(args) == 2:
            seq = self._iter(args[1], node)
            if args[0] is None:
                return [x for x in seq if self._truth(x)]
            if isinstance(args[0], CFunc):
                return [x for x in seq if self._truth(self._call_func(args[0], [x], {}, node))]
        if name == "type" and len(args) == 1:
            v = args[0]
            if isinstance(v, bool):
                return CBuiltin("bool")
            for py, nm in ((int, "int"), (float, "float"), (str, "str"), (tuple, "tuple"), (list, "list"), (dict, "dict")):
                if isinstance(v, py):
                    return CBuiltin(nm)
            if isinstance(v, Fraction):
                return CBuiltin("Decimal")      # exact non-int numbers of the catalogue are Decimals / Fractions
            if v is None:
                return CBuiltin("NoneType")
            if isinstance(v, CUnit):
                return CBuiltin("Unit")
            if isinstance(v, Prefix):
                return CBuiltin("SIPrefix")
            self.err(f"type of {v!r}", node)
        if name == "print":
            return None
        if name == "SIPrefix":
            init = None
            for s_ in (self.prefix_class.body if getattr(self, "prefix_class", None) is not None else ()):
                if isinstance(s_, ast.FunctionDef) and s_.name == "__init__":
                    init = s_
            pf = Prefix(None, None, None, None)
            if init is not None:
                # the class's own constructor decides what a prefix holds (name, abbr, exp, ...)
                self._call_func(CFunc(init, getattr(self, "prefix_env", {}), "SIPrefix.__init__"), [pf] + list(args), dict(kwargs), node)
            else:
                d = dict(zip(["name", "abbr", "exp"], list(args)))
                d.update(kwargs)
                pf.name, pf.abbr, pf.exp = d.get("name"), d.get("abbr"), d.get("exp")
            if isinstance(pf.exp, Fraction) and pf.exp.denominator == 1:
                pf.exp = int(pf.exp)
            return pf
        self.err(f"call of {name} outside the catalogue language", node)

    # ------------------------------------------------------------ the checker's semantics of declarations
    def _new_unit(self, t: CType, args, kwargs, node) -> CUnit:
        names = ["symbol", "name", "define_as"]
        d = dict(zip(names, args))
        for k, v in kwargs.items():
            if k not in names or k in d:
                self.err(f"new_unit argument {k}", node)
            d[k] = v
        sym, name, df = d.get("symbol"), d.get("name"), d.get("define_as")
        if not isinstance(sym, str):
            self.err("new_unit symbol is not text", node)
        if name is not None and not isinstance(name, str):
            self.err("new_unit name is not text", node)
        lineno = getattr(self.cur, "lineno", getattr(node, "lineno", 0))
        if isinstance(df, CUnit):
            df = CQty(Fraction(1), df)
        if df is None:
            u = CUnit(t, sym, name, None, "base", lineno)
        elif isinstance(df, CTerm):
            scale = Fraction(1)
            dims: Dict[str, int] = {}
            for el, e in df.items:
                if _is_num(el):
                    scale *= _exact(el) ** e
                    continue
                if el.scale is None:
                    self.err("term over a unit without scale", node)
                scale *= el.scale ** e
                for k, v in el.ctype.dims().items():
                    dims[k] = dims.get(k, 0) + v * e
            dims = {k: v for k, v in dims.items() if v}
            u = CUnit(t, sym, name, scale, "term", lineno,
                      definition_text=term_symbol([(el.symbol if isinstance(el, CUnit) else str(el), e)
                                                   for el, e in df.items]))
            u.def_dims = dims
        elif isinstance(df, CQty):
            f, base = df.amount, df.unit
            if base.scale is None:
                self.err("scaled definition over a unit without scale", node)
            u = CUnit(t, sym, name, f * base.scale, "scaled", lineno, definition_text=f"{f}·{base.symbol}")
            u.def_dims = base.ctype.dims()
            u.def_type = base.ctype
            u.factor = f
            u.base = base
        else:
            self.err(f"definition is not <number> * <unit> or a Term: {df!r}", node)
        t.units.append(u)
        self.units.append(u)
        return u

    def _derive(self, t: CType, args, kwargs, node) -> CUnit:
        if not t.definition:
            self.err("derive_unit_from on a base type", node)
        us = []
        for a in args:
            if not isinstance(a, CUnit):
                self.err(f"derive_unit_from argument is not a unit: {a!r}", node)
            us.append(a)
        if len(us) != len(t.definition):
            self.err(f"{len(us)} units for {len(t.definition)} base types", node)
        scale = Fraction(1)
        mism = []
        for (bt, e), u in zip(t.definition, us):
            if u.ctype is not bt:
                mism.append((bt.name, u.symbol))
            if u.scale is None:
                self.err("derived from a unit without scale", node)
            scale *= u.scale ** e
        sym = kwargs.get("symbol") or term_symbol([(u.symbol, e) for (bt, e), u in zip(t.definition, us)])
        name = kwargs.get("name")
        lineno = getattr(self.cur, "lineno", getattr(node, "lineno", 0))
        u = CUnit(t, sym, name, scale, "derived", lineno,
                  definition_text=term_symbol([(u.symbol, e) for (bt, e), u in zip(t.definition, us)]))
        u.mismatch = mism
        u.def_dims = t.dims()
        t.units.append(u)
        self.units.append(u)
        return u


class ModuleFold(Catalogue):
    """Folds the module-level code of a data-loading module (money/currencies.py) over concrete values; its
    functions can then be applied to concrete arguments."""

    def __init__(self, prog: Program, modname: str):
        from .loader import repo_root
        self.prog = prog
        self.prefixes, self.types, self.units = {}, {}, []
        self.statements = 0
        self.doc = ""
        self.bind_imports = True
        self.data_root = repo_root()
        m = prog.modules.get(modname)
        if m is None:
            raise AnalysisError(f"module {modname} missing")
        self.module = m
        self.file = m.rel()
        self.env = {"__file__": m.path, "__name__": modname}
        self.cur = None
        for st in m.tree.body:
            self.statements += 1
            self.cur = st
            if isinstance(st, ast.ClassDef):
                self.err(f"class statement in a data module: {st.name}", st)
            try:
                self._exec(st, self.env, top=True)
            except _PyRaise as ex:
                self.err(f"the statement raises {ex.name}: {ex.msg}", st)

    def apply(self, fname: str, *args):
        """-> ("return", value) | ("raise", exception name)"""
        fn = self.env.get(fname)
        if not isinstance(fn, CFunc):
            raise AnalysisError(f"anchor vanished: function {fname} of {self.file}")
        try:
            return "return", self._call_func(fn, list(args), {})
        except _PyRaise as ex:
            return "raise", ex.name


class CDefinition:
    """The definition of a unit / class as the documentation generator sees it: only its text form matters."""

    def __init__(self, text):
        self.text = text

    def __repr__(self):
        return f"<definition {self.text}>"


class DocScript(Catalogue):
    """Evaluates the documentation generator (utils/make_predef_units_doc.py) over an evaluated catalogue and
    captures what it prints."""

    def __init__(self, cat: Catalogue, module):
        self.__dict__.update(cat.__dict__)
        self.cat = cat
        self.file = module.rel() if hasattr(module, "rel") else "utils/make_predef_units_doc.py"
        self.bind_imports = True
        self.printed: List[str] = []
        self.unit_lines: List[tuple] = []       # (printing function, argument values) of every call
        self.type_index = {id(t): i for i, t in enumerate(cat.types.values())}
        env: Dict[str, object] = {}
        self.script_env = env
        for st in module.tree.body:
            self.cur = st
            if isinstance(st, ast.ImportFrom) and any(a.name == "*" for a in st.names):
                # star import of the catalogue: its public names
                for k, v in cat.env.items():
                    if not k.startswith("_"):
                        env.setdefault(k, v)
                continue
            if isinstance(st, (ast.Import, ast.ImportFrom)):
                for a in st.names:
                    nm = a.asname or a.name.split(".")[0]
                    env[nm] = CBuiltin(nm)
                continue
            self._exec(st, env, top=True)

    def _attr(self, obj, a, n):
        if isinstance(obj, CType):
            if a in ("ref_unit", "_ref_unit"):
                return obj.ref_unit
            if a in ("norm_sort_key", "is_derived_cls", "is_base_cls"):
                return CBound(obj, a)
            if a in ("definition", "_definition"):
                return CDefinition(self._cls_text(obj))
            if a == "_reg_id":
                return self.type_index[id(obj)]
        if isinstance(obj, CUnit):
            if a == "_equiv":
                ref = obj.ctype.ref_unit
                if ref is None or obj.scale is None or ref.scale is None:
                    return None
                return obj.scale / ref.scale
            if a in ("definition", "_definition", "normalized_definition"):
                return CDefinition(f"definition of {obj.symbol}" if obj is not obj.ctype.ref_unit or obj.ctype.definition
                                   else obj.symbol)
            if a in ("is_ref_unit", "is_base_unit", "is_derived_unit"):
                return CBound(obj, a)
        if isinstance(obj, CDefinition):
            if a == "normalized":
                return CBound(obj, a)
        if isinstance(obj, CBuiltin) and a in ("__name__", "__qualname__"):
            return obj.name
        if isinstance(obj, CFunc) and a in ("__name__", "__qualname__"):
            return obj.name
        if _is_num(obj) and not isinstance(obj, (bool, float)):
            q = Fraction(obj)
            if a == "numerator":
                return q.numerator
            if a == "denominator":
                return q.denominator
            if a in ("precision", "magnitude"):
                digits = _decimal_digits(q)
                if digits is None:
                    raise _PyRaise("AttributeError", f"a fraction has no {a}")
                if a == "precision":
                    return digits
                if q == 0:
                    raise _PyRaise("OverflowError", "magnitude of zero")
                import math
                m = math.floor(math.log10(abs(q))) if abs(q) >= 1 else -len(str(abs(q).denominator)) + 1
                while Fraction(10) ** m > abs(q):
                    m -= 1
                while Fraction(10) ** (m + 1) <= abs(q):
                    m += 1
                return m
            if a in ("adjusted", "quantize", "as_integer_ratio"):
                return CBound(obj, a)
        return super()._attr(obj, a, n)

    def _cls_text(self, t: CType) -> str:
        d = t.definition
        if not d:
            return t.name
        items = getattr(d, "items", d)
        try:
            return ".".join(f"{x.name}" + (f"^{e}" if e != 1 else "") for x, e in items)
        except Exception:
            return f"definition of {t.name}"

    def _call_bound(self, b: CBound, args, kwargs, node):
        obj, a = b.obj, b.attr
        if isinstance(obj, CType):
            if a == "norm_sort_key":
                return self.type_index[id(obj)]
            if a == "is_derived_cls":
                return bool(obj.definition)
            if a == "is_base_cls":
                return not obj.definition
        if isinstance(obj, CUnit):
            if a == "is_ref_unit":
                return obj is obj.ctype.ref_unit
            if a == "is_base_unit":
                return obj.how == "base"
            if a == "is_derived_unit":
                return obj.how != "base"
        if isinstance(obj, CDefinition) and a == "normalized":
            return obj
        if _is_num(obj) and not isinstance(obj, (bool, float)):
            q = Fraction(obj)
            if a == "adjusted" and len(args) <= 1:
                # decimal rounded to the given number of fractional digits (dependency default: half to even)
                nd = int(args[0]) if args else 0
                return Fraction(round(q * 10 ** nd), 10 ** nd)
            if a == "as_integer_ratio":
                return (q.numerator, q.denominator)
        return super()._call_bound(b, args, kwargs, node)

    def _fmt_arg(self, v):
        if isinstance(v, CDefinition):
            return v.text
        return super()._fmt_arg(v)

    def _truth(self, v) -> bool:
        if isinstance(v, CDefinition):
            return True
        return super()._truth(v)

    def _e_Compare(self, n, env):
        # definitions compare by their text
        if any(isinstance(op, (ast.Eq, ast.NotEq)) for op in n.ops):
            vals = [self._eval(n.left, env)] + [self._eval(c, env) for c in n.comparators]
            if any(isinstance(v, CDefinition) for v in vals) and len(vals) == 2:
                t = [v.text if isinstance(v, CDefinition) else v for v in vals]
                return (t[0] == t[1]) if isinstance(n.ops[0], ast.Eq) else (t[0] != t[1])
        return super()._e_Compare(n, env)

    def _call_func(self, fn: CFunc, args, kwargs, node=None):
        self.unit_lines.append((fn.name, list(args)))
        return super()._call_func(fn, args, kwargs, node)

    def _call_builtin(self, name, args, kwargs, node):
        if name == "print":
            sep = kwargs.get("sep", " ")
            end = kwargs.get("end", "\n")
            self.printed.append((sep if isinstance(sep, str) else " ").join(self._text(a) for a in args)
                                + (end if isinstance(end, str) else "\n"))
            return None
        if name == "locals":
            return dict(self.script_env)
        if name == "format":
            v = self._fmt_arg(args[0])
            spec = args[1] if len(args) > 1 else ""
            if isinstance(v, Fraction):
                v = str(v)
            try:
                return format(v, spec)
            except (TypeError, ValueError):
                self.err(f"format({v!r}, {spec!r})", node)
        if name == "isinstance" and len(args) == 2:
            return self._isinstance(args[0], args[1])
        if name == "issubclass" and len(args) == 2:
            a, b = args
            if isinstance(b, CBuiltin) and b.name == "Quantity":
                return isinstance(a, CType) or (isinstance(a, CBuiltin) and a.name == "Quantity")
            if isinstance(b, CType):
                return a is b
            return False
        if name == "str" and args and isinstance(args[0], CDefinition):
            return args[0].text
        if name == "sorted":
            seq = self._iter(args[0], node)
            key = kwargs.get("key")
            kf = (lambda x: self._call_func(key, [x], {}, node)) if isinstance(key, CFunc) else (lambda x: x)
            keyed = [(kf(x), x) for x in seq]
            try:
                keyed.sort(key=lambda kx: kx[0], reverse=bool(kwargs.get("reverse")))
            except TypeError:
                self.err("sorted(): keys that do not compare", node)
            return [x for _k, x in keyed]
        return super()._call_builtin(name, args, kwargs, node)

    def _isinstance(self, v, spec) -> bool:
        if isinstance(spec, tuple):
            return any(self._isinstance(v, s_) for s_ in spec)
        nm = spec.name if isinstance(spec, (CBuiltin, CType)) else None
        if nm == "type":
            return isinstance(v, CType) or (isinstance(v, CBuiltin) and v.name in ("Quantity", "Unit", "QuantityMeta", "Decimal",
                                                                                     "Fraction", "Term", "TableConverter"))
        if nm in ("QuantityMeta",):
            return isinstance(v, CType) or (isinstance(v, CBuiltin) and v.name == "Quantity")
        if nm == "Unit":
            return isinstance(v, CUnit)
        if nm == "Quantity":
            return isinstance(v, CQty)
        if nm == "str":
            return isinstance(v, str)
        if nm in ("Rational", "Real", "Number"):
            return isinstance(v, (int, Fraction)) and not isinstance(v, bool)
        if nm in ("Decimal", "Fraction"):
            # exact non-integers of the catalogue: a terminating decimal expansion stands for a Decimal
            if not isinstance(v, Fraction) or isinstance(v, bool):
                return False
            return (_decimal_digits(v) is not None) == (nm == "Decimal")
        if nm == "int":
            return isinstance(v, int)
        if isinstance(spec, CType):
            return isinstance(v, CQty) and v.unit.ctype is spec
        return False

    def text(self) -> str:
        return "".join(self.printed)


class _Scope(dict):
    """A local scope chained to its enclosing one."""

    def __init__(self, parent):
        super().__init__()
        self["__parent__"] = parent


# ---------------------------------------------------------------- documentation tables
def parse_doc_tables(doc: str):
    """-> {type name: {'rows': [(symbol, name, definition, equivalent)], 'ref': text, 'definition': text}},
    plus temperature equivalents and formula table (raw)."""
    sections: Dict[str, dict] = {}
    lines = doc.splitlines()
    i = 0
    cur = None
    while i < len(lines):
        ln = lines[i]
        if i + 1 < len(lines) and lines[i + 1].startswith("^^^") and ln.strip():
            cur = ln.strip()
            sections[cur] = {"rows": [], "ref": None, "definition": None, "tables": []}
            i += 2
            continue
        if cur is not None:
            if ln.startswith("Reference unit:"):
                sections[cur]["ref"] = ln
            elif ln.startswith("Definition:"):
                sections[cur]["definition"] = ln.split(":", 1)[1].strip()
            elif ln.startswith("====") or ln.startswith("=========="):
                # table: marker, header, marker, rows..., marker
                widths = [len(x) for x in ln.split(" ")]
                starts = []
                pos = 0
                for w in widths:
                    starts.append((pos, pos + w))
                    pos += w + 1
                header = lines[i + 1]
                j = i + 3
                rows = []
                while j < len(lines) and not lines[j].startswith("==="):
                    cells = []
                    for k, (a, b) in enumerate(starts):
                        cells.append(lines[j][a:(b if k < len(starts) - 1 else None)].strip())
                    rows.append(cells)
                    j += 1
                hdr = [header[a:(b if k < len(starts) - 1 else None)].strip() for k, (a, b) in enumerate(starts)]
                sections[cur]["tables"].append({"header": hdr, "rows": rows})
                i = j + 1
                continue
        i += 1
    return sections


def parse_decimal_or_fraction(txt: str) -> Optional[Fraction]:
    txt = txt.strip()
    try:
        return Fraction(txt)
    except (ValueError, ZeroDivisionError):
        return None
