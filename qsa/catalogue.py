"""Engine D: constant-propagating evaluator of the declarative catalogue
(predefined.py, si_prefixes.py) with the *checker's own* semantics of what a
declaration denotes.  Exact Fraction arithmetic; unknown statement forms are an
AnalysisError naming the statement.  Nothing is imported from /repo."""
from __future__ import annotations

import ast
import re
from fractions import Fraction
from typing import Dict, List, Optional, Tuple

from .loader import AnalysisError, Program, src_of

SUP = {2: "²", 3: "³", 4: "⁴", 5: "⁵", 6: "⁶", 7: "⁷", 8: "⁸", 9: "⁹"}


class CType:
    def __init__(self, name, definition, ref_symbol, ref_name, quantum, lineno):
        self.name = name
        self.definition: Optional[List[Tuple["CType", int]]] = definition
        self.ref_symbol = ref_symbol
        self.ref_name = ref_name
        self.quantum = quantum
        self.lineno = lineno
        self.units: List["CUnit"] = []
        self.ref_unit: Optional["CUnit"] = None
        self.converters = []

    def dims(self) -> Dict[str, int]:
        if not self.definition:
            return {self.name: 1}
        out: Dict[str, int] = {}
        for t, e in self.definition:
            for k, v in t.dims().items():
                out[k] = out.get(k, 0) + v * e
        return {k: v for k, v in out.items() if v}


class CUnit:
    def __init__(self, ctype: CType, symbol, name, scale: Optional[Fraction], how, lineno, var=None,
                 definition_text=""):
        self.ctype = ctype
        self.symbol = symbol
        self.name = name
        self.scale = scale          # absolute, in products of the base types' reference units
        self.how = how              # ref | scaled | term | derived | base
        self.lineno = lineno
        self.var = var
        self.definition_text = definition_text

    def __repr__(self):
        return f"<CUnit {self.symbol} {self.scale}>"


class Prefix:
    def __init__(self, var, name, abbr, exp):
        self.var, self.name, self.abbr, self.exp = var, name, abbr, exp


def term_symbol(items: List[Tuple[str, int]]) -> str:
    """Symbol of a product of unit symbols, in the documentation's convention."""
    pos, neg = [], []
    for sym, e in items:
        parts = sym.split("/")
        for i, s in enumerate(parts):
            ee = e if i == 0 else -e
            txt = s + SUP.get(abs(ee), "")
            (pos if ee > 0 else neg).append(txt)
    p = "·".join(pos) if pos else "1"
    return p + ("/" + "·".join(neg) if neg else "")


class Catalogue:
    def __init__(self, prog: Program):
        self.prog = prog
        self.prefixes: Dict[str, Prefix] = {}
        self.types: Dict[str, CType] = {}
        self.env: Dict[str, object] = {}
        self.units: List[CUnit] = []
        self.temp_rows: List[tuple] = []
        self.statements = 0
        self.doc = ""
        self._eval_prefixes()
        self._eval_predefined()

    # ------------------------------------------------------------ prefixes
    def _eval_prefixes(self):
        m = self.prog.modules.get("quantity.si_prefixes")
        if m is None:
            raise AnalysisError("module si_prefixes missing")
        for st in m.tree.body:
            if isinstance(st, ast.Assign) and len(st.targets) == 1 and isinstance(st.targets[0], ast.Name) \
                    and isinstance(st.value, ast.Call) and src_of(st.value.func) == "SIPrefix":
                args = [self._const(a, st) for a in st.value.args]
                kw = {k.arg: self._const(k.value, st) for k in st.value.keywords}
                name = args[0] if len(args) > 0 else kw.get("name")
                abbr = args[1] if len(args) > 1 else kw.get("abbr")
                exp = args[2] if len(args) > 2 else kw.get("exp")
                if not isinstance(exp, Fraction) or exp.denominator != 1:
                    raise AnalysisError(f"si_prefixes.py:{st.lineno}: exponent is not an integer literal")
                self.prefixes[st.targets[0].id] = Prefix(st.targets[0].id, name, abbr, int(exp))

    def _const(self, n, st):
        if isinstance(n, ast.Constant):
            if isinstance(n.value, bool):
                return n.value
            if isinstance(n.value, int):
                return Fraction(n.value)
            return n.value
        if isinstance(n, ast.UnaryOp) and isinstance(n.op, ast.USub):
            v = self._const(n.operand, st)
            if isinstance(v, Fraction):
                return -v
        raise AnalysisError(f"{getattr(st, 'lineno', '?')}: not a literal: {src_of(n)}")

    # ------------------------------------------------------------ predefined
    def _eval_predefined(self):
        m = self.prog.modules["quantity.predefined"]
        self.module = m
        self.doc = ast.get_docstring(m.tree, clean=False) or ""
        for name, (mod, nm) in m.imports.items():
            if mod == "quantity.si_prefixes":
                if nm not in self.prefixes:
                    raise AnalysisError(f"predefined.py imports unknown prefix {nm}")
                self.env[name] = self.prefixes[nm]
        for st in m.tree.body:
            self._stmt(st)

    def _stmt(self, st):
        self.statements += 1
        if isinstance(st, (ast.Import, ast.ImportFrom)):
            return
        if isinstance(st, ast.Expr) and isinstance(st.value, ast.Constant):
            return
        if isinstance(st, ast.ClassDef):
            return self._class(st)
        if isinstance(st, ast.Assert):
            return
        if isinstance(st, ast.Assign) and len(st.targets) == 1 and isinstance(st.targets[0], ast.Name):
            tgt = st.targets[0].id
            if tgt == "__all__":
                return
            v = self._value(st.value, st, tgt)
            self.env[tgt] = v
            if isinstance(v, CUnit) and v.var is None:
                v.var = tgt
            return
        if isinstance(st, ast.Expr) and isinstance(st.value, ast.Call):
            f = st.value.func
            if isinstance(f, ast.Attribute) and f.attr == "register_converter":
                t = self.env.get(src_of(f.value))
                if not isinstance(t, CType):
                    raise AnalysisError(f"predefined.py:{st.lineno}: register_converter on unknown type")
                arg = st.value.args[0]
                if isinstance(arg, ast.Call) and src_of(arg.func) == "TableConverter":
                    tbl = self._value(arg.args[0], st, None)
                    t.converters.append(tbl)
                    return
        raise AnalysisError(f"predefined.py:{st.lineno}: statement form outside the catalogue language: "
                            f"{src_of(st)[:100]}")

    def _class(self, st: ast.ClassDef):
        bases = [src_of(b) for b in st.bases]
        if "Quantity" not in bases:
            raise AnalysisError(f"predefined.py:{st.lineno}: class {st.name} is not a Quantity subclass")
        kw = {k.arg: k.value for k in st.keywords}
        definition = None
        if "define_as" in kw:
            definition = self._clsdef(kw["define_as"], st)
        ref_symbol = self._const(kw["ref_unit_symbol"], st) if "ref_unit_symbol" in kw else None
        ref_name = self._const(kw["ref_unit_name"], st) if "ref_unit_name" in kw else None
        quantum = self._number(kw["quantum"], st) if "quantum" in kw else None
        unknown = set(kw) - {"define_as", "ref_unit_symbol", "ref_unit_name", "quantum", "metaclass"}
        if unknown:
            raise AnalysisError(f"predefined.py:{st.lineno}: unknown class keywords {unknown}")
        t = CType(st.name, definition, ref_symbol, ref_name, quantum, st.lineno)
        if definition is not None and all(tt.ref_unit is not None for tt, _ in definition):
            if not ref_symbol:
                ref_symbol = term_symbol([(tt.ref_unit.symbol, e) for tt, e in definition])
                t.ref_symbol = ref_symbol
        if ref_symbol:
            scale = Fraction(1)
            if definition is not None:
                # the checker's semantics: reference unit of a derived type = product of the base types' reference units
                for tt, e in definition:
                    if tt.ref_unit is None:
                        raise AnalysisError(f"predefined.py:{st.lineno}: derived type with reference unit over a "
                                            f"type without one")
                    scale *= tt.ref_unit.scale ** e
            u = CUnit(t, ref_symbol, ref_name, scale, "ref", st.lineno)
            t.ref_unit = u
            t.units.append(u)
            self.units.append(u)
        self.types[st.name] = t
        self.env[st.name] = t

    def _clsdef(self, n, st) -> List[Tuple[CType, int]]:
        """Class algebra: T, T ** k, a * b, a / b -> ordered list of (type, exponent)."""
        if isinstance(n, ast.Name):
            t = self.env.get(n.id)
            if not isinstance(t, CType):
                raise AnalysisError(f"predefined.py:{st.lineno}: unknown type {n.id} in define_as")
            return [(t, 1)]
        if isinstance(n, ast.BinOp):
            if isinstance(n.op, ast.Pow):
                base = self._clsdef(n.left, st)
                k = self._number(n.right, st)
                if k.denominator != 1:
                    raise AnalysisError(f"predefined.py:{st.lineno}: non-integer exponent")
                return [(t, e * int(k)) for t, e in base]
            if isinstance(n.op, ast.Mult):
                return self._merge(self._clsdef(n.left, st) + self._clsdef(n.right, st))
            if isinstance(n.op, ast.Div):
                return self._merge(self._clsdef(n.left, st) + [(t, -e) for t, e in self._clsdef(n.right, st)])
        raise AnalysisError(f"predefined.py:{st.lineno}: define_as form outside the class algebra: {src_of(n)}")

    @staticmethod
    def _merge(items):
        out: List[Tuple[CType, int]] = []
        for t, e in items:
            for i, (t2, e2) in enumerate(out):
                if t2 is t:
                    out[i] = (t, e + e2)
                    break
            else:
                out.append((t, e))
        return [(t, e) for t, e in out if e]

    def _number(self, n, st) -> Fraction:
        if isinstance(n, ast.Constant) and isinstance(n.value, int) and not isinstance(n.value, bool):
            return Fraction(n.value)
        if isinstance(n, ast.UnaryOp) and isinstance(n.op, ast.USub):
            return -self._number(n.operand, st)
        if isinstance(n, ast.Call):
            f = src_of(n.func)
            if f == "Decimal" and len(n.args) == 1:
                a = n.args[0]
                if isinstance(a, ast.Constant) and isinstance(a.value, str):
                    return Fraction(a.value)
                return self._number(a, st)
            if f == "Fraction":
                if len(n.args) == 2:
                    return self._number(n.args[0], st) / self._number(n.args[1], st)
                if len(n.args) == 1:
                    a = n.args[0]
                    if isinstance(a, ast.Constant) and isinstance(a.value, str):
                        return Fraction(a.value)
                    return self._number(a, st)
        if isinstance(n, ast.BinOp):
            l, r = self._number(n.left, st), self._number(n.right, st)
            if isinstance(n.op, ast.Mult):
                return l * r
            if isinstance(n.op, ast.Div):
                return l / r
            if isinstance(n.op, ast.Add):
                return l + r
            if isinstance(n.op, ast.Sub):
                return l - r
            if isinstance(n.op, ast.Pow):
                if r.denominator != 1:
                    raise AnalysisError(f"predefined.py:{st.lineno}: non-integer power")
                return l ** int(r)
        if isinstance(n, ast.Name):
            v = self.env.get(n.id)
            if isinstance(v, Fraction):
                return v
            if isinstance(v, Prefix):
                return Fraction(10) ** v.exp
        raise AnalysisError(f"predefined.py:{getattr(st, 'lineno', '?')}: not a numeric constant: {src_of(n)}")

    def _scaled(self, n, st) -> Tuple[Fraction, CUnit]:
        """<number | prefix> * UNIT  ->  (factor, unit)"""
        if isinstance(n, ast.BinOp) and isinstance(n.op, ast.Mult):
            for a, b in ((n.left, n.right), (n.right, n.left)):
                u = self._unit_ref(b)
                if u is not None:
                    if isinstance(a, ast.Name) and isinstance(self.env.get(a.id), Prefix):
                        return Fraction(10) ** self.env[a.id].exp, u
                    return self._number(a, st), u
            # (number * number) * UNIT parsed left-assoc: number ** k * UNIT is BinOp(BinOp(pow), *, UNIT): handled above
        raise AnalysisError(f"predefined.py:{st.lineno}: definition is not <number> * <unit>: {src_of(n)}")

    def _unit_ref(self, n) -> Optional[CUnit]:
        if isinstance(n, ast.Name) and isinstance(self.env.get(n.id), CUnit):
            return self.env[n.id]
        return None

    def _value(self, n, st, tgt):
        # X = T.ref_unit
        if isinstance(n, ast.Attribute) and n.attr == "ref_unit":
            t = self.env.get(src_of(n.value))
            if isinstance(t, CType):
                if t.ref_unit is None:
                    raise AnalysisError(f"predefined.py:{st.lineno}: {t.name} has no reference unit")
                return t.ref_unit
        if isinstance(n, ast.Name) and n.id in self.env:
            return self.env[n.id]
        if isinstance(n, ast.Call) and isinstance(n.func, ast.Attribute):
            t = self.env.get(src_of(n.func.value))
            if isinstance(t, CType) and n.func.attr == "new_unit":
                return self._new_unit(t, n, st)
            if isinstance(t, CType) and n.func.attr == "derive_unit_from":
                return self._derive(t, n, st)
        if isinstance(n, (ast.List, ast.Tuple)):
            return [self._value(e, st, None) for e in n.elts]
        try:
            return self._number(n, st)
        except AnalysisError:
            pass
        raise AnalysisError(f"predefined.py:{st.lineno}: value form outside the catalogue language: {src_of(n)[:100]}")

    def _new_unit(self, t: CType, n: ast.Call, st) -> CUnit:
        args = list(n.args)
        kw = {k.arg: k.value for k in n.keywords}
        sym = self._const(args[0] if args else kw["symbol"], st)
        name = self._const(args[1], st) if len(args) > 1 else (self._const(kw["name"], st) if "name" in kw else None)
        d = args[2] if len(args) > 2 else kw.get("define_as")
        if d is None:
            u = CUnit(t, sym, name, None, "base", st.lineno)
        elif isinstance(d, ast.Call) and src_of(d.func) == "Term":
            items = self._term_items(d, st)
            scale = Fraction(1)
            dims: Dict[str, int] = {}
            for uu, e in items:
                if uu.scale is None:
                    raise AnalysisError(f"predefined.py:{st.lineno}: term over a unit without scale")
                scale *= uu.scale ** e
                for k, v in uu.ctype.dims().items():
                    dims[k] = dims.get(k, 0) + v * e
            dims = {k: v for k, v in dims.items() if v}
            u = CUnit(t, sym, name, scale, "term", st.lineno,
                      definition_text=term_symbol([(uu.symbol, e) for uu, e in items]))
            u.def_dims = dims
        else:
            f, base = self._scaled(d, st)
            if base.scale is None:
                raise AnalysisError(f"predefined.py:{st.lineno}: scaled definition over a unit without scale")
            u = CUnit(t, sym, name, f * base.scale, "scaled", st.lineno, definition_text=f"{f}·{base.symbol}")
            u.def_dims = base.ctype.dims()
            u.def_type = base.ctype
            u.factor = f
            u.base = base
        t.units.append(u)
        self.units.append(u)
        return u

    def _term_items(self, d: ast.Call, st) -> List[Tuple[CUnit, int]]:
        if len(d.args) != 1 or not isinstance(d.args[0], (ast.Tuple, ast.List)):
            raise AnalysisError(f"predefined.py:{st.lineno}: Term literal expected")
        out = []
        for it in d.args[0].elts:
            if not isinstance(it, ast.Tuple) or len(it.elts) != 2:
                raise AnalysisError(f"predefined.py:{st.lineno}: term item form")
            u = self._unit_ref(it.elts[0])
            if u is None:
                raise AnalysisError(f"predefined.py:{st.lineno}: term item is not a known unit: {src_of(it.elts[0])}")
            e = self._number(it.elts[1], st)
            out.append((u, int(e)))
        return out

    def _derive(self, t: CType, n: ast.Call, st) -> CUnit:
        if not t.definition:
            raise AnalysisError(f"predefined.py:{st.lineno}: derive_unit_from on a base type")
        kw = {k.arg: k.value for k in n.keywords}
        us = []
        for a in n.args:
            u = self._unit_ref(a)
            if u is None:
                raise AnalysisError(f"predefined.py:{st.lineno}: derive_unit_from argument is not a unit: {src_of(a)}")
            us.append(u)
        if len(us) != len(t.definition):
            raise AnalysisError(f"predefined.py:{st.lineno}: {len(us)} units for {len(t.definition)} base types")
        scale = Fraction(1)
        mism = []
        for (bt, e), u in zip(t.definition, us):
            if u.ctype is not bt:
                mism.append((bt.name, u.symbol))
            if u.scale is None:
                raise AnalysisError(f"predefined.py:{st.lineno}: derived from a unit without scale")
            scale *= u.scale ** e
        sym = self._const(kw["symbol"], st) if "symbol" in kw else \
            term_symbol([(u.symbol, e) for (bt, e), u in zip(t.definition, us)])
        name = self._const(kw["name"], st) if "name" in kw else None
        u = CUnit(t, sym, name, scale, "derived", st.lineno,
                  definition_text=term_symbol([(u.symbol, e) for (bt, e), u in zip(t.definition, us)]))
        u.mismatch = mism
        u.def_dims = t.dims()
        t.units.append(u)
        self.units.append(u)
        return u


# ---------------------------------------------------------------- documentation tables
def parse_doc_tables(doc: str):
    """-> {type name: {'rows': [(symbol, name, definition, equivalent)], 'ref': text, 'definition': text}},
    plus temperature equivalents and formula table (raw)."""
    sections: Dict[str, dict] = {}
    lines = doc.splitlines()
    i = 0
    cur = None
    while i < len(lines):
        ln = lines[i]
        if i + 1 < len(lines) and lines[i + 1].startswith("^^^") and ln.strip():
            cur = ln.strip()
            sections[cur] = {"rows": [], "ref": None, "definition": None, "tables": []}
            i += 2
            continue
        if cur is not None:
            if ln.startswith("Reference unit:"):
                sections[cur]["ref"] = ln
            elif ln.startswith("Definition:"):
                sections[cur]["definition"] = ln.split(":", 1)[1].strip()
            elif ln.startswith("====") or ln.startswith("=========="):
                # table: marker, header, marker, rows..., marker
                widths = [len(x) for x in ln.split(" ")]
                starts = []
                pos = 0
                for w in widths:
                    starts.append((pos, pos + w))
                    pos += w + 1
                header = lines[i + 1]
                j = i + 3
                rows = []
                while j < len(lines) and not lines[j].startswith("==="):
                    cells = []
                    for k, (a, b) in enumerate(starts):
                        cells.append(lines[j][a:(b if k < len(starts) - 1 else None)].strip())
                    rows.append(cells)
                    j += 1
                hdr = [header[a:(b if k < len(starts) - 1 else None)].strip() for k, (a, b) in enumerate(starts)]
                sections[cur]["tables"].append({"header": hdr, "rows": rows})
                i = j + 1
                continue
        i += 1
    return sections


def parse_decimal_or_fraction(txt: str) -> Optional[Fraction]:
    txt = txt.strip()
    try:
        return Fraction(txt)
    except (ValueError, ZeroDivisionError):
        return None
