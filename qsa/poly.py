"""Exact rational functions over symbolic atoms (Engine A's numeric domain).

A value is num/den with num, den polynomials with Fraction coefficients over
*atoms* (hashable tuples).  Exponents of atoms are linear forms c0 + c1*n in one
symbolic integer exponent ``n`` (stored as the pair (c0, c1)), which is enough
for ``x ** exp`` with an unknown integer ``exp``.

Equality is decided by cross-multiplication (the polynomial ring over Q is an
integral domain), so no GCD is needed.  Whenever the denominator is a single
monomial the value is stored in Laurent form (den == 1), which makes the
representation canonical for every value the analysed code produces.
"""
from __future__ import annotations

from fractions import Fraction
from typing import Dict, Iterable, Tuple

Exp = Tuple[int, int]          # c0 + c1*n
Mono = Tuple[Tuple[tuple, Exp], ...]   # sorted ((atom, exp), ...)


def _akey(atom):
    return repr(atom)


def _mono_mul(a: Mono, b: Mono) -> Mono:
    if not a:
        return b
    if not b:
        return a
    d: Dict[tuple, Exp] = dict(a)
    for atom, (c0, c1) in b:
        o = d.get(atom)
        if o is None:
            d[atom] = (c0, c1)
        else:
            e = (o[0] + c0, o[1] + c1)
            if e == (0, 0):
                del d[atom]
            else:
                d[atom] = e
    return tuple(sorted(d.items(), key=lambda kv: _akey(kv[0])))


def _mono_pow(a: Mono, k: Exp) -> Mono:
    """a ** (k0 + k1*n); only defined when not both a's exps and k have n."""
    out = []
    for atom, (c0, c1) in a:
        if c1 != 0 and k[1] != 0:
            raise PolyError("n*n exponent")
        e = (c0 * k[0], c0 * k[1] + c1 * k[0])
        if e != (0, 0):
            out.append((atom, e))
    return tuple(out)


class PolyError(Exception):
    pass


class Poly:
    __slots__ = ("t",)

    def __init__(self, terms: Dict[Mono, Fraction] = None):
        self.t = {m: c for m, c in (terms or {}).items() if c != 0}

    @staticmethod
    def const(c) -> "Poly":
        c = Fraction(c)
        return Poly({(): c}) if c != 0 else Poly()

    @staticmethod
    def atom(a: tuple) -> "Poly":
        return Poly({((a, (1, 0)),): Fraction(1)})

    def is_zero(self):
        return not self.t

    def is_const(self):
        return all(m == () for m in self.t)

    def const_value(self) -> Fraction:
        return self.t.get((), Fraction(0))

    def is_monomial(self):
        return len(self.t) == 1

    def __add__(self, o: "Poly") -> "Poly":
        d = dict(self.t)
        for m, c in o.t.items():
            d[m] = d.get(m, 0) + c
        return Poly(d)

    def __neg__(self):
        return Poly({m: -c for m, c in self.t.items()})

    def __sub__(self, o):
        return self + (-o)

    def __mul__(self, o: "Poly") -> "Poly":
        d: Dict[Mono, Fraction] = {}
        for m1, c1 in self.t.items():
            for m2, c2 in o.t.items():
                m = _mono_mul(m1, m2)
                d[m] = d.get(m, 0) + c1 * c2
        return Poly(d)

    def __eq__(self, o):
        return isinstance(o, Poly) and self.t == o.t

    def __hash__(self):
        return hash(self.key())

    def key(self):
        return tuple(sorted(((tuple((_akey(a), e) for a, e in m), c)
                             for m, c in self.t.items())))

    def atoms(self):
        s = set()
        for m in self.t:
            for a, _ in m:
                s.add(a)
        return s

    def __repr__(self):
        if not self.t:
            return "0"
        parts = []
        for m, c in sorted(self.t.items(), key=lambda kv: repr(kv[0])):
            ms = "*".join(_fmt_atom(a) + _fmt_exp(e) for a, e in m)
            if not ms:
                parts.append(str(c))
            elif c == 1:
                parts.append(ms)
            elif c == -1:
                parts.append("-" + ms)
            else:
                parts.append(f"{c}*{ms}")
        return " + ".join(parts)


def _fmt_exp(e: Exp) -> str:
    c0, c1 = e
    if c1 == 0:
        return "" if c0 == 1 else f"^{c0}"
    s = f"{c1}n" if c1 != 1 else "n"
    if c0:
        s = f"{c0}+{s}"
    return f"^({s})"


def _fmt_atom(a) -> str:
    if isinstance(a, tuple):
        if len(a) == 2:
            return f"{a[0]}({_fmt_atom(a[1])})"
        return f"{a[0]}({','.join(_fmt_atom(x) for x in a[1:])})"
    return str(a)


class RF:
    """Rational function num/den."""
    __slots__ = ("n", "d")

    def __init__(self, n: Poly, d: Poly = None):
        if d is None:
            d = Poly.const(1)
        if d.is_zero():
            raise PolyError("division by zero polynomial")
        if d.is_monomial():
            (m, c), = d.t.items()
            if m != () or c != 1:
                inv = _mono_pow(m, (-1, 0))
                n = n * Poly({inv: 1 / c})
                d = Poly.const(1)
        elif n.is_zero():
            d = Poly.const(1)
        self.n = n
        self.d = d

    # constructors
    @staticmethod
    def const(c) -> "RF":
        return RF(Poly.const(c))

    @staticmethod
    def atom(a: tuple) -> "RF":
        return RF(Poly.atom(a))

    def __add__(self, o: "RF") -> "RF":
        if self.d == o.d:
            return RF(self.n + o.n, self.d)
        return RF(self.n * o.d + o.n * self.d, self.d * o.d)

    def __neg__(self):
        return RF(-self.n, self.d)

    def __sub__(self, o):
        return self + (-o)

    def __mul__(self, o: "RF") -> "RF":
        return RF(self.n * o.n, self.d * o.d)

    def inv(self) -> "RF":
        if self.n.is_zero():
            raise PolyError("division by zero")
        return RF(self.d, self.n)

    def __truediv__(self, o: "RF") -> "RF":
        return self * o.inv()

    def pow_int(self, k: int) -> "RF":
        if k == 0:
            return RF.const(1)
        base = self if k > 0 else self.inv()
        r = RF.const(1)
        for _ in range(abs(k)):
            r = r * base
        return r

    def pow_sym(self, k: Exp) -> "RF":
        """self ** (k0 + k1*n); requires a monomial (Laurent) value."""
        if k[1] == 0:
            return self.pow_int(k[0])
        if not (self.d.is_const() and self.n.is_monomial()):
            raise PolyError("symbolic power of a non-monomial")
        (m, c), = self.n.t.items()
        c = c / self.d.const_value()
        mm = _mono_pow(m, k)
        if c != 1:
            if c < 0:
                raise PolyError("symbolic power of a negative constant")
            mm = _mono_mul(mm, ((("const", str(c)), k),))
        return RF(Poly({mm: Fraction(1)}))

    def equals(self, o: "RF") -> bool:
        return (self.n * o.d) == (o.n * self.d)

    def is_zero(self):
        return self.n.is_zero()

    def is_const(self):
        return self.n.is_const() and self.d.is_const()

    def const_value(self) -> Fraction:
        return self.n.const_value() / self.d.const_value()

    def as_constant(self):
        """Fraction c if num == c * den (a constant in disguise: no GCD normalisation is done), else None."""
        if self.is_const():
            return self.const_value()
        if self.n.is_zero():
            return Fraction(0)
        m = next(iter(self.d.t))
        if m not in self.n.t:
            return None
        c = self.n.t[m] / self.d.t[m]
        if self.n == self.d * Poly.const(c):
            return c
        return None

    def is_one(self):
        return self.equals(RF.const(1))

    def atoms(self):
        return self.n.atoms() | self.d.atoms()

    def key(self):
        return (self.n.key(), self.d.key())

    def __repr__(self):
        if self.d.is_const() and self.d.const_value() == 1:
            return repr(self.n)
        return f"({self.n!r})/({self.d!r})"

    def subst(self, mapping: Dict[tuple, "RF"]) -> "RF":
        """Replace atoms (with plain integer exponents) by rational functions."""
        if not mapping:
            return self
        nv = mapping.get(("n",))
        if nv is not None and nv.is_const() and nv.const_value().denominator == 1 and self.has_sym_exp():
            c = int(nv.const_value())
            return RF(_fix_n(self.n, c), _fix_n(self.d, c)).subst(mapping)
        if not (self.atoms() & set(mapping)):
            return self
        return _subst_poly(self.n, mapping) / _subst_poly(self.d, mapping)

    def has_sym_exp(self):
        return any(e[1] != 0 for p in (self.n, self.d) for m in p.t for _, e in m)

    def map_atoms(self, fn) -> "RF":
        """Apply fn(atom) -> RF or None (keep) to every atom."""
        mp = {}
        for a in self.atoms():
            r = fn(a)
            if r is not None:
                mp[a] = r
        return self.subst(mp)


def _fix_n(p: Poly, c: int) -> Poly:
    out: Dict[Mono, Fraction] = {}
    for m, coef in p.t.items():
        mm = []
        for a, (c0, c1) in m:
            e = c0 + c1 * c
            if a[0] == "const" and c1 != 0:
                coef = coef * Fraction(a[1]) ** e
                continue
            if e != 0:
                mm.append((a, (e, 0)))
        mm = tuple(mm)
        out[mm] = out.get(mm, 0) + coef
    return Poly(out)


def _subst_poly(p: Poly, mapping) -> RF:
    res = RF.const(0)
    for m, c in p.t.items():
        term = RF.const(c)
        for a, e in m:
            if a in mapping:
                term = term * mapping[a].pow_sym(e)
            else:
                term = term * RF(Poly({((a, e),): Fraction(1)}))
        res = res + term
    return res


def rf_sum(xs: Iterable[RF]) -> RF:
    r = RF.const(0)
    for x in xs:
        r = r + x
    return r
