"""Regular expressions used as *readers* of a text form.

A pattern in the repository is data.  When the analysed code applies one to an opaque text (the argument of a
constructor, say), Engine A needs to know what the groups of the match denote.  That is decided here on the
pattern itself, by the checker's own matcher (the standard library's `re`), never by running repository code:

    the pattern is compared, bounded-exhaustively, with the reference reader of the text form
        "<amount>[ <symbol>]"  (amount: no white space; symbol: anything without leading / trailing white space)
    over every string up to a fixed length over an alphabet that holds a blank, a tab, a line break, and a member
    of every character class and every literal the pattern mentions (read off `re._parser`'s syntax tree), plus
    strings longer than every finite repetition bound of the pattern.

The outcome is a *profile*: which group is the amount, which the symbol, whether the match can fail, and whether
every writer output (amount, one blank, symbol) is decomposed into exactly its two pieces.  Patterns with
back-references, look-around or conditional groups are outside this model (Unsupported)."""
from __future__ import annotations

import itertools
import re
from typing import Dict, List, Optional, Tuple

try:
    import re._parser as _sre_parse          # Python >= 3.11
except ImportError:                           # pragma: no cover
    import sre_parse as _sre_parse


class RegexUnsupported(Exception):
    pass


FLAG_NAMES = ("A", "ASCII", "I", "IGNORECASE", "M", "MULTILINE", "S", "DOTALL", "X", "VERBOSE", "U", "UNICODE",
              "L", "LOCALE", "NOFLAG")


def flag_value(name: str) -> Optional[int]:
    if name in FLAG_NAMES and hasattr(re, name):
        return int(getattr(re, name))
    return None


def _walk(tree, out_lits: set, out_classes: list, bounds: set):
    for op, av in tree:
        name = str(op)
        if name == "LITERAL" or name == "NOT_LITERAL":
            out_lits.add(chr(av))
        elif name == "IN":
            out_classes.append(av)
            for o2, a2 in av:
                if str(o2) == "LITERAL":
                    out_lits.add(chr(a2))
                elif str(o2) == "RANGE":
                    out_lits.add(chr(a2[0]))
                    out_lits.add(chr(a2[1]))
        elif name in ("MAX_REPEAT", "MIN_REPEAT", "POSSESSIVE_REPEAT"):
            lo, hi, sub = av
            for b in (lo, hi):
                if isinstance(b, int) and 0 < b < 64:
                    bounds.add(b)
            _walk(sub, out_lits, out_classes, bounds)
        elif name == "SUBPATTERN":
            _walk(av[3], out_lits, out_classes, bounds)
        elif name == "BRANCH":
            for alt in av[1]:
                _walk(alt, out_lits, out_classes, bounds)
        elif name in ("ATOMIC_GROUP",):
            _walk(av, out_lits, out_classes, bounds)
        elif name in ("GROUPREF", "GROUPREF_EXISTS", "ASSERT", "ASSERT_NOT"):
            raise RegexUnsupported(f"pattern construct {name}")
        elif name in ("ANY", "AT", "CATEGORY"):
            pass
        else:
            pass


_CATEGORY_MEMBERS = {"d": "7", "w": "x", "s": "\t"}

_PROFILE_CACHE: Dict[tuple, dict] = {}


def reader_profile(pattern: str, flags: int, method: str) -> dict:
    key = (pattern, flags, method)
    if key in _PROFILE_CACHE:
        return _PROFILE_CACHE[key]
    try:
        rx = re.compile(pattern, flags)
        tree = _sre_parse.parse(pattern, flags)
    except re.error as e:
        raise RegexUnsupported(f"pattern does not compile: {e}")
    lits, classes, bounds = set(), [], set()
    _walk(tree, lits, classes, bounds)
    # alphabet: blank, tab, line break, a digit, a letter, the amount punctuation, a non-ASCII symbol character,
    # and the literals of the pattern
    alphabet = [" ", "\t", "\n", "7", "x", "/", ".", "-", "°"]
    for ch in sorted(lits):
        if ch not in alphabet and len(alphabet) < 14:
            alphabet.append(ch)
    apply = getattr(rx, method)
    names = dict(rx.groupindex)
    ngroups = rx.groups
    max_len = 4 if len(alphabet) > 10 else 5
    corpus: List[str] = []
    for n in range(0, max_len + 1):
        for t in itertools.product(alphabet, repeat=n):
            corpus.append("".join(t))
    # beyond every finite repetition bound of the pattern
    for b in sorted(bounds):
        for a_ in ("7", "x"):
            corpus.append(a_ * (b + 1))
            corpus.append(a_ * (b + 1) + " " + "x" * (b + 1))
            corpus.append(a_ + " " + "x" * (b + 1) + " " + "x")
    ws = " \t\n\r\x0b\x0c"
    can_fail = False
    always_fail = True
    amount_cands = set(range(1, ngroups + 1))
    symbol_cands = set(range(1, ngroups + 1))
    writer_forms = 0
    writer_bad: List[str] = []
    for s in corpus:
        m = apply(s)
        # is s a writer output?  <amount> or <amount> <symbol>
        a, sep, sym = s.partition(" ")
        is_writer = bool(a) and not any(c in ws for c in a) and (
            (not sep) or (bool(sym) and sym == sym.strip()))
        if m is None:
            can_fail = True
            if is_writer:
                writer_bad.append(s)
            continue
        always_fail = False
        if not is_writer:
            continue
        writer_forms += 1
        for g in list(amount_cands):
            if m.group(g) != a:
                amount_cands.discard(g)
        for g in list(symbol_cands):
            v = m.group(g)
            if sep:
                if v is None or v.strip() != sym:
                    symbol_cands.discard(g)
            elif v is not None and v.strip() != "":
                symbol_cands.discard(g)
    inv = {v: k for k, v in names.items()}
    prof = {
        "groups": ngroups, "names": names, "can_fail": can_fail, "always_fail": always_fail,
        "amount_group": min(amount_cands) if amount_cands else None,
        "symbol_group": min(symbol_cands - ({min(amount_cands)} if amount_cands else set())) if
        (symbol_cands - ({min(amount_cands)} if amount_cands else set())) else None,
        "writer_ok": not writer_bad and bool(amount_cands) and writer_forms > 0,
        "writer_bad": writer_bad[:3], "corpus": len(corpus), "writer_forms": writer_forms, "group_names": inv,
    }
    # does the symbol group come out None (rather than '') when there is no blank?
    sg = prof["symbol_group"]
    if sg is not None:
        m = apply("7")
        prof["symbol_absent_is_none"] = bool(m is not None and m.group(sg) is None)
    _PROFILE_CACHE[key] = prof
    return prof
