"""Engine A core: a path-enumerating abstract interpreter over the Python subset
the repository uses.  Nondeterminism (unknown identities, kinds, lookups) is
resolved by a replayable choice oracle; every path is re-run from scratch, so
the path state is an ordinary mutable object."""
from __future__ import annotations

import ast
import builtins
from typing import Dict, List, Optional

from .loader import FuncInfo, Program, src_of
from .poly import RF, PolyError
from .values import *  # noqa: F401,F403


class Oracle:
    def __init__(self, prefix):
        self.prefix = list(prefix)
        self.taken: List[tuple] = []
        self.trace: List[str] = []

    sticky = None       # label -> choices made at its 1st, 2nd, ... occurrence within a call (replayed cases)

    def begin_call(self):
        self.occ = {}

    def choose(self, n: int, label: str, names=None, sticky=True) -> int:
        if self.sticky is not None and sticky:
            # what the model leaves open about the environment is open once: a repeated call meets the same facts
            k = self.occ.get(label, 0)
            self.occ[label] = k + 1
            lst = self.sticky.setdefault(label, [])
            if k < len(lst):
                self.trace.append(f"{label}={names[lst[k]] if names else lst[k]} (as before)")
                return lst[k]
            c = self._choose(n, label, names)
            lst.append(c)
            return c
        return self._choose(n, label, names)

    def _choose(self, n: int, label: str, names=None) -> int:
        i = len(self.taken)
        c = self.prefix[i] if i < len(self.prefix) else 0
        if c >= n:
            raise AnalysisError(f"oracle replay mismatch at {label}")
        self.taken.append((c, n))
        self.trace.append(f"{label}={names[c] if names else c}")
        return c


_MEMO_WORDS = ("lru_cache", "cached_property", "memoize", "memoise", "memoized", "cache")


def _memoised(fi) -> bool:
    m = getattr(fi, "_memoised", None)
    if m is None:
        names = []
        for d in getattr(fi.node, "decorator_list", []) or []:
            d = d.func if isinstance(d, ast.Call) else d
            names.append(d.attr if isinstance(d, ast.Attribute) else (d.id if isinstance(d, ast.Name) else ""))
        m = any(any(w == n or (w != "cache" and w in n) for w in _MEMO_WORDS) for n in names)
        try:
            fi._memoised = m
        except Exception:       # noqa: BLE001
            pass
    return m


class SetupVerdict(Exception):
    """Raised while a scenario is being built through the library's own code: the history the case is about cannot
    be produced although the scenario's premises say it must be (the verdict of the case, whatever the function
    under test would do afterwards)."""

    def __init__(self, sig, detail):
        super().__init__(sig)
        self.sig, self.detail = sig, detail


class Outcome:
    def __init__(self, kind, value=None, exc=None, state=None, trace=None):
        self.kind = kind        # 'return' | 'raise'
        self.value = value
        self.exc = exc
        self.state = state
        self.trace = trace or []

    def brief(self):
        if self.kind == "setup-verdict":
            return f"scenario: {self.verdict[0]}"
        if self.kind == "return":
            return f"return {self.value!r}"
        return f"raise {self.exc!r}"


MAX_PATHS = 4000


def explore(run, cap=None) -> List[Outcome]:
    """run(oracle) -> Outcome or raises Infeasible.  cap: stop after that many paths (a bounded exploration: what
    it finds is real, what it does not reach is not decided) - used for the additional, repeated-call variants of a
    case in the quick tier only."""
    results = []
    prefix: List[int] = []
    n_paths = 0
    while True:
        orc = Oracle(prefix)
        n_paths += 1
        if cap is not None and n_paths > cap:
            explore.truncated += 1
            break
        if n_paths > MAX_PATHS:
            raise AnalysisError("path explosion")
        try:
            out = run(orc)
            out.trace = orc.trace
            results.append(out)
        except Infeasible:
            pass
        seq = list(orc.taken)
        while seq and seq[-1][0] == seq[-1][1] - 1:
            seq.pop()
        if not seq:
            break
        prefix = [c for c, _ in seq[:-1]] + [seq[-1][0] + 1]
    return results


explore.truncated = 0


class _OpaqueMarker:
    pass


OpaqueMarker = _OpaqueMarker()


class ReturnSig(Exception):
    def __init__(self, value):
        self.value = value


class BreakSig(Exception):
    pass


class ContinueSig(Exception):
    pass


def _has_own_yield(fnode) -> bool:
    """Does the function itself (not a function nested in it) yield?"""
    stack = list(fnode.body) if isinstance(fnode.body, list) else [fnode.body]
    while stack:
        n = stack.pop()
        if isinstance(n, (ast.Yield, ast.YieldFrom)):
            return True
        if isinstance(n, (ast.FunctionDef, ast.AsyncFunctionDef, ast.Lambda, ast.ClassDef)):
            continue
        stack.extend(ast.iter_child_nodes(n))
    return False


class Frame:
    def __init__(self, fi: Optional[FuncInfo], module, cls, env):
        self.fi = fi
        self.module = module
        self.cls = cls
        self.env: Dict[str, V] = env
        self.cur_exc: Optional[ExcV] = None
        self.closure: Optional["Frame"] = None     # defining frame of a nested function
        self.nonlocals: set = set()


_BUILTIN_EXC = {n for n in dir(builtins)
                if isinstance(getattr(builtins, n), type) and issubclass(getattr(builtins, n), BaseException)}


class Interp:
    def __init__(self, prog: Program, state: State, models, max_depth=10):
        self.prog = prog
        self.st = state
        self.models = models
        self.max_depth = max_depth
        self.depth = 0
        self.frames: List[Frame] = []
        models.bind(self)

    # ------------------------------------------------------------ exceptions
    def exc_is_subclass(self, name: str, parent: str) -> bool:
        if name == parent:
            return True
        if parent in ("Exception", "BaseException"):
            return True
        if name in self.prog.classes:
            ci = self.prog.classes[name]
            for b in ci.base_names:
                if self.exc_is_subclass(b, parent):
                    return True
            return False
        if name in _BUILTIN_EXC and parent in _BUILTIN_EXC:
            return issubclass(getattr(builtins, name), getattr(builtins, parent))
        return False

    def raise_(self, name, node=None, args=()):
        fr = self.frames[-1] if self.frames else None
        where = None
        if fr is not None and fr.fi is not None:
            where = f"{fr.fi.qualname}:{getattr(node, 'lineno', '?')}"
        raise AbsRaise(ExcV(name, args, node, where))

    def choose(self, n, label, names=None, sticky=True):
        return self.st.oracle.choose(n, label, names, sticky)

    def unsupported(self, node, why=""):
        fr = self.frames[-1] if self.frames else None
        loc = ""
        if fr is not None and fr.fi is not None:
            loc = f"{fr.fi.module.rel()}:{getattr(node, 'lineno', '?')} {fr.fi.qualname}: "
        raise Unsupported(f"{loc}unsupported construct {why}: {src_of(node)[:120] if isinstance(node, ast.AST) else node}")

    # ------------------------------------------------------------ calls
    def call_function(self, fi: FuncInfo, args: List[V], kwargs: Dict[str, V] = None, node=None, closure=None) -> V:
        kwargs = dict(kwargs or {})
        summ = getattr(self.models, "summaries", None)
        if summ and fi.qualname in summ:
            return summ[fi.qualname](self, fi, list(args), kwargs, node)
        if _memoised(fi) and not self.st.memo_hidden:
            # functools.lru_cache / cache: equal arguments seen before on this path give the very object returned
            # then (exceptions are not remembered)
            table = self.st.lru.setdefault(fi.qualname, [])
            for a0, k0, v0 in table:
                if len(a0) == len(args) and sorted(k0) == sorted(kwargs) and \
                        all(self.models.keys_equal(x, y, node) for x, y in zip(a0, args)) and \
                        all(self.models.keys_equal(k0[k], kwargs[k], node) for k in k0):
                    self.st.oracle.trace.append(f"memoised {fi.name}: replayed")
                    return v0
            v = self._call_function(fi, args, kwargs, node, closure)
            table.append((list(args), dict(kwargs), v))
            return v
        return self._call_function(fi, args, kwargs, node, closure)

    def _call_function(self, fi: FuncInfo, args: List[V], kwargs: Dict[str, V] = None, node=None, closure=None) -> V:
        kwargs = dict(kwargs or {})
        if self.depth >= self.max_depth:
            raise Unsupported(f"inlining bound exceeded at {fi.qualname}")
        fnode = fi.node
        env: Dict[str, V] = {}
        a = fnode.args
        params = [p.arg for p in a.posonlyargs + a.args]
        defaults = [None] * (len(params) - len(a.defaults)) + list(a.defaults)
        args = list(args)
        frame = Frame(fi, fi.module, fi.cls, env)
        frame.closure = closure
        for i, p in enumerate(params):
            if i < len(args):
                env[p] = args[i]
            elif p in kwargs:
                env[p] = kwargs.pop(p)
            elif defaults[i] is not None:
                df = Frame(fi, fi.module, fi.cls, {})
                df.closure = closure
                self.frames.append(df)
                try:
                    env[p] = self.eval(defaults[i])
                finally:
                    self.frames.pop()
            else:
                self.raise_("TypeError", node)
        extra = args[len(params):]
        if a.vararg:
            env[a.vararg.arg] = TupleV(extra)
        elif extra:
            self.raise_("TypeError", node)
        for p, d in zip(a.kwonlyargs, a.kw_defaults):
            if p.arg in kwargs:
                env[p.arg] = kwargs.pop(p.arg)
            elif d is not None:
                self.frames.append(Frame(fi, fi.module, fi.cls, {}))
                try:
                    env[p.arg] = self.eval(d)
                finally:
                    self.frames.pop()
            else:
                self.raise_("TypeError", node)
        if a.kwarg:
            env[a.kwarg.arg] = ObjV(None, "kwargs", kwargs)
        elif kwargs:
            self.raise_("TypeError", node)
        self.frames.append(frame)
        self.depth += 1
        try:
            if isinstance(fnode, ast.Lambda):
                return self.eval(fnode.body)
            is_gen = _has_own_yield(fnode)
            if is_gen:
                frame.yields = []
            try:
                self.exec_block(fnode.body)
            except ReturnSig as r:
                if not is_gen:
                    return r.value
            if is_gen:
                # generators are evaluated eagerly: sound for consumers that exhaust them at the call site
                lv = ListV(frame.yields)
                lv.lazy = True
                return lv
            return NONE
        finally:
            self.depth -= 1
            self.frames.pop()

    # ------------------------------------------------------------ statements
    @property
    def frame(self) -> Frame:
        return self.frames[-1]

    def exec_block(self, stmts):
        for st in stmts:
            self.exec_stmt(st)

    def exec_stmt(self, st):
        m = getattr(self, "st_" + type(st).__name__, None)
        if m is None:
            self.unsupported(st, "statement")
        m(st)

    def st_Expr(self, st):
        if isinstance(st.value, ast.Constant):
            return
        self.eval(st.value)

    def st_Pass(self, st):
        pass

    def st_Return(self, st):
        raise ReturnSig(self.eval(st.value) if st.value is not None else NONE)

    def st_Break(self, st):
        raise BreakSig()

    def st_Continue(self, st):
        raise ContinueSig()

    def st_AnnAssign(self, st):
        if st.value is not None:
            self.assign(st.target, self.eval(st.value))

    def st_Assign(self, st):
        v = self.eval(st.value)
        for t in st.targets:
            self.assign(t, v)

    def st_AugAssign(self, st):
        cur = self.eval(_load(st.target))
        if type(cur).__name__ == "DictV" and isinstance(st.op, ast.BitOr):
            # d |= other: in-place update (aliases see it); the name / attribute keeps denoting the same dict
            other = self.eval(st.value)
            upd = self.models.get_attr(cur, "update", st)
            self.models.call(upd, [other], {}, st)
            return
        if isinstance(cur, ListV) and cur.items is not None and isinstance(st.op, ast.Add):
            seq = self.models.iterate(self.eval(st.value), st)
            if seq is None:
                self.unsupported(st, "list += opaque")
            cur.items.extend(seq)       # in place: aliases see it
            return
        v = self.binop(type(st.op), cur, self.eval(st.value), st)
        self.assign(st.target, v, aug=True)

    def assign(self, target, v: V, aug=False):
        if isinstance(target, ast.Name):
            if target.id in self.frame.nonlocals:
                fr = self.frame.closure
                while fr is not None:
                    if target.id in fr.env:
                        fr.env[target.id] = v
                        return
                    fr = fr.closure
            self.frame.env[target.id] = v
        elif isinstance(target, (ast.Tuple, ast.List)) and any(isinstance(e, ast.Starred) for e in target.elts):
            k = [i for i, e in enumerate(target.elts) if isinstance(e, ast.Starred)]
            if len(k) != 1:
                self.unsupported(target, "assignment target")
            nb, na = k[0], len(target.elts) - k[0] - 1
            seq = self.models.iterate(v, target)
            if seq is None and isinstance(v, ListV):
                ln = self.models.list_len(v, target)
                seq = [self.models.get_item(v, self.models.num_const(i), target) for i in range(ln)]
            if seq is None:
                self.unsupported(target, f"starred unpack of {v!r}")
            if len(seq) < nb + na:
                self.raise_("ValueError", target)
            for t, x in zip(target.elts[:nb], seq[:nb]):
                self.assign(t, x)
            self.assign(target.elts[nb].value, ListV(list(seq[nb:len(seq) - na])))
            for t, x in zip(target.elts[nb + 1:], seq[len(seq) - na:]):
                self.assign(t, x)
        elif isinstance(target, (ast.Tuple, ast.List)):
            items = self.models.unpack(v, len(target.elts), target)
            for t, x in zip(target.elts, items):
                self.assign(t, x)
        elif isinstance(target, ast.Attribute):
            obj = self.eval(target.value)
            self.models.set_attr(obj, target.attr, v, target, aug)
        elif isinstance(target, ast.Subscript):
            obj = self.eval(target.value)
            if isinstance(target.slice, ast.Slice):
                if target.slice.step is not None:
                    self.unsupported(target, "extended slice assignment")
                key = SliceV(self.eval(target.slice.lower) if target.slice.lower else None,
                             self.eval(target.slice.upper) if target.slice.upper else None)
            else:
                key = self.eval(target.slice)
            self.models.set_item(obj, key, v, target)
        else:
            self.unsupported(target, "assignment target")

    def st_If(self, st):
        if self.truth(self.eval(st.test), st.test):
            self.exec_block(st.body)
        else:
            self.exec_block(st.orelse)

    def st_Assert(self, st):
        if not self.truth(self.eval(st.test), st.test):
            self.raise_("AssertionError", st)

    def st_Raise(self, st):
        if st.exc is None:
            if self.frame.cur_exc is None:
                self.unsupported(st, "bare raise outside handler")
            raise AbsRaise(self.frame.cur_exc)
        exc = st.exc
        args = ()
        target = exc.func if isinstance(exc, ast.Call) else exc
        name = src_of(target).split(".")[-1]
        if not self.models.is_exception_class(name):
            # `raise helper(...)` / `raise exc_object`: the value says what is raised
            v = self.eval(exc)
            if isinstance(v, ExcObjV):
                raise AbsRaise(v.exc)
            if isinstance(v, OpaqueV) and v.tag == "exc" and self.frame.cur_exc is not None:
                raise AbsRaise(self.frame.cur_exc)
            if isinstance(v, ObjV) and v.ci is not None and self.models.is_exception_class(v.ci.name):
                self.raise_(v.ci.name, st, ())
            self.unsupported(st, f"raise of {v!r}")
        if isinstance(exc, ast.Call):
            # evaluate the arguments: they may themselves fail (e.g. attribute of None)
            args = tuple(self._display(exc.args))
        self.raise_(name, st, args)

    def st_Try(self, st):
        frame = self.frame
        n_flags = len(self.st.flags)
        try:
            try:
                self.exec_block(st.body)
            except AbsRaise as ar:
                handler = self._match_handler(st.handlers, ar.exc)
                if handler is None:
                    raise
                if ar.exc.name == "AttributeError":
                    # a missing attribute that the code expects and handles (unset slot, optional attribute) is no finding
                    self.st.flags[n_flags:] = [f for f in self.st.flags[n_flags:] if f[0] not in ("missing-attribute", "none-attribute")]
                if handler.name:
                    frame.env[handler.name] = OpaqueV("exc")
                saved = frame.cur_exc
                frame.cur_exc = ar.exc
                try:
                    self.exec_block(handler.body)
                finally:
                    frame.cur_exc = saved
            else:
                self.exec_block(st.orelse)
        finally:
            if st.finalbody:
                self.exec_block(st.finalbody)

    def _match_handler(self, handlers, exc: ExcV):
        for h in handlers:
            if h.type is None:
                return h
            names = []
            if isinstance(h.type, ast.Tuple):
                names = [src_of(e).split(".")[-1] for e in h.type.elts]
            else:
                names = [src_of(h.type).split(".")[-1]]
            if any(self.exc_is_subclass(exc.name, n) for n in names):
                return h
        return None

    def st_For(self, st):
        it = self.eval(st.iter)
        self.st.effects.append(("loop-iter", it, st.lineno))
        if type(it).__name__ == "IterV":
            # an explicit iterator keeps its position: a `break` leaves the rest for whoever resumes it
            broke = False
            while it.pos < len(it.seq):
                x = it.seq[it.pos]
                it.pos += 1
                self.assign(st.target, x)
                try:
                    self.exec_block(st.body)
                except BreakSig:
                    broke = True
                    break
                except ContinueSig:
                    continue
            if not broke:
                self.exec_block(st.orelse)
            return
        seq = self.models.iterate(it, st)
        if seq is not None:           # concrete sequence
            broke = False
            for x in seq:
                self.assign(st.target, x)
                try:
                    self.exec_block(st.body)
                except BreakSig:
                    broke = True
                    break
                except ContinueSig:
                    continue
            if not broke:
                self.exec_block(st.orelse)
            return
        # opaque iterable: 0 iterations, or 1 iteration then havoc
        n = 1 if getattr(it, "nonempty", False) else self.choose(2, f"loop@{st.lineno}", ["0-iter", ">=1-iter"])
        if n == 0:
            self.exec_block(st.orelse)
            return
        self.assign(st.target, self.models.opaque_element(it, st))
        try:
            self.exec_block(st.body)
        except BreakSig:
            return
        except ContinueSig:
            pass
        for name in _assigned_names(st):
            self.frame.env[name] = OpaqueV(f"havoc:{name}")
        self.st.notes.append(f"loop@{st.lineno} havocked after one iteration")
        self.exec_block(st.orelse)

    def st_While(self, st):
        # bounded unrolling; a loop that is still running after the bound is outside the analysed subset
        for _ in range(6):
            if not self.truth(self.eval(st.test), st.test):
                self.exec_block(st.orelse)
                return
            try:
                self.exec_block(st.body)
            except BreakSig:
                return
            except ContinueSig:
                continue
        self.unsupported(st, "while loop not finished after 6 iterations")

    def st_FunctionDef(self, st):
        fi = FuncInfo(st.name, self.frame.module, self.frame.cls, st, "function")
        f = PyFuncV(fi)
        f.closure = self.frame
        self.frame.env[st.name] = f

    def st_Delete(self, st):
        for t in st.targets:
            if isinstance(t, ast.Name) and t.id in self.frame.env:
                del self.frame.env[t.id]
            elif isinstance(t, ast.Subscript):
                obj = self.eval(t.value)
                if isinstance(t.slice, ast.Slice):
                    if t.slice.step is not None:
                        self.unsupported(st, "del of an extended slice")
                    lo = self.eval(t.slice.lower) if t.slice.lower is not None else None
                    hi = self.eval(t.slice.upper) if t.slice.upper is not None else None

                    def bound(x):
                        if x is None or isinstance(x, NoneV):
                            return None
                        if isinstance(x, Num) and self.st.norm(x.rf).is_const():
                            return int(self.st.norm(x.rf).const_value())
                        self.unsupported(st, "del of a slice with a symbolic bound")
                    if not (isinstance(obj, ListV) and obj.items is not None):
                        self.unsupported(st, "del of a slice of something else than a concrete list")
                    self.st.effects.append(("delitem", obj, SliceV(lo, hi), self.models.where(t)))
                    del obj.items[bound(lo):bound(hi)]
                    continue
                key = self.eval(t.slice)
                if isinstance(obj, ListV) and obj.items is None and isinstance(key, Num):
                    # `del l[i]` is `l.pop(i)` without the result
                    self.models.list_attr(obj, "pop", t).fn([key], {}, t)
                elif type(obj).__name__ == "DictV" and getattr(obj, "rate_table", None) is None:
                    self.st.effects.append(("delitem", obj, key, self.models.where(t)))
                    if self.models.dict_remove(obj, key, t) is None:
                        self.raise_("KeyError", t)
                elif isinstance(obj, ListV) and obj.items is not None and isinstance(key, Num) and \
                        self.st.norm(key.rf).is_const():
                    self.st.effects.append(("delitem", obj, key, self.models.where(t)))
                    try:
                        del obj.items[int(self.st.norm(key.rf).const_value())]
                    except IndexError:
                        self.raise_("IndexError", t)
                else:
                    self.st.effects.append(("delitem", obj, key, self.models.where(t)))
            elif isinstance(t, ast.Attribute):
                obj = self.eval(t.value)
                self.st.effects.append(("delattr", obj, t.attr, self.models.where(t)))
            else:
                self.unsupported(st, "del")

    def st_Match(self, st):
        subject = self.eval(st.subject)
        for case in st.cases:
            saved = dict(self.frame.env)
            if self.match_pattern(case.pattern, subject, case) and \
                    (case.guard is None or self.truth(self.eval(case.guard), case.guard)):
                self.exec_block(case.body)
                return
            self.frame.env.clear()
            self.frame.env.update(saved)

    def match_pattern(self, pat, v, node) -> bool:
        m = self.models
        if isinstance(pat, ast.MatchValue):
            return self.truth(m.compare(ast.Eq, v, self.eval(pat.value), pat), pat)
        if isinstance(pat, ast.MatchSingleton):
            const = NONE if pat.value is None else BoolV(pat.value)
            return m.is_(v, const, pat) if pat.value is None else (isinstance(v, BoolV) and v.val == pat.value)
        if isinstance(pat, ast.MatchAs):
            if pat.pattern is not None and not self.match_pattern(pat.pattern, v, node):
                return False
            if pat.name is not None:
                self.frame.env[pat.name] = v
            return True
        if isinstance(pat, ast.MatchOr):
            return any(self.match_pattern(p, v, node) for p in pat.patterns)
        if isinstance(pat, ast.MatchSequence):
            if isinstance(v, StrV):
                return False
            seq = m.iterate(v, pat) if isinstance(v, (TupleV, ListV)) else None
            if seq is None:
                if isinstance(v, (TupleV, ListV)):
                    self.unsupported(pat, "sequence pattern on an opaque sequence")
                return False
            stars = [i for i, p in enumerate(pat.patterns) if isinstance(p, ast.MatchStar)]
            if not stars:
                if len(seq) != len(pat.patterns):
                    return False
                return all(self.match_pattern(p, x, node) for p, x in zip(pat.patterns, seq))
            i = stars[0]
            na = len(pat.patterns) - i - 1
            if len(seq) < len(pat.patterns) - 1:
                return False
            ok = all(self.match_pattern(p, x, node) for p, x in zip(pat.patterns[:i], seq[:i])) and \
                all(self.match_pattern(p, x, node) for p, x in zip(pat.patterns[i + 1:], seq[len(seq) - na:]))
            if ok and pat.patterns[i].name is not None:
                self.frame.env[pat.patterns[i].name] = ListV(list(seq[i:len(seq) - na]))
            return ok
        if isinstance(pat, ast.MatchClass):
            cls = self.eval(pat.cls)
            if not m.isinstance_(v, cls, pat):
                return False
            if pat.patterns:
                # positional sub-patterns: builtin types bind the subject itself; classes need __match_args__
                if len(pat.patterns) == 1 and isinstance(cls, TypeV) and cls.ci is None:
                    return self.match_pattern(pat.patterns[0], v, node)
                self.unsupported(pat, "positional class pattern")
            for name, p in zip(pat.kwd_attrs, pat.kwd_patterns):
                if not self.match_pattern(p, m.get_attr(v, name, pat), node):
                    return False
            return True
        self.unsupported(pat, "match pattern")

    def st_Global(self, st):
        pass

    def st_Nonlocal(self, st):
        self.frame.nonlocals.update(st.names)

    def st_Import(self, st):
        for a in st.names:
            name = a.asname or a.name.split(".")[0]
            self.frame.env[name] = ModuleV(a.name if a.asname else a.name.split(".")[0])

    def st_ImportFrom(self, st):
        for a in st.names:
            self.frame.env[a.asname or a.name] = self.models.external(st.module or "", a.name, a.asname or a.name, st)

    def st_With(self, st):
        cms = []
        for item in st.items:
            cm = self.eval(item.context_expr)
            if getattr(cm, "suppress", None) is not None:
                cms.append(cm)
                if item.optional_vars is not None:
                    self.assign(item.optional_vars, NONE)
                continue
            ent = self.models.get_attr(cm, "__enter__", st)
            v = self.models.call(ent, [], {}, st)
            cms.append(cm)
            if item.optional_vars is not None:
                self.assign(item.optional_vars, v)

        def leave(exc):
            """Run the exit handlers innermost first; -> is the exception swallowed?"""
            swallowed = False
            for cm in reversed(cms):
                if getattr(cm, "suppress", None) is not None:
                    if exc is not None and not swallowed and \
                            any(self.exc_is_subclass(exc.name, n) for n in cm.suppress):
                        swallowed = True
                    continue
                ex = self.models.get_attr(cm, "__exit__", st)
                info = [NONE, NONE, NONE] if exc is None or swallowed else [OpaqueV("exc-type"), OpaqueV("exc"), OpaqueV("tb")]
                r = self.models.call(ex, info, {}, st)
                if exc is not None and not swallowed and self.truth(r, st):
                    swallowed = True
            return swallowed
        try:
            self.exec_block(st.body)
        except AbsRaise as ar:
            if leave(ar.exc):
                return
            raise
        except (ReturnSig, BreakSig, ContinueSig):
            leave(None)
            raise
        leave(None)

    # ------------------------------------------------------------ truthiness
    def truth(self, v: V, node=None) -> bool:
        return self.models.truth(v, node)

    # ------------------------------------------------------------ expressions
    def eval(self, node) -> V:
        m = getattr(self, "ex_" + type(node).__name__, None)
        if m is None:
            self.unsupported(node, "expression")
        return m(node)

    def ex_Constant(self, node):
        return self.models.constant(node.value, node)

    def ex_Name(self, node):
        name = node.id
        fr = self.frame
        while fr is not None:
            if name in fr.env:
                return fr.env[name]
            fr = fr.closure
        return self.models.global_name(self.frame.module, name, node)

    def _display(self, elts):
        out = []
        for e in elts:
            if isinstance(e, ast.Starred):
                seq = self.models.iterate(self.eval(e.value), e)
                if seq is None:
                    self.unsupported(e, "starred opaque value in a display")
                out.extend(seq)
            else:
                out.append(self.eval(e))
        return out

    def ex_Tuple(self, node):
        return TupleV(self._display(node.elts))

    def ex_List(self, node):
        return ListV(self._display(node.elts))

    def ex_Dict(self, node):
        from .models import DictV
        items = []
        for k, v in zip(node.keys, node.values):
            if k is None:           # {**other}: later entries override earlier ones (lookups scan from the end)
                src = self.eval(v)
                if not isinstance(src, DictV):
                    self.unsupported(node, "dict unpacking of a non-dict value")
                items.extend(src.items)
                continue
            items.append((self.eval(k), self.eval(v)))
        return DictV(items)

    def ex_JoinedStr(self, node):
        if getattr(self.models, "text_templates", False):
            parts = []
            for v in node.values:
                if isinstance(v, ast.Constant):
                    parts.append(("lit", v.value))
                    continue
                val = self.eval(v.value)
                spec = self.ex_JoinedStr(v.format_spec) if v.format_spec is not None else StrV("")
                if v.conversion == ord("r"):
                    parts.append(("val", StrV(None, "repr")))
                    continue
                how = "str" if v.conversion in (ord("s"), ord("a")) else "format"
                t = self.models.text_of(val, spec, v, how=how)
                if how == "str" and isinstance(spec, StrV) and spec.const:
                    t = StrV(None, "formatted")
                parts.extend(self.models.text_parts(t))
            return self.models.mk_text(parts)
        for v in node.values:
            if isinstance(v, ast.FormattedValue):
                self.eval(v.value)     # may fail (attribute of None etc.)
        return StrV(None, "fstring")

    def ex_Attribute(self, node):
        obj = self.eval(node.value)
        return self.models.get_attr(obj, node.attr, node)

    def ex_Subscript(self, node):
        obj = self.eval(node.value)
        if isinstance(node.slice, ast.Slice):
            lo = self.eval(node.slice.lower) if node.slice.lower else None
            hi = self.eval(node.slice.upper) if node.slice.upper else None
            if node.slice.step is not None:
                return self.models.get_slice(obj, lo, hi, node, step=self.eval(node.slice.step))
            return self.models.get_slice(obj, lo, hi, node)
        key = self.eval(node.slice)
        return self.models.get_item(obj, key, node)

    def ex_Call(self, node):
        # super() handling
        if isinstance(node.func, ast.Name) and node.func.id == "super" and not node.args:
            fr = self.frame
            first = fr.fi.node.args.args[0].arg if fr.fi and fr.fi.node.args.args else None
            return SuperV(fr.cls, fr.env.get(first))
        fn = self.eval(node.func)
        args = []
        for a in node.args:
            if isinstance(a, ast.Starred):
                v = self.eval(a.value)
                seq = self.models.iterate(v, a)
                if seq is None:
                    self.unsupported(a, "star-arg of opaque value")
                args.extend(seq)
            else:
                args.append(self.eval(a))
        kwargs = {}
        for kw in node.keywords:
            if kw.arg is None:
                src = self.eval(kw.value)
                items = None
                if type(src).__name__ == "DictV":
                    items = src.items
                elif isinstance(src, ObjV) and src.ci is None and src.name == "kwargs":
                    items = [(StrV(k), v) for k, v in src.fields.items()]
                if items is None or not all(isinstance(k, StrV) and k.const is not None for k, _ in items):
                    self.unsupported(node, "**kwargs call")
                for k, v in items:
                    kwargs[k.const] = v
                continue
            kwargs[kw.arg] = self.eval(kw.value)
        return self.models.call(fn, args, kwargs, node)

    def ex_BinOp(self, node):
        l = self.eval(node.left)
        r = self.eval(node.right)
        return self.binop(type(node.op), l, r, node)

    def binop(self, op, l, r, node):
        return self.models.binop(op, l, r, node)

    def ex_UnaryOp(self, node):
        v = self.eval(node.operand)
        if isinstance(node.op, ast.Not):
            return BoolV(not self.truth(v, node.operand))
        return self.models.unaryop(type(node.op), v, node)

    def ex_BoolOp(self, node):
        """`a and b` / `a or b` return one of their operands; only the non-final operands are tested."""
        is_and = isinstance(node.op, ast.And)
        last = len(node.values) - 1
        v = BoolV(is_and)
        for i, e in enumerate(node.values):
            v = self.eval(e)
            if i == last:
                return v
            t = self.truth(v, e)
            if is_and and not t:
                return BoolV(False) if isinstance(v, CmpV) else v
            if (not is_and) and t:
                return BoolV(True) if isinstance(v, CmpV) else v
        return v

    def ex_IfExp(self, node):
        if self.truth(self.eval(node.test), node.test):
            return self.eval(node.body)
        return self.eval(node.orelse)

    def ex_Compare(self, node):
        left = self.eval(node.left)
        res = None
        for op, comp in zip(node.ops, node.comparators):
            right = self.eval(comp)
            res = self.models.compare(type(op), left, right, node)
            if len(node.ops) > 1:
                if not self.truth(res, node):
                    return BoolV(False)
            left = right
        return res

    def ex_Yield(self, node):
        v = self.eval(node.value) if node.value is not None else NONE
        fr = self.frame
        if not hasattr(fr, "yields"):
            self.unsupported(node, "yield outside generator")
        fr.yields.append(v)
        return NONE

    def ex_YieldFrom(self, node):
        fr = self.frame
        if not hasattr(fr, "yields"):
            self.unsupported(node, "yield from outside generator")
        seq = self.models.iterate(self.eval(node.value), node)
        if seq is None:
            self.unsupported(node, "yield from an opaque iterable")
        fr.yields.extend(seq)
        return NONE

    def ex_Lambda(self, node):
        return LambdaV(node, dict(self.frame.env), self.frame.module, self.frame.cls)

    def ex_ListComp(self, node):
        return self._comp(node, node.elt, as_list=True)

    def ex_DictComp(self, node):
        from .models import DictV
        if len(node.generators) != 1:
            self.unsupported(node, "nested comprehension")
        g = node.generators[0]
        seq = self.models.iterate(self.eval(g.iter), node)
        if seq is None:
            self.unsupported(node, "dict comprehension over an opaque iterable")
        saved = dict(self.frame.env)
        try:
            items = []
            for x in seq:
                self.assign(g.target, x)
                if all(self.truth(self.eval(c), c) for c in g.ifs):
                    items.append((self.eval(node.key), self.eval(node.value)))
            return DictV(items)
        finally:
            self.frame.env.clear()
            self.frame.env.update(saved)

    def ex_SetComp(self, node):
        return self._comp(node, node.elt, as_list=True)

    def ex_Set(self, node):
        return ListV([self.eval(e) for e in node.elts])

    def ex_NamedExpr(self, node):
        v = self.eval(node.value)
        self.assign(node.target, v)
        return v

    def ex_GeneratorExp(self, node):
        if len(node.generators) != 1:
            self.unsupported(node, "nested generator expression")
        first = self.eval(node.generators[0].iter)
        return GenV(node, self.frame, first)

    def gen_iter(self, g: GenV):
        """Consume a generator expression element by element (Python generator: effects interleave)."""
        if g.consumed:
            return
        g.consumed = True
        gen = g.node.generators[0]
        self.st.effects.append(("loop-iter", g.first_iter, g.node.lineno))
        seq = self.models.iterate(g.first_iter, g.node)
        fr = g.frame
        if seq is None:
            # opaque source: no element at all, or one symbolic element standing for all
            if not getattr(g.first_iter, "nonempty", False) and \
                    self.choose(2, f"loop@{g.node.lineno}", ["0-iter", ">=1-iter"]) == 0:
                return
            g.nonempty = True
            self.frames.append(fr)
            try:
                saved = dict(fr.env)
                self.assign(gen.target, self.models.opaque_element(g.first_iter, g.node))
                for c in gen.ifs:
                    self.truth(self.eval(c), c)
                y = self.eval(g.node.elt)
                fr.env.clear()
                fr.env.update(saved)
            finally:
                self.frames.pop()
            g.opaque_elem = y
            yield OpaqueMarker
            return
        for x in seq:
            self.frames.append(fr)
            try:
                shadow = {}
                names = [n.id for n in ast.walk(gen.target) if isinstance(n, ast.Name)]
                for nm in names:
                    if nm in fr.env:
                        shadow[nm] = fr.env[nm]
                self.assign(gen.target, x)
                keep = all(self.truth(self.eval(c), c) for c in gen.ifs)
                y = self.eval(g.node.elt) if keep else None
                for nm in names:
                    if nm in shadow:
                        fr.env[nm] = shadow[nm]
                    else:
                        fr.env.pop(nm, None)
            finally:
                self.frames.pop()
            if keep:
                yield y

    def _comp(self, node, elt, as_list):
        if len(node.generators) != 1:
            self.unsupported(node, "nested comprehension")
        g = node.generators[0]
        it = self.eval(g.iter)
        seq = self.models.iterate(it, node)
        saved = dict(self.frame.env)
        try:
            if seq is None:
                # map over an opaque sequence: keep the element expression symbolic
                x = self.models.opaque_element(it, node)
                self.assign(g.target, x)
                for c in g.ifs:
                    self.truth(self.eval(c), c)
                y = self.eval(elt)
                return ListV(None, tag="comp", opaque_elem=y)
            out = []
            for x in seq:
                self.assign(g.target, x)
                if all(self.truth(self.eval(c), c) for c in g.ifs):
                    out.append(self.eval(elt))
            return ListV(out)
        finally:
            self.frame.env.clear()
            self.frame.env.update(saved)

    def ex_Starred(self, node):
        self.unsupported(node, "starred")


def _load(target):
    t = ast.parse(src_of(target), mode="eval").body
    ast.copy_location(t, target)
    for n in ast.walk(t):
        if hasattr(target, "lineno"):
            n.lineno = target.lineno
    return t


def _assigned_names(loop):
    names = set()
    for n in ast.walk(loop):
        if isinstance(n, ast.Name) and isinstance(n.ctx, ast.Store):
            names.add(n.id)
    return names
