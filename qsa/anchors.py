"""Anchoring policy (DESIGN §2.1): rules are anchored on public API names; private helpers are
located through the call structure of those public functions, so renaming or splitting a private
helper does not break a rule.  A public anchor that vanished is an AnalysisError (exit 2)."""
from __future__ import annotations

import ast
from typing import List, Optional

from .loader import AnalysisError, FuncInfo, Program, src_of


def _calls(fi: FuncInfo):
    for n in ast.walk(fi.node):
        if isinstance(n, ast.Call):
            yield n


def _with_private_helpers(prog: Program, fi: FuncInfo, ci) -> List[FuncInfo]:
    """`fi` followed by the private methods of its class it reaches through self./cls. calls (helper extraction
    keeps an anchor findable)."""
    out, todo = [], [fi]
    while todo:
        f = todo.pop(0)
        if any(f is g for g in out):
            continue
        out.append(f)
        for n in _calls(f):
            if isinstance(n.func, ast.Attribute) and isinstance(n.func.value, ast.Name) and \
                    n.func.value.id in ("self", "cls") and n.func.attr.startswith("_") and \
                    not n.func.attr.startswith("__"):
                g = prog.lookup(ci, n.func.attr)
                if g is not None and g.node is not None:
                    todo.append(g)
    return out


def _direct_callees(prog: Program, f: FuncInfo) -> List[FuncInfo]:
    """Package functions a function calls directly by name (module-level functions, also imported ones) or through
    self./cls. (methods of its class)."""
    out = []
    for n in _calls(f):
        g = None
        if isinstance(n.func, ast.Name):
            r = prog.resolve_global(f.module, n.func.id)
            if r and r[0] == "func":
                g = r[1]
        elif isinstance(n.func, ast.Attribute) and isinstance(n.func.value, ast.Name) and n.func.value.id in ("self", "cls") \
                and f.cls is not None:
            g = prog.lookup(f.cls, n.func.attr)
        elif isinstance(n.func, ast.Attribute) and isinstance(n.func.value, ast.Name):
            r = prog.resolve_global(f.module, n.func.value.id)
            if r and r[0] == "module" and r[1] in prog.modules:        # module.function(...)
                r2 = prog.resolve_global(prog.modules[r[1]], n.func.attr)
                if r2 and r2[0] == "func":
                    g = r2[1]
        if g is not None and getattr(g, "node", None) is not None and not any(g is x for x in out):
            out.append(g)
    return out


def _reaches(prog: Program, f: FuncInfo, pred, depth=4) -> bool:
    seen, todo = [], [(f, 0)]
    while todo:
        g, d = todo.pop(0)
        if any(g is x for x in seen):
            continue
        seen.append(g)
        if pred(g):
            return True
        if d < depth:
            todo.extend((h, d + 1) for h in _direct_callees(prog, g))
    return False


def unit_creator(prog: Program) -> FuncInfo:
    """The metaclass method through which new_unit creates units (today: QuantityMeta._make_unit): the private method
    of the metaclass, called from QuantityMeta.new_unit on the class, from which the allocation of the unit object
    (a raw `__new__` call) is reached - wherever in new_unit the call sits and however deep the allocation is."""
    nu = prog.method("QuantityMeta", "new_unit")
    qm = prog.cls("QuantityMeta")

    def allocates(f: FuncInfo) -> bool:
        return any(isinstance(n.func, ast.Attribute) and n.func.attr == "__new__" for n in _calls(f))
    for f in _with_private_helpers(prog, nu, qm)[1:]:
        if _reaches(prog, f, allocates):
            return f
    if allocates(nu):
        return nu
    raise AnalysisError("anchor vanished: unit creation helper called from QuantityMeta.new_unit")


def ref_unit_creator(prog: Program) -> FuncInfo:
    """The helper QuantityMeta.__new__ uses to create the reference unit (today: _make_ref_unit)."""
    mnew = prog.method("QuantityMeta", "__new__")
    qm = prog.cls("QuantityMeta")
    creator = unit_creator(prog)
    for n in _calls(mnew):
        if isinstance(n.func, ast.Attribute) and isinstance(n.func.value, ast.Name):
            f = prog.lookup(qm, n.func.attr)
            if f is not None and f.name not in ("__new__", "__init__"):
                if f is creator or any(isinstance(c.func, ast.Attribute) and c.func.attr == creator.name for c in _calls(f)):
                    return f
    raise AnalysisError("anchor vanished: reference-unit creation in QuantityMeta.__new__")


def factor_method(prog: Program) -> FuncInfo:
    """The Unit method Quantity.equiv_amount asks for the conversion factor (today: Unit._get_factor)."""
    ea = prog.method("Quantity", "equiv_amount")
    uc = prog.cls("Unit")
    qc = prog.cls("Quantity")
    in_try, anywhere = [], []
    for fi in _with_private_helpers(prog, ea, qc):
        for t in ast.walk(fi.node):
            # the factor is asked for inside the try that translates TypeError into IncompatibleUnitsError
            if isinstance(t, ast.Try):
                for n in ast.walk(ast.Module(body=t.body, type_ignores=[])):
                    if isinstance(n, ast.Call) and isinstance(n.func, ast.Attribute):
                        f = prog.lookup(uc, n.func.attr)
                        if f is not None and f.kind == "method" and prog.lookup(qc, n.func.attr) is None:
                            in_try.append(f)
        for n in _calls(fi):
            if isinstance(n.func, ast.Attribute):
                f = prog.lookup(uc, n.func.attr)
                if f is not None and f.kind == "method" and not f.name.startswith("__") and \
                        prog.lookup(qc, n.func.attr) is None:
                    anywhere.append(f)
    cands = in_try or anywhere
    if cands:
        return cands[0]
    raise AnalysisError("anchor vanished: conversion-factor method used by Quantity.equiv_amount")


def _is_registry_global(prog: Program, module, name: str) -> bool:
    r = prog.resolve_global(module, name)
    if not r or r[0] != "expr" or not isinstance(r[2], ast.Call):
        return False
    f = r[2].func
    base = f.value if isinstance(f, ast.Subscript) else f
    if not isinstance(base, ast.Name):
        return False
    t = prog.resolve_global(r[1], base.id)
    if t and t[0] == "expr" and isinstance(t[2], ast.Subscript) and isinstance(t[2].value, ast.Name):
        t = prog.resolve_global(t[1], t[2].value.id)
    return bool(t and t[0] == "class" and t[1].name == "DefinedItemRegistry")


def term_resolver(prog: Program) -> FuncInfo:
    """The function Unit.__mul__ uses to resolve a unit term to (factor, unit) (today: _amnt_and_unit_from_term):
    the first function on the way from Unit.__mul__ (breadth first over the calls it makes) that takes a term and
    from which a look-up in the term -> unit directory (a registry object at module level) is reached."""
    um = prog.method("Unit", "__mul__")

    def reads_directory(f: FuncInfo) -> bool:
        for n in ast.walk(f.node):
            if isinstance(n, ast.Subscript) and isinstance(n.value, ast.Name) and _is_registry_global(prog, f.module, n.value.id):
                return True
        return False

    def takes_term(f: FuncInfo) -> bool:
        a = f.node.args
        params = a.posonlyargs + a.args
        if f.cls is not None and params:
            params = params[1:]
        if len(params) != 1:
            return False
        ann = src_of(params[0].annotation) if params[0].annotation is not None else params[0].arg
        return any(k in ann for k in ("Term", "DefT", "term"))
    seen, todo = [], [(um, 0)]
    while todo:
        g, d = todo.pop(0)
        if any(g is x for x in seen):
            continue
        seen.append(g)
        if g is not um and g.cls is None and takes_term(g) and _reaches(prog, g, reads_directory, depth=3):
            return g
        if d < 4:
            todo.extend((h, d + 1) for h in _direct_callees(prog, g))
    raise AnalysisError("anchor vanished: term resolution helper used by Unit.__mul__")


def rate_lookup(prog: Program) -> FuncInfo:
    """The MoneyConverter method get_rate uses for one table lookup (today: _get_rate)."""
    mc = prog.cls("MoneyConverter")
    # the method that subscripts the rate table (reads self._rate_dict[...]); update() only writes it
    for name, f in mc.methods.items():
        if f.alias_of or name in ("update", "__init__"):
            continue
        for n in ast.walk(f.node):
            if isinstance(n, ast.Subscript) and isinstance(n.ctx, ast.Load) and \
                    isinstance(n.value, ast.Attribute) and n.value.attr == "_rate_dict":
                return f
    raise AnalysisError("anchor vanished: method reading MoneyConverter's rate table")


def date_to_validity_table(prog: Program):
    """The class-level table mapping a validity kind to a function of a date (today: _date2validity)."""
    mc = prog.cls("MoneyConverter")
    for name, e in mc.attrs.items():
        if isinstance(e, ast.Dict) and e.values and all(isinstance(v, ast.Lambda) for v in e.values):
            return name, e
    raise AnalysisError("anchor vanished: kind -> (date -> period) table of MoneyConverter")


def table_lookup_method(prog: Program) -> FuncInfo:
    """The TableConverter method Converter.__call__ delegates to (today: _get_factor)."""
    call = prog.method("Converter", "__call__")
    tc = prog.cls("TableConverter")
    for n in _calls(call):
        if isinstance(n.func, ast.Attribute) and src_of(n.func.value) == "self":
            f = prog.lookup(tc, n.func.attr)
            if f is not None:
                return f
    raise AnalysisError("anchor vanished: lookup method Converter.__call__ delegates to")


UNIT_CREATION_ENTRY_POINTS = {
    # public API through which units come into existence; private helpers reachable only from these are owners too
    "QuantityMeta.__new__": {"=", "[]="}, "QuantityMeta.__init__": {"=", "[]="},
    "QuantityMeta.new_unit": {"=", "[]="}, "QuantityMeta.derive_unit_from": {"=", "[]="},
    "MoneyMeta.new_unit": {"=", "[]="}, "MoneyMeta.register_currency": {"=", "[]="},
    "ClassWithDefinitionMeta.__new__": {"="},
}


def converter_registry_attr(prog: Program) -> str:
    """Name of the class attribute that holds a type's registered converters: the one attribute of the class (not a
    method) that register_converter, remove_converter and registered_converters all use - however they use it."""
    meta = prog.cls("QuantityMeta")
    common = None
    for mname in ("register_converter", "remove_converter", "registered_converters"):
        fi = prog.method("QuantityMeta", mname)
        used = set()
        for f in _with_private_helpers(prog, fi, meta):
            a = f.node.args
            params = [p.arg for p in a.posonlyargs + a.args]
            me = params[0] if params else None
            for n in ast.walk(f.node):
                if isinstance(n, ast.Attribute) and isinstance(n.value, ast.Name) and n.value.id == me \
                        and prog.lookup(meta, n.attr) is None and not (n.attr.startswith("__") and n.attr.endswith("__")):
                    used.add(n.attr)
        common = used if common is None else (common & used)
    if not common or len(common) != 1:
        raise AnalysisError(f"anchor vanished: the class attribute shared by register_converter / remove_converter / "
                            f"registered_converters (candidates: {sorted(common or ())})")
    return next(iter(common))


def symbol_directories(prog: Program):
    """Names of the module-level directories into which unit creation stores the new unit under a key (today:
    _SYMBOL_UNIT_MAP): item stores into a module-level name by the unit creator or a function it reaches."""
    cached = getattr(prog, "_symbol_dirs", None)
    if cached is not None:
        return cached
    mk = unit_creator(prog)
    seen, todo, names = [], [(mk, 0)], set()
    while todo:
        f, d = todo.pop(0)
        if any(f is x for x in seen):
            continue
        seen.append(f)
        a = f.node.args
        params = {p.arg for p in a.posonlyargs + a.args + a.kwonlyargs}
        for n in ast.walk(f.node):
            tgts = []
            if isinstance(n, ast.Assign):
                tgts = n.targets
            elif isinstance(n, ast.Call) and isinstance(n.func, ast.Attribute) and n.func.attr == "setdefault":
                tgts = [ast.Subscript(value=n.func.value, slice=ast.Constant(0), ctx=ast.Store())]
            for t in tgts:
                if isinstance(t, ast.Subscript) and isinstance(t.value, ast.Name) and t.value.id not in params:
                    r = prog.resolve_global(f.module, t.value.id)
                    if r and r[0] == "expr" and (isinstance(r[2], ast.Dict) or (isinstance(r[2], ast.Call) and
                                                                               src_of(r[2].func) == "dict")):
                        names.add(t.value.id)
        if d < 3:
            todo.extend((g, d + 1) for g in _direct_callees(prog, f))
    prog._symbol_dirs = names
    return names


def _local_names(fi: FuncInfo):
    a = fi.node.args
    params = {p.arg for p in a.posonlyargs + a.args + a.kwonlyargs} | ({a.vararg.arg} if a.vararg else set()) | \
        ({a.kwarg.arg} if a.kwarg else set())
    return {n.id for n in ast.walk(fi.node) if isinstance(n, ast.Name) and isinstance(n.ctx, ast.Store)} - params


def creator_args(prog: Program, creator: FuncInfo, caller: FuncInfo):
    """-> build(cls, symbol, name, definition) -> (args, kwargs) for a private unit-creating method, in the order and
    under the keywords its public caller uses: the caller's own parameters `symbol` and `name` are API; whatever else
    it passes is the definition."""
    call = None
    for n in _calls(caller):
        if (isinstance(n.func, ast.Attribute) and n.func.attr == creator.name and isinstance(n.func.value, ast.Name)) or \
                (isinstance(n.func, ast.Name) and n.func.id == creator.name):
            call = n
    if call is None:
        raise AnalysisError(f"anchor vanished: call of {creator.qualname} in {caller.qualname}")
    a_ = caller.node.args
    params = {p.arg for p in a_.posonlyargs + a_.args + a_.kwonlyargs}

    def words(e):
        out = []
        for n in ast.walk(e):
            if isinstance(n, ast.Name):
                out.append(n.id)
            elif isinstance(n, ast.Constant) and isinstance(n.value, str):
                out.append(n.value)
        return out

    def role(e):
        # the public parameters (or the string keys popped from **kwds) an argument is computed from say what it
        # is; the names of local variables do not
        locs = _local_names(caller)
        if isinstance(e, ast.Name) and e.id in locs:
            ws = []
            for n in ast.walk(caller.node):
                if isinstance(n, ast.Assign) and any(isinstance(t, ast.Name) and t.id == e.id for t in n.targets):
                    ws += words(n.value)
                elif isinstance(n, ast.AnnAssign) and isinstance(n.target, ast.Name) and n.target.id == e.id and n.value:
                    ws += words(n.value)
        else:
            ws = words(e)
        ws = [w for w in ws if w not in locs]
        if any("symbol" in w for w in ws):
            return "symbol"
        if any("name" in w for w in ws):
            return "name"
        return "definition"
    pos = [role(a) for a in call.args]
    kws = {k.arg: role(k.value) for k in call.keywords if k.arg}

    def build(cls, symbol, name, definition):
        vals = {"symbol": symbol, "name": name, "definition": definition}
        return [cls] + [vals[r] for r in pos], {k: vals[r] for k, r in kws.items()}
    return build


def unit_creator_args(prog: Program):
    return creator_args(prog, unit_creator(prog), prog.method("QuantityMeta", "new_unit"))


def ref_unit_creator_args(prog: Program):
    return creator_args(prog, ref_unit_creator(prog), prog.method("QuantityMeta", "__new__"))
