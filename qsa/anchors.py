"""Anchoring policy (DESIGN §2.1): rules are anchored on public API names; private helpers are
located through the call structure of those public functions, so renaming or splitting a private
helper does not break a rule.  A public anchor that vanished is an AnalysisError (exit 2)."""
from __future__ import annotations

import ast
from typing import List, Optional

from .loader import AnalysisError, FuncInfo, Program, src_of


def _calls(fi: FuncInfo):
    for n in ast.walk(fi.node):
        if isinstance(n, ast.Call):
            yield n


def _with_private_helpers(prog: Program, fi: FuncInfo, ci) -> List[FuncInfo]:
    """`fi` followed by the private methods of its class it reaches through self./cls. calls (helper extraction
    keeps an anchor findable)."""
    out, todo = [], [fi]
    while todo:
        f = todo.pop(0)
        if any(f is g for g in out):
            continue
        out.append(f)
        for n in _calls(f):
            if isinstance(n.func, ast.Attribute) and isinstance(n.func.value, ast.Name) and \
                    n.func.value.id in ("self", "cls") and n.func.attr.startswith("_") and \
                    not n.func.attr.startswith("__"):
                g = prog.lookup(ci, n.func.attr)
                if g is not None and g.node is not None:
                    todo.append(g)
    return out


def unit_creator(prog: Program) -> FuncInfo:
    """The metaclass method through which new_unit creates units (today: QuantityMeta._make_unit): the function,
    reached from QuantityMeta.new_unit through calls on the class, that allocates the unit object (a raw
    `__new__` call) - wherever in new_unit the call sits."""
    nu = prog.method("QuantityMeta", "new_unit")
    qm = prog.cls("QuantityMeta")

    def allocates(f: FuncInfo) -> bool:
        return any(isinstance(n.func, ast.Attribute) and n.func.attr == "__new__" for n in _calls(f))
    reach = _with_private_helpers(prog, nu, qm)
    for f in reach[1:]:
        if allocates(f):
            return f
    if allocates(nu):
        return nu
    raise AnalysisError("anchor vanished: unit creation helper called from QuantityMeta.new_unit")


def ref_unit_creator(prog: Program) -> FuncInfo:
    """The helper QuantityMeta.__new__ uses to create the reference unit (today: _make_ref_unit)."""
    mnew = prog.method("QuantityMeta", "__new__")
    qm = prog.cls("QuantityMeta")
    creator = unit_creator(prog)
    for n in _calls(mnew):
        if isinstance(n.func, ast.Attribute) and isinstance(n.func.value, ast.Name):
            f = prog.lookup(qm, n.func.attr)
            if f is not None and f.name not in ("__new__", "__init__"):
                if f is creator or any(isinstance(c.func, ast.Attribute) and c.func.attr == creator.name for c in _calls(f)):
                    return f
    raise AnalysisError("anchor vanished: reference-unit creation in QuantityMeta.__new__")


def factor_method(prog: Program) -> FuncInfo:
    """The Unit method Quantity.equiv_amount asks for the conversion factor (today: Unit._get_factor)."""
    ea = prog.method("Quantity", "equiv_amount")
    uc = prog.cls("Unit")
    qc = prog.cls("Quantity")
    in_try, anywhere = [], []
    for fi in _with_private_helpers(prog, ea, qc):
        for t in ast.walk(fi.node):
            # the factor is asked for inside the try that translates TypeError into IncompatibleUnitsError
            if isinstance(t, ast.Try):
                for n in ast.walk(ast.Module(body=t.body, type_ignores=[])):
                    if isinstance(n, ast.Call) and isinstance(n.func, ast.Attribute):
                        f = prog.lookup(uc, n.func.attr)
                        if f is not None and f.kind == "method" and prog.lookup(qc, n.func.attr) is None:
                            in_try.append(f)
        for n in _calls(fi):
            if isinstance(n.func, ast.Attribute):
                f = prog.lookup(uc, n.func.attr)
                if f is not None and f.kind == "method" and not f.name.startswith("__") and \
                        prog.lookup(qc, n.func.attr) is None:
                    anywhere.append(f)
    cands = in_try or anywhere
    if cands:
        return cands[0]
    raise AnalysisError("anchor vanished: conversion-factor method used by Quantity.equiv_amount")


def term_resolver(prog: Program) -> FuncInfo:
    """The module function Unit.__mul__ uses to resolve a unit term to (factor, unit)
    (today: _amnt_and_unit_from_term)."""
    um = prog.method("Unit", "__mul__")
    mod = prog.modules["quantity"]
    in_try, anywhere = [], []
    for fi in _with_private_helpers(prog, um, prog.cls("Unit")):
        for n in ast.walk(fi.node):
            if isinstance(n, ast.Try):
                for c in ast.walk(ast.Module(body=n.body, type_ignores=[])):
                    if isinstance(c, ast.Call) and isinstance(c.func, ast.Name) and c.func.id in mod.functions:
                        in_try.append(mod.functions[c.func.id])
            elif isinstance(n, ast.Call) and isinstance(n.func, ast.Name) and n.func.id in mod.functions and \
                    n.func.id.startswith("_"):
                anywhere.append(mod.functions[n.func.id])
    cands = in_try or anywhere
    if cands:
        return cands[0]
    raise AnalysisError("anchor vanished: term resolution helper used by Unit.__mul__")


def rate_lookup(prog: Program) -> FuncInfo:
    """The MoneyConverter method get_rate uses for one table lookup (today: _get_rate)."""
    mc = prog.cls("MoneyConverter")
    # the method that subscripts the rate table (reads self._rate_dict[...]); update() only writes it
    for name, f in mc.methods.items():
        if f.alias_of or name in ("update", "__init__"):
            continue
        for n in ast.walk(f.node):
            if isinstance(n, ast.Subscript) and isinstance(n.ctx, ast.Load) and \
                    isinstance(n.value, ast.Attribute) and n.value.attr == "_rate_dict":
                return f
    raise AnalysisError("anchor vanished: method reading MoneyConverter's rate table")


def date_to_validity_table(prog: Program):
    """The class-level table mapping a validity kind to a function of a date (today: _date2validity)."""
    mc = prog.cls("MoneyConverter")
    for name, e in mc.attrs.items():
        if isinstance(e, ast.Dict) and e.values and all(isinstance(v, ast.Lambda) for v in e.values):
            return name, e
    raise AnalysisError("anchor vanished: kind -> (date -> period) table of MoneyConverter")


def table_lookup_method(prog: Program) -> FuncInfo:
    """The TableConverter method Converter.__call__ delegates to (today: _get_factor)."""
    call = prog.method("Converter", "__call__")
    tc = prog.cls("TableConverter")
    for n in _calls(call):
        if isinstance(n.func, ast.Attribute) and src_of(n.func.value) == "self":
            f = prog.lookup(tc, n.func.attr)
            if f is not None:
                return f
    raise AnalysisError("anchor vanished: lookup method Converter.__call__ delegates to")


UNIT_CREATION_ENTRY_POINTS = {
    # public API through which units come into existence; private helpers reachable only from these are owners too
    "QuantityMeta.__new__": {"=", "[]="}, "QuantityMeta.__init__": {"=", "[]="},
    "QuantityMeta.new_unit": {"=", "[]="}, "QuantityMeta.derive_unit_from": {"=", "[]="},
    "MoneyMeta.new_unit": {"=", "[]="}, "MoneyMeta.register_currency": {"=", "[]="},
    "ClassWithDefinitionMeta.__new__": {"="},
}


def converter_registry_attr(prog: Program) -> str:
    """Name of the class attribute that holds a type's registered converters: the one attribute of the class (not a
    method) that register_converter, remove_converter and registered_converters all use - however they use it."""
    meta = prog.cls("QuantityMeta")
    common = None
    for mname in ("register_converter", "remove_converter", "registered_converters"):
        fi = prog.method("QuantityMeta", mname)
        used = set()
        for f in _with_private_helpers(prog, fi, meta):
            a = f.node.args
            params = [p.arg for p in a.posonlyargs + a.args]
            me = params[0] if params else None
            for n in ast.walk(f.node):
                if isinstance(n, ast.Attribute) and isinstance(n.value, ast.Name) and n.value.id == me \
                        and prog.lookup(meta, n.attr) is None and not (n.attr.startswith("__") and n.attr.endswith("__")):
                    used.add(n.attr)
        common = used if common is None else (common & used)
    if not common or len(common) != 1:
        raise AnalysisError(f"anchor vanished: the class attribute shared by register_converter / remove_converter / "
                            f"registered_converters (candidates: {sorted(common or ())})")
    return next(iter(common))
