"""C11 — money converter yields the right rate for every update history and date."""
from __future__ import annotations

import ast

from ..contracts import *  # noqa: F401,F403
from ..effects import CallGraph, check_ownership, inventory
from ..loader import AnalysisError, src_of
from ..models import DictV
from ..report import Result
from .c09 import exact_rate

TECHNIQUE = ("writer/reader agreement rules on validity kinds and key types; abstract interpretation of "
             "get_rate/_get_rate/__call__ with a currency-dimension domain; validate-before-mutate on update; "
             "ownership of the rate table")

KINDS = {"NoneType": "None", "int": "year", "tuple": "(year, month)", "date": "date"}


def mk_converter(c: Ctx, prog, vtype, dflt=None):
    ci = prog.cls("MoneyConverter")
    c.new_type("M", **FLAVORS["money"])
    base = c.unit("base", "M")
    tbl = DictV(tag="_rate_dict")
    tbl.rate_table = {}
    tbl.base_currency = base
    conv = ObjV(ci, "conv", {
        "_base_currency": base, "_rate_dict": tbl,
        "_type_of_validity": NONE if vtype is None else TypeV(vtype),
        "_get_dflt_effective_date": _date("dfltdate", fn=True)})
    return conv, base


def _date(tag, fn=False):
    o = OpaqueV(("fn:" if fn else "") + tag)
    o.kinds = {"date"} if not fn else set()
    return o


def validity_repr(v) -> str:
    if isinstance(v, NoneV):
        return "None"
    if isinstance(v, TupleV):
        return "(" + ", ".join(validity_repr(x) for x in v.items) + ")"
    if isinstance(v, OpaqueV):
        return v.tag
    return repr(v)


def period_form(v, given=None):
    """Abstract form of a stored validity period: None / year / (year, month) / date / ?..."""
    def comp(x, name):
        if isinstance(x, Num) and x.kind in ("int", "bool"):
            return "given"
        if isinstance(x, OpaqueV) and x.tag.endswith("." + name) and "date" in getattr(getattr(x, "attr_of", None), "kinds", ()):
            return x.tag[:-len(name) - 1]
        return None
    if isinstance(v, NoneV):
        return "None"
    if isinstance(v, TupleV):
        if len(v.items) == 2:
            y, m = comp(v.items[0], "year"), comp(v.items[1], "month")
            if y is not None and y == m:
                return "(year, month)"
        return "?" + validity_repr(v)
    if comp(v, "year") is not None:
        return "year"
    if isinstance(v, OpaqueV) and "date" in getattr(v, "kinds", ()):
        return "date"
    return "?" + validity_repr(v)


def judge_writer_reader(vkind):
    """R11.1: on every accepting path of update() the stored period has the form the reader computes for the
    kind update() records (the reader's forms per kind are established by R11.4), and a given period is stored
    unchanged."""
    def judge(o):
        st = o.state
        if o.kind == "raise":
            return None
        conv, given = o.args[0], o.args[1]
        tbl = conv.fields["_rate_dict"]
        K = conv.fields["_type_of_validity"]
        if not isinstance(K, TypeV) or K.name not in KINDS:
            return ("kind of validity recorded by update is not one the reader dispatches on", repr(K))
        for key, _val in tbl.items:
            if not (isinstance(key, TupleV) and len(key.items) == 2):
                return ("entry key is not (validity, currency)", repr(key))
            p = key.items[0]
            form = period_form(p)
            if form != KINDS[K.name]:
                return ("writer stores a period form the reader never computes",
                        f"stored period {validity_repr(p)} (form {form}) under kind {K.name}; for that kind the reader "
                        f"looks up {KINDS[K.name]}")
            if vkind == "str":
                n = [t.split("=")[1] for t in o.trace if t.startswith("len(split)")]
                want = {"1": "year", "2": "(year, month)", "3": "date"}.get(n[0]) if n else None
                if want is not None and form != want:
                    return ("period spelling mapped to the wrong period form",
                            f"a string of {n[0]} dash-separated part(s) is stored as {form}; contract {want}")
            elif vkind != "tuple":      # a tuple may be re-derived from the date it was validated with
                same = p is given or (isinstance(p, Num) and isinstance(given, Num) and st.norm(p.rf).equals(st.norm(given.rf))) \
                    or (isinstance(p, NoneV) and isinstance(given, NoneV)) \
                    or (isinstance(p, TupleV) and isinstance(given, TupleV) and len(p.items) == len(given.items)
                        and all(a is b or (isinstance(a, Num) and isinstance(b, Num) and st.norm(a.rf).equals(st.norm(b.rf)))
                                for a, b in zip(p.items, given.items)))
                if not same:
                    return ("given period not stored unchanged", f"given {validity_repr(given)}, stored {validity_repr(p)}")
        return None
    return judge


def run(prog, tier) -> Result:
    res = Result("C11")
    res.explanation = (
        "R11.1/2: on every accepting path of update() - for None, int, tuple, date and each string spelling - the "
        "stored period has the form ({None, year, (year, month), date}) the reader computes from a date for the "
        "kind update() records (reader forms per kind: R11.4), a given period is stored unchanged, and the currency "
        "component of the key is the Currency object the reader looks up. R11.3: get_rate is evaluated abstractly for all identity patterns of "
        "(base, unit, term): the returned rate's dimensioned value equals r(term)/r(unit) with r(base) = 1, in the "
        "requested direction, None when an entry is missing, and one for identical currencies. R11.4/6: _get_rate "
        "performs exactly one table lookup with the key computed from the effective date (default: the configured "
        "callable). R11.5: on every raising path of update() nothing has been written (kind mixing and invalid "
        "entries are rejected atomically). R11.7: __call__ = reported rate x amount, None => UnitConversionError. "
        "B1: _rate_dict/_type_of_validity have no other writer, so 'most recent entry wins' is dict semantics.")
    res.trusted = ["dict semantics (last write wins)", "date.fromisoformat validates period spellings (stdlib)"]
    res.assumptions = ["NOT decided: correctness of period spellings beyond their shape"]
    cr = CaseRunner(prog, res, max_depth=8 if tier == "quick" else 12)
    MC = lambda n: prog.method("MoneyConverter", n)

    # ---- R11.3 get_rate
    def setup_gr(vtype):
        def setup(c):
            conv, base = mk_converter(c, prog, vtype)
            u, t = c.unit("cu", "M"), c.unit("ct", "M")
            return [conv, u, t, _date("effdate")], {}
        return setup

    def r_of(st, base, cur) -> RF:
        if st.same_unit(base.uid, cur.uid) is True:
            return RF.const(1)
        uid = st.ufind(cur.uid)
        return RF.atom(("ta", "tbl:" + uid)) / RF.atom(("um", "tbl:" + uid))

    def judge_gr(o):
        st = o.state
        conv, u, t = o.args[0], o.args[1], o.args[2]
        base = conv.fields["_base_currency"]
        same = st.same_unit(u.uid, t.uid)
        missing = [k for k, present in conv.fields["_rate_dict"].rate_table.items() if not present]
        if o.kind == "raise":
            if same is True:
                return (exc_sig(o), "contract: a rate of one for a currency and itself")
            if getattr(o.exc, "tag", None) == "rate-validation":
                return None     # the computed rate itself is not representable (numeric clause of C09)
            return (exc_sig(o), "contract: rate or None")
        v = o.value
        if isinstance(v, NoneV):
            if conv.fields["_type_of_validity"] is NONE or missing:
                return None
            return ("None although all needed entries exist", "")
        if not isinstance(v, RateV):
            return ("returns neither rate nor None", repr(v))
        if st.same_unit(v.unit.uid, u.uid) is not True or st.same_unit(v.term.uid, t.uid) is not True:
            return ("rate in the wrong direction / between other currencies",
                    f"{st.ufind(v.unit.uid)}->{st.ufind(v.term.uid)}, requested {st.ufind(u.uid)}->{st.ufind(t.uid)}")
        want = r_of(st, base, t) / r_of(st, base, u)
        got = exact_rate(st, v)
        if not got.equals(want):
            return ("wrong rate", f"rate {got!r}, contract r(term)/r(unit) = {want!r}")
        if st.rnd_depth(v.ta.rf) > 1:
            return ("derived rate rounded more than once",
                    f"stored amount {st.norm(v.ta.rf)!r}: the quotient of the base rates is rounded to six digits twice")
        return None
    for vt in ("int", "NoneType", "tuple", "date", None):
        cr.run("R11.3", MC("get_rate"), f"get_rate, validity kind {KINDS.get(vt, 'unset')}", setup_gr(vt), judge_gr,
               min_paths=1 if vt is None else 6)

    from ..anchors import rate_lookup
    GETR = rate_lookup(prog)
    # ---- R11.4 / R11.6 _get_rate: one lookup, key from the effective date / default date
    def setup_getr(vtype, with_date):
        def setup(c):
            conv, base = mk_converter(c, prog, vtype)
            return [conv, c.unit("ct", "M"), _date("effdate") if with_date else NONE], {}
        return setup

    def judge_getr(vtype, with_date):
        d = "effdate" if with_date else "call(fn:dfltdate)"
        want = {"int": f"{d}.year", "tuple": f"({d}.year, {d}.month)", "date": d, "NoneType": "None"}[vtype]

        def judge(o):
            st = o.state
            reads = [e for e in st.effects if e[0] == "ratetable-read"]
            if o.kind == "raise" and o.exc.name != "KeyError":
                return (exc_sig(o), "contract: entry or KeyError")
            if len(reads) != 1:
                return ("not exactly one table lookup", f"{len(reads)} lookups")
            key = reads[0][2]
            if not (isinstance(key, TupleV) and len(key.items) == 2):
                return ("lookup key is not (validity, currency)", repr(key))
            got = validity_repr(key.items[0])
            if got != want:
                return ("lookup period not derived from the effective date", f"key period {got}, contract {want}")
            if not (isinstance(key.items[1], UnitV) and st.same_unit(key.items[1].uid, o.args[1].uid) is True):
                return ("lookup currency is not the requested currency", repr(key.items[1]))
            return None
        return judge
    for vt in ("int", "tuple", "date", "NoneType"):
        for wd in (True, False):
            cr.run("R11.4" if wd else "R11.6", GETR,
                   f"_get_rate kind {KINDS[vt]}, {'explicit' if wd else 'default'} date",
                   setup_getr(vt, wd), judge_getr(vt, wd))
    cr.run("R11.4", GETR, "_get_rate before any update", setup_getr(None, True),
           lambda o: expect_raise(o, ["KeyError"]))
    # constructor keeps the configured callable (default date.today)
    init = MC("__init__")

    def setup_init(given):
        def setup(c):
            c.new_type("M", **FLAVORS["money"])
            me = ObjV(prog.cls("MoneyConverter"), "conv")
            return [me, c.unit("base", "M")] + ([_date("cfg", fn=True)] if given else []), {}
        return setup

    def judge_init(given):
        def judge(o):
            if o.kind == "raise":
                return (exc_sig(o), "")
            f = o.args[0].fields
            g = f.get("_get_dflt_effective_date")
            if given:
                ok = g is o.args[2]
            else:
                ok = isinstance(g, FuncV) and g.name == "date.today"
            if not ok:
                return ("default effective date callable not stored", repr(g))
            if not isinstance(f.get("_rate_dict"), DictV) or f["_rate_dict"].items:
                return ("rate table not initialised empty", repr(f.get("_rate_dict")))
            if not isinstance(f.get("_type_of_validity"), NoneV):
                return ("kind of validity not initialised to None", repr(f.get("_type_of_validity")))
            return None
        return judge
    cr.run("R11.6", init, "__init__ with callable", setup_init(True), judge_init(True))
    cr.run("R11.6", init, "__init__ default", setup_init(False), judge_init(False))

    # ---- R11.7 __call__
    def setup_call(c):
        conv, base = mk_converter(c, prog, "int")
        m = c.qty("money", c.unit("cu", "M"))
        return [conv, m, c.unit("ct", "M"), _date("effdate")], {}

    def judge_call(o):
        st = o.state
        conv, m, t = o.args[0], o.args[1], o.args[2]
        base = conv.fields["_base_currency"]
        if o.kind == "raise":
            if o.exc.name == "UnitConversionError" or getattr(o.exc, "tag", None) == "rate-validation":
                return None
            if st.same_unit(m.unit.uid, t.uid) is True:
                return (exc_sig(o), "identical currencies")
            return (exc_sig(o), "contract: amount or UnitConversionError")
        want = st.norm(m.amount.rf) * r_of(st, base, t) / r_of(st, base, m.unit)
        v = o.value
        if not isinstance(v, Num):
            return ("returns non-number", repr(v))
        got = st.expand_rnd(v.rf)
        if not got.equals(want):
            return ("amount is not rate x amount", f"{got!r}, contract {want!r}")
        return None
    cr.run("R11.7", MC("__call__"), "__call__", setup_call, judge_call, min_paths=4)

    # __call__ without a date: the period looked up derives from the configured callable
    def setup_call_nodate(c):
        conv, base = mk_converter(c, prog, "int")
        m = c.qty("money", c.unit("cu", "M"))
        c.st.distinct_units("cu", "ct") if False else None
        return [conv, m, c.unit("ct", "M")], {}

    def judge_call_nodate(o):
        st = o.state
        reads = [e for e in st.effects if e[0] == "ratetable-read"]
        for e in reads:
            key = e[2]
            if isinstance(key, TupleV) and len(key.items) == 2:
                got = validity_repr(key.items[0])
                if got != "call(fn:dfltdate).year":
                    return ("default effective date does not come from the configured callable",
                            f"lookup period {got}, contract call(fn:dfltdate).year")
        return None
    cr.run("R11.6", MC("__call__"), "__call__ without date", setup_call_nodate, judge_call_nodate, min_paths=4)

    # ---- R11.2 / R11.5 update: key type, atomicity
    up = MC("update")

    def setup_up(vkind, spec_cur, prior):
        def setup(c):
            conv, base = mk_converter(c, prog, prior)
            conv.fields["_rate_dict"] = DictV(tag="_rate_dict")
            cur = c.unit("ct", "M") if spec_cur == "Currency" else StrV(None, "code")
            spec = TupleV([cur, c.num("ta", "dec"), c.num("um", "int")])
            v = {"None": NONE, "int": Num(RF.atom(("k", "year")), "int"),
                 "tuple": TupleV([Num(RF.atom(("k", "year")), "int"), Num(RF.atom(("k", "month")), "int")]),
                 "str": StrV(None, "period"), "date": _date("vdate"),
                 "float": c.num("x", "float")}[vkind]
            return [conv, v, ListV([spec])], {}
        return setup

    def judge_up(vkind, spec_cur):
        def judge(o):
            st = o.state
            conv = o.args[0]
            tbl = conv.fields["_rate_dict"]
            wrote_self = [e for e in st.effects if e[0] == "setattr" and e[1] is conv]
            wrote_tbl = bool(tbl.items) or getattr(tbl, "opaque_updates", None)
            if o.kind == "raise":
                if o.exc.name not in ("ValueError", "TypeError"):
                    return (exc_sig(o), "contract: ValueError")
                if wrote_self or wrote_tbl:
                    what = [e[2] for e in wrote_self] + (["_rate_dict"] if wrote_tbl else [])
                    return ("update rejected after the converter was changed",
                            f"{exc_sig(o)} after writing {what}")
                return None
            if vkind == "float":
                return ("invalid validity accepted", o.brief())
            if not tbl.items:
                return ("no entry stored", "")
            key, val = tbl.items[-1]
            if not (isinstance(key, TupleV) and len(key.items) == 2):
                return ("entry key is not (validity, currency)", repr(key))
            if not isinstance(val, RateV):
                return ("entry value is not an exchange rate", repr(val))
            kc = key.items[1]
            if not (isinstance(kc, UnitV) and st.same_unit(kc.uid, val.term.uid) is True):
                return ("entry keyed by the raw currency spec, not by the Currency the reader looks up",
                        f"key currency {kc!r}, rate's term currency {val.term!r}")
            if st.same_unit(val.unit.uid, conv.fields["_base_currency"].uid) is not True:
                return ("stored rate does not start from the base currency", repr(val))
            ta, um = RF.atom(("k", "ta")), RF.atom(("k", "um"))
            if not exact_rate(st, val).equals(ta / um):
                return ("stored rate differs from the given amount / multiple", repr(exact_rate(st, val)))
            return None
        return judge
    for vk in ("None", "int", "tuple", "str", "date", "float"):
        for sc in ("Currency", "str"):
            for prior in (None, "int"):
                cr.run("R11.5" if sc == "Currency" else "R11.2", up,
                       f"update validity {vk}, spec currency {sc}, {'first' if prior is None else 'later'} update",
                       setup_up(vk, sc, prior), judge_up(vk, sc))
    # R11.1: writer / reader agreement on period forms, decided on the evaluated table entries
    for vk in ("None", "int", "tuple", "str", "date"):
        for prior in (None, {"None": "NoneType", "str": "int"}.get(vk, vk)):
            cr.run("R11.1", up, f"writer/reader agreement, validity {vk}, {'first' if prior is None else 'later'} update",
                   setup_up(vk, "Currency", prior), judge_writer_reader(vk), min_paths=2)
    # R11.9: a later update of the same (period, currency) replaces the earlier rate
    from ..engine_a import run_body
    from ..report import Violation

    def twice_body(I, c):
        conv, base = mk_converter(c, prog, None)
        conv.fields["_rate_dict"] = DictV(tag="_rate_dict")
        cur = c.unit("ct", "M")
        v = Num(RF.atom(("k", "year")), "int")
        I.call_function(up, [conv, v, ListV([TupleV([cur, c.num("ta1", "dec"), c.num("um1", "int")])])], {})
        I.call_function(up, [conv, v, ListV([TupleV([cur, c.num("ta2", "dec"), c.num("um2", "int")])])], {})
        tbl = conv.fields["_rate_dict"]
        c.st.cur = cur
        return I.models.dict_get(tbl, TupleV([v, cur]), None)
    outs = run_body(prog, twice_body, max_depth=12)
    res.paths += len(outs)
    fails = []
    n_ok = 0
    for o in outs:
        if o.kind == "raise":
            if o.exc.name in ("ValueError", "TypeError"):
                continue
            fails.append(Violation("R11.9", "MoneyConverter.update", "same key updated twice", exc_sig(o), "", list(o.trace)))
            continue
        n_ok += 1
        v = o.value
        want = RF.atom(("k", "ta2")) / RF.atom(("k", "um2"))
        if not isinstance(v, RateV) or not exact_rate(o.state, v).equals(want):
            fails.append(Violation("R11.9", "MoneyConverter.update", "same key updated twice",
                                   "an earlier entry survives a later update of the same key",
                                   f"lookup after two updates gives {v!r}; contract: the rate of the second update",
                                   list(o.trace)))
    if n_ok == 0:
        fails.append(Violation("R11.9", "MoneyConverter.update", "same key updated twice", "no accepting path", ""))
    res.obligations += 1
    res.evaluations += max(1, len(outs))
    res.rules["R11.9"] = res.rules.get("R11.9", 0) + 1
    res.nontrivial_keys.add(("R11.9", "MoneyConverter.update", "same key updated twice"))
    if not fails:
        res.discharged += 1
    res.violations.extend(fails)

    # ---- B1 ownership
    writes = inventory(prog, ["quantity.money"])
    cg = CallGraph(prog)
    n = len(check_ownership(res, "R11.8", writes, "_rate_dict",
                            {"MoneyConverter.__init__": {"="}, "MoneyConverter.update": {"*"}}, cg))
    n += len(check_ownership(res, "R11.8", writes, "_type_of_validity",
                             {"MoneyConverter.__init__": {"="}, "MoneyConverter.update": {"="}}, cg))
    if n < 2:
        raise AnalysisError(f"R11.8: {n} writes of the converter state found (at least 2 expected)")

    res.require("R11.1", 6)
    res.require("R11.3", 5)
    res.require("R11.4", 5)
    res.require("R11.6", 6)
    res.require("R11.5", 12)
    res.require("R11.2", 12)
    return res
