"""C11 — money converter yields the right rate for every update history and date.

The converter is only ever built and changed through its own constructor and update(); what it answers is read
through get_rate / __call__.  Nothing here names how the rates are stored."""
from __future__ import annotations

from contextlib import contextmanager

from ..contracts import *  # noqa: F401,F403
from ..effects import CallGraph, check_ownership, inventory
from ..interp import Frame, SetupVerdict
from ..loader import AnalysisError
from ..models import DictV, NativeV
from ..report import Result
from .c09 import exact_rate

TECHNIQUE = ("abstract interpretation of update histories: converters are built by the evaluated constructor and "
             "update() calls (every validity kind and spelling, symbolic periods / amounts / multiples), then "
             "get_rate / __call__ are evaluated for dates inside and outside the stored periods and compared with "
             "a reference history model; rejected updates leave the evaluated object graph unchanged; ownership of "
             "the converter's fields")

KINDS = ("None", "year", "month", "date", "text1", "text2", "text3")


def _k(name):
    return Num(RF.atom(("k", name)), "int")


@contextmanager
def frame(I, prog):
    I.frames.append(Frame(None, prog.modules["quantity.money"] if "quantity.money" in prog.modules
                          else prog.modules["quantity"], None, {}))
    try:
        yield
    finally:
        I.frames.pop()


class Scenario:
    """One converter with a reference model of its update history."""

    def __init__(self, c: Ctx, prog, dflt="callable", like=None):
        self.c, self.prog, self.st, self.m, self.I = c, prog, c.st, c.m, c.m.I
        c.m.text_templates = True
        if like is not None:
            self.cur = like.cur         # a second converter over the same currencies
        else:
            c.new_type("M", **FLAVORS["money"])
            self.cur = {n: c.unit(n, "M") for n in ("base", "ca", "cb", "cn")}
            names = list(self.cur)
            for i, a in enumerate(names):
                for b in names[i + 1:]:
                    c.st.distinct_units(a, b)
            self.st.symbol_units = {"code_ca": self.cur["ca"], "code_cb": self.cur["cb"]}
        self.dflt_date = [None]
        self.dflt_calls = []
        self.hist = []          # (period, currency name, ta RF, um RF) in update order
        self.n_up = 0
        args = [self.cur["base"]]
        if dflt == "callable":
            def configured(a, k, n):
                self.dflt_calls.append(1)
                if self.dflt_date[0] is None:
                    raise AnalysisError("C11 scenario: default date requested but not configured")
                return self.dflt_date[0]
            args.append(NativeV(configured, "configured default date"))
        with frame(self.I, prog):
            try:
                self.conv = self.m.instantiate(prog.cls("MoneyConverter"), args, {}, None)
            except AbsRaise:
                raise AnalysisError("C11: MoneyConverter(base currency[, callable]) raises")
        self.st.scn = self

    # ---- periods
    def validity(self, kind, tag):
        """-> (value handed to update, period it denotes as (year, month, day) with None = unrestricted)"""
        Y, Mo, D = _k(tag + ".Y"), _k(tag + ".M"), _k(tag + ".D")
        self.valid_date(Y, Mo, D)
        if kind == "None":
            return NONE, (None, None, None)
        if kind == "year":
            return Y, (Y, None, None)
        if kind == "month":
            return TupleV([Y, Mo]), (Y, Mo, None)
        if kind == "date":
            return DateV(tag, Y, Mo, D), (Y, Mo, D)
        if kind == "text":
            s = StrV(None, tag)
            return s, s         # the period depends on how many dash-separated fields the text has (decided on the path)
        if kind in ("text1", "text2", "text3"):
            # a text of exactly 1 / 2 / 3 dash-separated fields: a year, a year and a month, a date
            s = StrV(None, tag)
            s.n_fields = ("-", int(kind[-1]))
            return s, s
        if kind == "float":
            return self.c.num(tag + ".x", "float"), None
        if kind in ("year 0", "year 10000"):
            return Num(RF.const(int(kind.split()[1])), "int"), None
        if kind in ("month 0", "month 13"):
            return TupleV([Y, Num(RF.const(int(kind.split()[1])), "int")]), None
        raise AnalysisError(kind)

    def valid_date(self, y, m, d):
        """The scenario states: (y, m, d) is a date that exists (so a period built from it is a valid period)."""
        known = getattr(self.st, "valid_date_parts", None)
        if known is None:
            known = self.st.valid_date_parts = set()
        for pos, x in enumerate((y, m, d)):
            known.add((repr(self.st.norm(x.rf)), pos))

    judge_rejections = False      # C11 itself judges a rejected valid period; other properties drop such paths

    def stated_valid(self, period):
        """All restricted components of the period are stated to be those of an existing date."""
        if not isinstance(period, tuple):
            return False
        known = getattr(self.st, "valid_date_parts", None) or set()
        return all(x is None or (repr(self.st.norm(x.rf)), pos) in known for pos, x in enumerate(period))

    def date_rejected(self, since):
        return any(t in ("date()=ValueError", "fromisoformat=ValueError") for t in self.st.oracle.trace[since:])

    def shifted(self, kind, tag, base_tag, what):
        """A validity of the same kind as `base_tag`'s, for another period: what = 'next' (last component + 1) or
        'year' (another year, same remaining components)."""
        Y, Mo, D = _k(base_tag + ".Y"), _k(base_tag + ".M"), _k(base_tag + ".D")
        one = Num(RF.const(1), "int")
        add = lambda x: Num(x.rf + one.rf, "int")
        if what == "year":
            Y = add(Y)
        elif kind == "year":
            Y = add(Y)
        elif kind == "month":
            Mo = add(Mo)
        else:
            D = add(D)
        if kind == "year":
            return Y, (Y, None, None)
        if kind == "month":
            return TupleV([Y, Mo]), (Y, Mo, None)
        return DateV(tag, Y, Mo, D), (Y, Mo, D)

    def text_period(self, s):
        nf = getattr(s, "n_fields", None)
        if nf is None or nf[0] != "-" or not 1 <= nf[1] <= 3:
            raise Infeasible
        comps = [_k(f"{s.tag}.f{i}") for i in range(nf[1])]
        return tuple(comps + [None] * (3 - len(comps)))

    # ---- history
    def update(self, validity, period, specs, spec_as="Currency", must_accept=True, tag=""):
        """specs: currency names; amounts / multiples are fresh symbols.  Returns False when update() raised."""
        self.n_up += 1
        rows = []
        spec_vals = []
        for n in specs:
            ta, um = self.c.num(f"ta{tag}{self.n_up}_{n}", "dec"), self.c.num(f"um{tag}{self.n_up}_{n}", "int")
            curv = self.cur[n] if spec_as == "Currency" else StrV(None, "code_" + n)
            spec_vals.append(TupleV([curv, ta, um]))
            rows.append((n, ta.rf, um.rf))
        up = self.prog.method("MoneyConverter", "update")
        n_tr = len(self.st.oracle.trace)
        with frame(self.I, self.prog):
            try:
                self.I.call_function(up, [self.conv, validity, ListV(spec_vals)], {})
            except AbsRaise as ex:
                if must_accept and self.stated_valid(period) and self.date_rejected(n_tr):
                    # the scenario states that the period exists; whatever the update validated, it was not that period
                    if Scenario.judge_rejections:
                        raise SetupVerdict("valid period rejected",
                                           f"update() for the period {period!r}, which the scenario states to exist, can raise "
                                           f"{ex.exc.name if hasattr(ex, 'exc') else 'an exception'} from the date check: "
                                           "it validates something else than the period given")
                if must_accept:
                    raise Infeasible        # invalid period / amount on this path: not part of the history
                return False
        if isinstance(period, StrV):
            period = self.text_period(period)
        for n, ta, um in rows:
            self.hist.append((period, n, ta, um))
        return True

    # ---- dates
    def date_in(self, period, tag="eff", bump=None):
        """A date inside `period` (bump=None) or outside it: bump='next' moves the last restricted component,
        bump='year' the year."""
        comps = list(period)
        last = max((i for i, x in enumerate(comps) if x is not None), default=None)
        if bump is not None:
            if last is None:
                raise AnalysisError("an unrestricted period has no outside")
            i = 0 if bump == "year" else last
            comps[i] = Num(comps[i].rf + RF.const(1), "int")
        names = ("year", "month", "day")
        vals = [x if x is not None else _k(f"{tag}.{names[i]}") for i, x in enumerate(comps)]
        if bump is None:
            self.valid_date(*vals)
        return DateV(tag, *vals)

    def contains(self, period, d: DateV):
        for p, x in zip(period, (d.y, d.m, d.d)):
            if p is None:
                continue
            diff = self.st.norm(p.rf - x.rf)
            if diff.is_const():
                if diff.const_value() != 0:
                    return False
                continue
            t = known_truth(self.st, CmpV("==", p, x))
            if t is None:
                raise AnalysisError(f"C11 scenario: cannot tell whether {x.rf!r} is in period component {p.rf!r}")
            if not t:
                return False
        return True

    def r_of(self, name, d: DateV):
        """Reference: rate of currency `name` from the base currency effective at d (None = no entry)."""
        if name == "base":
            return RF.const(1)
        for period, n, ta, um in reversed(self.hist):
            if n == name and self.contains(period, d):
                return ta / um
        return None

    def name_of(self, u: UnitV):
        for n, v in self.cur.items():
            if self.st.same_unit(v.uid, u.uid) is True:
                return n
        return None


def reader_setup_for(prog, kind, pair, where, how, spec_as="Currency", call=False):
    """where: in / next / year; how: explicit / default"""
    def setup(c):
        s = Scenario(c, prog)
        val, period = s.validity(kind, "p")
        s.update(val, period, ["ca", "cb"], spec_as=spec_as)
        period = s.hist[-1][0]
        if where != "in" and all(p is None for p in period):
            raise Infeasible
        bump = None if where == "in" else where
        if bump == "year" and period[1] is None:
            raise Infeasible        # a year period has no "same month of another year"
        s.eff = s.date_in(period, bump=bump)
        s.want_pair = pair
        s.explicit_date = how == "explicit"
        if how == "explicit":
            # the configured callable would report a date outside the period: it must not be consulted
            s.dflt_date[0] = s.date_in(period, tag="dflt", bump="next") if any(p is not None for p in period) else None
            date_args = [s.eff]
        else:
            s.dflt_date[0] = s.eff
            date_args = []
        if call:
            s.money = c.qty("money", s.cur[pair[0]])
            return [s.conv, s.money, s.cur[pair[1]]] + date_args, {}
        return [s.conv, s.cur[pair[0]], s.cur[pair[1]]] + date_args, {}
    return setup


def snapshot(st, v, depth=0, seen=None):
    """Structure of an evaluated object graph, for before / after comparison."""
    seen = seen if seen is not None else {}
    if depth > 8:
        return "..."
    if isinstance(v, ObjV):
        if id(v) in seen:
            return ("ref", seen[id(v)])
        seen[id(v)] = len(seen)
        return ("obj", v.ci.name if v.ci else "?", tuple(sorted((k, snapshot(st, x, depth + 1, seen)) for k, x in v.fields.items())))
    if isinstance(v, DictV):
        return ("dict", tuple((snapshot(st, k, depth + 1, seen), snapshot(st, x, depth + 1, seen)) for k, x in v.items),
                repr(getattr(v, "opaque_updates", None)))
    if isinstance(v, ListV):
        return ("list", tuple(snapshot(st, x, depth + 1, seen) for x in v.items) if v.items is not None else v.tag)
    if isinstance(v, TupleV):
        return ("tuple", tuple(snapshot(st, x, depth + 1, seen) for x in v.items))
    if isinstance(v, Num):
        return ("num", st.norm(v.rf).key())
    if isinstance(v, UnitV):
        return ("unit", st.ufind(v.uid))
    if isinstance(v, RateV):
        return ("rate", id(v))
    if isinstance(v, DateV):
        return ("date", tuple(st.norm(x.rf).key() for x in (v.y, v.m, v.d)))
    if isinstance(v, TypeV):
        return ("type", v.name)
    if isinstance(v, NoneV):
        return "None"
    if isinstance(v, StrV):
        return ("str", v.const if v.const is not None else v.tag)
    return ("other", type(v).__name__, getattr(v, "name", None) or id(v))


def run(prog, tier) -> Result:
    res = Result("C11")
    Scenario.judge_rejections = True
    res.explanation = (
        "Converters are built by evaluating the constructor and sequences of update() calls with symbolic periods, "
        "amounts and unit multiples - validity given as None, year, (year, month), date and as text of one, two or "
        "three dash-separated fields, currencies given as Currency or as code - and a reference model of the "
        "history is kept beside them. R11.3: get_rate is evaluated for ordered pairs over {base, two currencies "
        "with entries, one without} and effective dates inside the stored period, in the next period, in the same "
        "month/day of another year: the result is the stored base rate, its inverse, the quotient of two base "
        "rates (rounded once), None when an entry is missing for that date, one for identical currencies. "
        "R11.1/R11.2: the same for each spelling of the period and for currencies given by code. R11.9/R11.4: "
        "two-update histories - same period (the later entry wins) and neighbouring periods (each date sees its "
        "own period only). R11.6: without a date the configured callable (default date.today) supplies it. "
        "R11.5: every rejected update (invalid period, other kind of validity, invalid rate in a later spec) leaves "
        "the evaluated converter object graph exactly as it was, and such updates are rejected. R11.7: __call__ = "
        "reported rate x amount, UnitConversionError when there is no rate. R11.8: the fields the constructor "
        "initialises have no writer besides the constructor and update().")
    res.trusted = ["dict semantics (last write wins, equal keys hash alike)",
                   "date.fromisoformat accepts exactly YYYY-MM-DD texts and date(y, m, d) the same dates (stdlib)"]
    res.assumptions = ["texts of periods are modelled by their dash-separated fields; which digit strings the "
                       "standard library accepts as year/month/day is not decided here"]
    cr = CaseRunner(prog, res, max_depth=10 if tier == "quick" else 14)
    MC = lambda n: prog.method("MoneyConverter", n)
    GET, CALL, UP = MC("get_rate"), MC("__call__"), MC("update")

    PAIRS = [("base", "ca"), ("ca", "base"), ("ca", "cb"), ("cb", "ca"), ("ca", "ca"), ("base", "cn"), ("cn", "ca"), ("ca", "cn")]
    FEW = [("base", "ca"), ("ca", "cb")]

    # ------------------------------------------------------------------ reader judges
    def judge_rate(o):
        st = o.state
        s: Scenario = st.scn
        x, y = s.want_pair
        d = s.eff
        if o.kind == "raise":
            if x == y:
                return (exc_sig(o), "contract: a rate of one for a currency and itself")
            if getattr(o.exc, "tag", None) == "rate-validation":
                return None     # the computed rate itself is not representable (numeric clause of C09)
            return (exc_sig(o), "contract: rate or None")
        v = o.value
        rx, ry = s.r_of(x, d), s.r_of(y, d)
        if x == y:
            rx = ry = RF.const(1)
        if isinstance(v, NoneV):
            if rx is None or ry is None:
                return None
            return ("None although all needed entries exist", f"pair {x}->{y}, history {s.describe()}")
        if not isinstance(v, RateV):
            return ("returns neither rate nor None", repr(v))
        if rx is None or ry is None:
            return ("rate reported although a needed entry is missing for that date",
                    f"pair {x}->{y}: {v!r}; history {s.describe()}")
        if st.same_unit(v.unit.uid, s.cur[x].uid) is not True or st.same_unit(v.term.uid, s.cur[y].uid) is not True:
            return ("rate in the wrong direction / between other currencies",
                    f"{s.name_of(v.unit)}->{s.name_of(v.term)}, requested {x}->{y}")
        want = ry / rx
        got = exact_rate(st, v)
        if not got.equals(want):
            return ("wrong rate", f"rate {got!r}, contract r(term)/r(unit) = {want!r}; history {s.describe()}")
        # a stored base rate was rounded once when it was stored; what is derived from stored rates once more
        if st.rnd_depth(v.ta.rf) > (1 if x == "base" else 2):
            return ("derived rate rounded more than once",
                    f"stored amount {st.norm(v.ta.rf)!r}: the quotient of the base rates is rounded to six digits twice")
        if s.explicit_date and s.dflt_calls:
            return ("default date consulted although a date was given", "")
        return None

    def judge_amount(o):
        st = o.state
        s: Scenario = st.scn
        x, y = s.want_pair
        d = s.eff
        rx, ry = s.r_of(x, d), s.r_of(y, d)
        if x == y:
            rx = ry = RF.const(1)
        if o.kind == "raise":
            if o.exc.name == "UnitConversionError":
                if rx is None or ry is None:
                    return None
                return ("conversion refused although all needed entries exist", f"pair {x}->{y}")
            if getattr(o.exc, "tag", None) == "rate-validation":
                return None
            if x == y:
                return (exc_sig(o), "identical currencies")
            return (exc_sig(o), "contract: amount or UnitConversionError")
        if rx is None or ry is None:
            return ("amount reported although a needed entry is missing for that date", o.brief())
        want = st.norm(s.money.amount.rf) * ry / rx
        v = o.value
        if not isinstance(v, Num):
            return ("returns non-number", repr(v))
        got = st.expand_rnd(v.rf)
        if not got.equals(want):
            return ("amount is not rate x amount", f"{got!r}, contract {want!r}")
        return None

    Scenario.describe = lambda s: "; ".join(
        f"{n}@({', '.join('*' if p is None else repr(s.st.norm(p.rf)) for p in per)})" for per, n, _t, _u in s.hist)

    reader_setup = lambda *a, **k: reader_setup_for(prog, *a, **k)

    for kind in KINDS:
        rule = "R11.1" if kind.startswith("text") else "R11.3"
        for pair in PAIRS:
            if kind.startswith("text") and pair[0] == pair[1]:
                continue
            cr.run(rule, GET, f"get_rate {pair[0]}->{pair[1]}, validity {kind}, date in the period",
                   reader_setup(kind, pair, "in", "explicit"), judge_rate)
        if kind == "None":
            continue
        for where in ("next", "year"):
            if where == "year" and kind in ("year", "text1"):
                continue
            for pair in FEW:
                cr.run("R11.4", GET, f"get_rate {pair[0]}->{pair[1]}, validity {kind}, date in another period ({where})",
                       reader_setup(kind, pair, where, "explicit"), judge_rate)
    # currencies given by code
    for kind in ("year", "text2"):
        for pair in FEW:
            cr.run("R11.2", GET, f"get_rate {pair[0]}->{pair[1]}, validity {kind}, spec currency given by code",
                   reader_setup(kind, pair, "in", "explicit", spec_as="str"), judge_rate)
    # default effective date
    for kind in ("None", "year", "month", "date"):
        for where in ("in", "next"):
            if kind == "None" and where == "next":
                continue
            cr.run("R11.6", GET, f"get_rate without date, validity {kind}, configured date {'in' if where == 'in' else 'outside'} the period",
                   reader_setup(kind, ("base", "ca"), where, "default"), judge_rate)

    def today_setup(offset):
        def setup(c):
            s = Scenario(c, prog, dflt="none")
            Y = Num(RF.atom(("k", "today.year")) + RF.const(offset), "int")
            s.update(Y, (Y, None, None), ["ca"])
            s.eff = DateV("today", *(_k(f"today.{f}") for f in ("year", "month", "day")))
            s.want_pair = ("base", "ca")
            s.explicit_date = False
            return [s.conv, s.cur["base"], s.cur["ca"]], {}
        return setup
    cr.run("R11.6", GET, "get_rate without date, no callable configured: today, rates for this year", today_setup(0), judge_rate)
    cr.run("R11.6", GET, "get_rate without date, no callable configured: today, rates for next year", today_setup(1), judge_rate)

    # ------------------------------------------------------------------ __call__
    for kind in ("None", "year"):
        for pair in [("base", "ca"), ("ca", "base"), ("ca", "cb"), ("base", "cn"), ("ca", "ca")]:
            cr.run("R11.7", CALL, f"__call__ {pair[0]}->{pair[1]}, validity {kind}",
                   reader_setup(kind, pair, "in", "explicit", call=True), judge_amount)
    cr.run("R11.7", CALL, "__call__ base->ca, date in another period",
           reader_setup("month", ("base", "ca"), "next", "explicit", call=True), judge_amount)
    cr.run("R11.6", CALL, "__call__ without date", reader_setup("year", ("base", "ca"), "in", "default", call=True), judge_amount)
    cr.run("R11.6", CALL, "__call__ without date, configured date outside the period",
           reader_setup("year", ("base", "ca"), "next", "default", call=True), judge_amount)

    # ------------------------------------------------------------------ two updates
    def two_setup(kind, second, read, pair):
        """second: same / next period; read: first / second period"""
        def setup(c):
            s = Scenario(c, prog)
            v1, p1 = s.validity(kind, "p")
            s.update(v1, p1, ["ca", "cb"])
            if second == "same":
                v2, p2 = s.validity(kind, "p")
            else:
                v2, p2 = s.shifted(kind, "q", "p", "next")
            s.update(v2, p2, ["ca"])
            s.eff = s.date_in(p1 if read == "first" else p2)
            s.want_pair = pair
            s.explicit_date = True
            s.dflt_date[0] = None
            return [s.conv, s.cur[pair[0]], s.cur[pair[1]], s.eff], {}
        return setup
    for kind in ("None", "year", "month", "date"):
        for pair in (("base", "ca"), ("ca", "cb")):
            cr.run("R11.9", GET, f"two updates of the same period (validity {kind}), {pair[0]}->{pair[1]}",
                   two_setup(kind, "same", "first", pair), judge_rate)
        if kind == "None":
            continue
        for read in ("first", "second"):
            for pair in (("base", "ca"), ("ca", "cb"), ("base", "cb")):
                cr.run("R11.4", GET, f"updates for two periods (validity {kind}), date in the {read} one, {pair[0]}->{pair[1]}",
                       two_setup(kind, "next", read, pair), judge_rate)

    # ------------------------------------------------------------------ look-ups between updates: an answer given
    # earlier does not outlive the update of an entry it was derived from
    def lookup_between_setup(kind, pair, second):
        def setup(c):
            s = Scenario(c, prog)
            v1, p1 = s.validity(kind, "p")
            s.update(v1, p1, ["ca", "cb"])
            eff = s.date_in(p1)
            with frame(s.I, prog):
                try:
                    for x, y in (pair, (pair[1], pair[0]), ("base", pair[1]), (pair[0], "base")):
                        if x != y:
                            s.I.call_function(GET, [s.conv, s.cur[x], s.cur[y], eff], {})
                except AbsRaise:
                    raise Infeasible        # (the first answers themselves are R11.3's subject)
            v2, p2 = s.validity(kind, "p")
            s.update(v2, p2, [second])
            s.eff = eff
            s.want_pair = pair
            s.explicit_date = True
            s.dflt_calls.clear()
            return [s.conv, s.cur[pair[0]], s.cur[pair[1]], eff], {}
        return setup
    for kind in ("None", "year"):
        for pair in (("ca", "cb"), ("cb", "ca"), ("base", "ca"), ("ca", "base")):
            for second in ("ca", "cb"):
                cr.run("R11.9", GET, f"look-ups, then an update of {second} (validity {kind}), then {pair[0]}->{pair[1]} again",
                       lookup_between_setup(kind, pair, second), judge_rate)

    # the default date is asked for at every look-up: two look-ups without a date, between which the configured
    # callable starts to answer a date of the next period, get the rates of their own periods
    def dflt_moves_setup(kind, pair, call):
        def setup(c):
            s = Scenario(c, prog)
            v1, p1 = s.validity(kind, "p")
            s.update(v1, p1, ["ca", "cb"])
            v2, p2 = s.shifted(kind, "q", "p", "next")
            s.update(v2, p2, ["ca", "cb"])
            s.dflt_date[0] = s.date_in(p1, tag="d1")
            fn = CALL if call else GET
            args1 = ([s.conv, c.qty("money0", s.cur[pair[0]]), s.cur[pair[1]]] if call
                     else [s.conv, s.cur[pair[0]], s.cur[pair[1]]])
            with frame(s.I, prog):
                try:
                    s.I.call_function(fn, args1, {})
                except AbsRaise:
                    raise Infeasible        # (the first answer itself is R11.6's subject above)
            s.eff = s.date_in(p2, tag="d2")
            s.dflt_date[0] = s.eff
            s.want_pair = pair
            s.explicit_date = False
            s.dflt_calls.clear()
            if call:
                s.money = c.qty("money", s.cur[pair[0]])
                return [s.conv, s.money, s.cur[pair[1]]], {}
            return [s.conv, s.cur[pair[0]], s.cur[pair[1]]], {}
        return setup
    for kind in ("year", "month", "date"):
        for pair in (("base", "ca"), ("ca", "cb")) if kind != "year" else (("base", "ca"), ("ca", "base"), ("ca", "cb")):
            cr.run("R11.6", GET, f"two look-ups without date, the configured date moves to the next period (validity {kind}), "
                   f"{pair[0]}->{pair[1]}", dflt_moves_setup(kind, pair, False), judge_rate)
    cr.run("R11.6", CALL, "two calls without date, the configured date moves to the next period (validity year)",
           dflt_moves_setup("year", ("base", "ca"), True), judge_amount)

    # ------------------------------------------------------------------ thorough tier: longer histories, every pair everywhere
    if tier == "thorough":
        def three_setup(kind, read, pair):
            """P(ca, cb); next period(ca); P again (cb): read in P -> ca from update 1, cb from update 3;
            read in the next period -> ca from update 2, cb missing."""
            def setup(c):
                s = Scenario(c, prog)
                v1, p1 = s.validity(kind, "p")
                s.update(v1, p1, ["ca", "cb"])
                v2, p2 = s.shifted(kind, "q", "p", "next")
                s.update(v2, p2, ["ca"])
                v3, p3 = s.validity(kind, "p")
                s.update(v3, p3, ["cb"])
                s.eff = s.date_in(p1 if read == "first" else p2)
                s.want_pair = pair
                s.explicit_date = True
                return [s.conv, s.cur[pair[0]], s.cur[pair[1]], s.eff], {}
            return setup
        for kind in ("year", "month", "date"):
            for read in ("first", "second"):
                for pair in (("base", "ca"), ("base", "cb"), ("ca", "cb"), ("cb", "base")):
                    cr.run("R11.9", GET, f"three updates over two periods (validity {kind}), date in the {read} period, "
                           f"{pair[0]}->{pair[1]}", three_setup(kind, read, pair), judge_rate)
        for kind in ("year", "month", "date", "text1", "text2", "text3"):
            for where in ("next", "year"):
                if where == "year" and kind in ("year", "text1"):
                    continue
                for pair in PAIRS:
                    if pair in FEW or pair[0] == pair[1]:
                        continue        # (identical currencies: known finding F6, filed under R11.3)
                    cr.run("R11.4", GET, f"get_rate {pair[0]}->{pair[1]}, validity {kind}, date in another period ({where})",
                           reader_setup(kind, pair, where, "explicit"), judge_rate)
        for kind in ("month", "date", "text2", "text3"):
            for pair in PAIRS:
                cr.run("R11.7", CALL, f"__call__ {pair[0]}->{pair[1]}, validity {kind}",
                       reader_setup(kind, pair, "in", "explicit", call=True), judge_amount)
        for kind in ("month", "date"):
            for pair in PAIRS[:4]:
                cr.run("R11.2", GET, f"get_rate {pair[0]}->{pair[1]}, validity {kind}, spec currency given by code",
                       reader_setup(kind, pair, "in", "explicit", spec_as="str"), judge_rate)

    # ------------------------------------------------------------------ rejected updates change nothing
    def up_setup(prior, vkind, bad_spec):
        def setup(c):
            s = Scenario(c, prog)
            if prior is not None:
                v0, p0 = s.validity(prior, "p")
                s.update(v0, p0, ["ca"])
            s.before = snapshot(c.st, s.conv)
            v, _p = s.validity(vkind, "q")
            s.vkind, s.prior = vkind, prior
            s.up_period, s.up_trace0 = _p, len(c.st.oracle.trace)
            good = TupleV([s.cur["cb"], c.num("ta_n", "dec"), c.num("um_n", "int")])
            specs = [good]
            if bad_spec == "amount":
                specs.append(TupleV([s.cur["ca"], Num(RF.const(-5), "int"), Num(RF.const(1), "int")]))
            elif bad_spec == "base":
                specs.append(TupleV([s.cur["base"], c.num("ta_b", "dec"), c.num("um_b", "int")]))
            elif bad_spec == "symbolic":
                specs.append(TupleV([s.cur["ca"], c.num("ta_m", "dec"), c.num("um_m", "int")]))
            s.bad_spec = bad_spec
            return [s.conv, v, ListV(specs)], {}
        return setup

    KIND_OF = {"None": "None", "year": "year", "month": "month", "date": "date"}

    def judge_up(o):
        st = o.state
        s: Scenario = st.scn
        after = snapshot(st, s.conv)
        if o.kind == "raise":
            if o.exc.name not in ("ValueError", "TypeError"):
                return (exc_sig(o), "contract: ValueError")
            if s.vkind in ("year", "month", "date") and s.stated_valid(s.up_period) and s.date_rejected(s.up_trace0) and \
                    (s.prior is None or KIND_OF[s.prior] == KIND_OF[s.vkind]) and s.bad_spec in ("none", "symbolic"):
                return ("valid period rejected", f"{exc_sig(o)} from the date check although the period {s.up_period!r} exists: "
                        "the update validates something else than the period given")
            if after != s.before:
                return ("update rejected after the converter was changed",
                        f"{exc_sig(o)}; converter before {s.before!r}, after {after!r}"[:600])
            return None
        if s.vkind == "float":
            return ("invalid validity accepted", o.brief())
        if s.vkind in ("year 0", "year 10000", "month 0", "month 13"):
            return ("invalid period accepted", f"there is no {s.vkind}; " + o.brief())
        if s.vkind == "text":
            nf_ = getattr(o.args[1], "n_fields", None)
            if nf_ is not None and nf_[1] not in (1, 2, 3):
                return ("invalid period accepted", f"a text of {nf_[1]} dash-separated fields is no year, month or date")
        if any(t in ("date()=ValueError", "fromisoformat=ValueError") for t in o.trace):
            return ("invalid period accepted", "the period was found not to be a date / year / month (ValueError from "
                    "the date constructor), yet the update went through")
        if s.bad_spec in ("amount", "base"):
            return ("invalid rate specification accepted", o.brief())
        if s.prior is not None and s.vkind != "text":
            if KIND_OF[s.vkind] != KIND_OF[s.prior]:
                return ("mixing kinds of validity accepted", f"first update {s.prior}, then {s.vkind}")
        if s.prior is not None and s.vkind == "text":
            nf = getattr(o.args[1], "n_fields", None)
            tk = {1: "year", 2: "month", 3: "date"}.get(nf[1]) if nf else None
            if tk != s.prior:
                return ("mixing kinds of validity accepted", f"first update {s.prior}, then a text of {nf} fields")
        if after == s.before:
            return ("accepted update stored nothing", "")
        return None
    for vk in ("None", "year", "month", "date", "text", "float"):
        for prior in (None, "year", "date"):
            for bad in ("none", "symbolic") + (("amount", "base") if vk in ("year", "None") else ()):
                cr.run("R11.5", UP, f"update validity {vk} after {'no' if prior is None else 'a ' + prior} update, "
                       f"{'valid specs' if bad == 'none' else 'second spec: ' + bad}", up_setup(prior, vk, bad), judge_up)
    for vk, priors in (("year 0", (None, "year")), ("year 10000", (None, "year")), ("month 0", (None, "month")),
                       ("month 13", (None, "month"))):
        for prior in priors:
            cr.run("R11.5", UP, f"update validity {vk} after {'no' if prior is None else 'a ' + prior} update, valid specs",
                   up_setup(prior, vk, "none"), judge_up)

    # a rejected first update does not fix the kind of validity: a later update of another kind is accepted and read
    def after_reject_setup(c):
        s = Scenario(c, prog)
        v0, _p0 = s.validity("year", "p")
        bad = ListV([TupleV([s.cur["ca"], c.num("ta_x", "dec"), c.num("um_x", "int")]),
                     TupleV([s.cur["base"], c.num("ta_b", "dec"), c.num("um_b", "int")])])
        with frame(s.I, prog):
            try:
                s.I.call_function(UP, [s.conv, v0, bad], {})
                raise Infeasible        # acceptance of that update is reported by R11.5 above
            except AbsRaise:
                pass
        v1, p1 = s.validity("month", "q")
        s.update(v1, p1, ["ca"], must_accept=False) or s.__setattr__("refused", True)
        s.eff = s.date_in(p1)
        s.want_pair = ("base", "ca")
        s.explicit_date = True
        return [s.conv, s.cur["base"], s.cur["ca"], s.eff], {}

    def judge_after_reject(o):
        s = o.state.scn
        if getattr(s, "refused", False):
            # rate-validation forks of the second update end here as well: only a refusal for the kind is an error
            return None
        return judge_rate(o)
    cr.run("R11.5", GET, "rejected first update, then an update of another kind", after_reject_setup, judge_after_reject)

    # ------------------------------------------------------------------ B1 ownership of the converter's fields
    writes = inventory(prog, ["quantity.money"])
    cg = CallGraph(prog)
    fields = sorted({w.state for w in writes if w.func == "MoneyConverter.__init__" and w.kind == "attr-store"})
    if len(fields) < 2:
        raise AnalysisError(f"R11.8: constructor initialises {len(fields)} fields (at least 2 expected)")
    n = 0
    for f in fields:
        n += len(check_ownership(res, "R11.8", writes, f,
                                 {"MoneyConverter.__init__": {"*"}, "MoneyConverter.update": {"*"},
                                  # the readers may keep memo fields of their own: whether an answer given earlier
                                  # survives an update it depends on is decided by the look-up / update histories
                                  "MoneyConverter.get_rate": {"*"}, "MoneyConverter.__call__": {"*"}}, cg))
    if n < 2:
        raise AnalysisError(f"R11.8: {n} writes of the converter state found (at least 2 expected)")

    res.require("R11.1", 21)
    res.require("R11.2", 4)
    res.require("R11.3", 32)
    res.require("R11.4", 20)
    res.require("R11.5", 38)
    res.require("R11.6", 17)
    res.require("R11.7", 10)
    res.require("R11.9", 24)
    return res
