"""C17 — results do not depend on evaluation history."""
from __future__ import annotations

import ast

from ..contracts import *  # noqa: F401,F403
from ..anchors import UNIT_CREATION_ENTRY_POINTS, unit_creator, unit_creator_args
from ..effects import CallGraph, check_ownership, inventory
from ..loader import AnalysisError, src_of
from ..report import Result

TECHNIQUE = ("cache discipline on the abstractly interpreted unit operators (read key = write key = (operator, self, "
             "other); stored tuple = returned tuple; no store on raising paths), immutability of memo inputs and "
             "monotonicity of the directories by who-may-write ownership rules")

OPNAME = {"__mul__": "operator.mul", "__truediv__": "operator.truediv"}


def cache_effects(st):
    reads = [e for e in st.effects if e[0] == "mapread" and isinstance(e[2], TupleV) and not getattr(e[1], "registry", False)
             and not getattr(e[1], "convtable", False)]
    stores = [e for e in st.effects if e[0] == "setitem" and isinstance(e[1], GlobalMapV) and isinstance(e[2], TupleV)]
    return reads, stores


def key_ok(st, key: TupleV, opname, a, b):
    if len(key.items) != 3:
        return False
    f, x, y = key.items
    return isinstance(f, FuncV) and f.name == opname and isinstance(x, UnitV) and isinstance(y, UnitV) and \
        x.uid == a.uid and y.uid == b.uid


def memo_setup(fi):
    """Arguments for a memoised function, from its annotations (Unit -> a unit, int -> a symbolic integer)."""
    a = fi.node.args
    params = a.posonlyargs + a.args
    n_req = len(params) - len(a.defaults)
    kinds = []
    for i, p in enumerate(params[:n_req]):
        ann = src_of(p.annotation).strip("'\"") if p.annotation is not None else ("Unit" if i == 0 and p.arg == "self" else "")
        if ann in ("Unit", "Currency"):
            kinds.append("unit")
        elif ann == "int":
            kinds.append("int")
        else:
            return None

    def setup(c: Ctx):
        c.new_type("T", **FLAVORS["ref"])
        args, nu = [], 0
        for k in kinds:
            if k == "unit":
                args.append(c.unit(("us", "uo", "u3", "u4")[min(nu, 3)], "T"))
                nu += 1
            else:
                args.append(Num(RF.atom(("n",)), "int"))
        return args, {}
    return setup


def _same_val(st, x, y) -> bool:
    if x is y:
        return True
    if isinstance(x, Num) and isinstance(y, Num):
        return st.norm(x.rf).equals(st.norm(y.rf))
    if isinstance(x, UnitV) and isinstance(y, UnitV):
        return st.ufind(x.uid) == st.ufind(y.uid)
    if isinstance(x, NoneV) and isinstance(y, NoneV):
        return True
    if isinstance(x, FuncV) and isinstance(y, FuncV):
        return x.name == y.name
    if isinstance(x, StrV) and isinstance(y, StrV):
        return x.const is not None and x.const == y.const
    if isinstance(x, TupleV) and isinstance(y, TupleV):
        return len(x.items) == len(y.items) and all(_same_val(st, p, q) for p, q in zip(x.items, y.items))
    return False


def memo_discipline(op_tags):
    """R17.1b - the discipline any other function storing into the operation cache has to obey: the key it
    reads is the key it writes, names every argument plus a constant tag no other memoised operation uses;
    the stored value is the returned value; nothing is stored on a raising path."""
    def judge(o):
        st = o.state
        reads, stores = cache_effects(st)
        if o.kind == "raise":
            return ("result cached on a raising path", repr([s_[2] for s_ in stores])) if stores else None
        if not stores:
            return None
        if len(stores) != 1:
            return ("result cached more than once", f"{len(stores)} stores")
        key, val = stores[0][2], stores[0][3]
        if not reads or not all(_same_val(st, r[2], key) for r in reads):
            return ("cache write key differs from the read key", f"read {[r[2] for r in reads]!r}, write {key!r}")
        for a in o.args:
            if not any(_same_val(st, a, k) for k in key.items):
                return ("memoised result is not keyed by all the inputs it depends on",
                        f"argument {a!r} is not part of the key {key!r}")
        tags = [k for k in key.items if isinstance(k, (FuncV, StrV)) and not any(k is a for a in o.args)]
        if not tags:
            return ("cache key carries no tag telling this operation from the others", repr(key))
        if any(isinstance(t, FuncV) and t.name in op_tags for t in tags):
            return ("cache key collides with the keys of another memoised operation", repr(key))
        if not _same_val(st, val, o.value):
            return ("cached value differs from the returned value", f"cached {val!r}, returned {o.value!r}")
        return None
    return judge


def memo_hit_discipline(o):
    hit = any(t.startswith("cache@") and t.endswith("=hit") for t in o.trace)
    if not hit:
        return None
    if o.kind != "return" or not (isinstance(o.value, OpaqueV) and o.value.tag == "cache-hit"):
        return ("cache hit is not returned unchanged", o.brief())
    _, stores = cache_effects(o.state)
    if stores:
        return ("cache rewritten on a hit", "")
    return None


def run(prog, tier) -> Result:
    res = Result("C17")
    res.explanation = (
        "R17.1/2: for Unit.__mul__ and Unit.__truediv__ on two units, every path is checked for the cache "
        "discipline: the read key and the write key are (the operator the dunder is named after, self, other); the "
        "stored tuple is the very tuple that is returned; the store happens only after a successful resolution and "
        "never on a raising path (errors are recomputed, so an operation that failed succeeds once the missing type "
        "is declared); a hit is returned unchanged. R17.3: everything a memoised result depends on is immutable "
        "after creation (unit fields, term items, type definition/reference unit/quantum: single-writer ownership). "
        "R17.4: the directories are monotone: insert-if-absent / append only, the reader takes the bucket's first "
        "element, nothing deletes, clears or overwrites. R17.5: nothing else stores into the operation cache, unless it "
        "obeys the same discipline with a key of its own (R17.1b); dropping cache entries is harmless. Hence a result depends only "
        "on the declarations present when it is evaluated.")
    res.trusted = ["dict/list semantics", "value-equivalence of the members of one registry bucket (C07 equality)"]
    cr = CaseRunner(prog, res, max_depth=8 if tier == "quick" else 12)
    U = lambda n: prog.method("Unit", n)
    # the operation cache: the process-global map(s) the two operators (through their private helpers) store into;
    # other memos anywhere in the package are judged by the repeated-call variants of the cases that reach them
    from ..anchors import _with_private_helpers
    writes = inventory(prog)
    op_funcs0 = {f.qualname for name in ("__mul__", "__truediv__")
                 for f in _with_private_helpers(prog, U(name), prog.cls("Unit"))}
    OPCACHE = {w.state for w in writes if w.func in op_funcs0 and w.kind == "item-store"}
    # ... of these, the one(s) filled by a product / quotient of units of two different types (a helper's memo of
    # something else - the factor between units of one type, a rank - is a memo of its own)
    from ..engine_a import run_case
    holds = set()
    for name in ("__mul__", "__truediv__"):
        for o in run_case(prog, U(name), two_units_other_type("ref"), max_depth=8 if tier == "quick" else 12):
            if o.kind == "return":
                holds |= {e[1].name for e in o.state.effects if e[0] == "setitem" and isinstance(e[1], GlobalMapV)}
    if holds & OPCACHE:
        OPCACHE &= holds

    def cache_effects(st):
        reads = [e for e in st.effects if e[0] == "mapread" and isinstance(e[2], TupleV) and e[1].name in OPCACHE]
        stores = [e for e in st.effects if e[0] == "setitem" and isinstance(e[1], GlobalMapV) and isinstance(e[2], TupleV)
                  and e[1].name in OPCACHE]
        return reads, stores

    for name in ("__mul__", "__truediv__"):
        for label, setup in (("other type", two_units_other_type("ref")), ("same type [ref]", two_units_same_type("ref")),
                             ("same type [money]", two_units_same_type("money"))):
            def judge(o, name=name):
                st = o.state
                a, b = o.args[0], o.args[1]
                reads, stores = cache_effects(st)
                if not reads:
                    return ("no cache lookup", "")
                if not all(key_ok(st, r[2], OPNAME[name], a, b) for r in reads):
                    return ("cache read key is not (operator of the dunder, self, other)", repr([r[2] for r in reads]))
                if o.kind == "raise":
                    if stores:
                        return ("result cached on a raising path", repr([s[2] for s in stores]))
                    return None
                if len(stores) != 1:
                    return ("successful resolution not cached exactly once", f"{len(stores)} stores")
                s = stores[0]
                if not key_ok(st, s[2], OPNAME[name], a, b):
                    return ("cache write key differs from the read key", f"read {reads[0][2]!r}, write {s[2]!r}")
                v, rv = s[3], o.value
                same = isinstance(v, TupleV) and isinstance(rv, TupleV) and len(v.items) == len(rv.items) == 2 and \
                    all(x is y or (isinstance(x, Num) and isinstance(y, Num) and st.norm(x.rf).equals(st.norm(y.rf)))
                        or (isinstance(x, UnitV) and isinstance(y, UnitV) and x.uid == y.uid)
                        or (isinstance(x, NoneV) and isinstance(y, NoneV)) for x, y in zip(v.items, rv.items))
                if not same:
                    return ("cached value differs from the returned value", f"cached {v!r}, returned {rv!r}")
                return None
            cr.run("R17.1", U(name), f"Unit{name} Unit {label}", setup, judge, site=f"Unit.{name}", no_replay=True)

            def judge_hit(o, name=name):
                hit = any(t.startswith("cache@") and t.endswith("=hit") for t in o.trace)
                if not hit:
                    return None
                if o.kind != "return" or not (isinstance(o.value, OpaqueV) and o.value.tag == "cache-hit"):
                    return ("cache hit is not returned unchanged", o.brief())
                _, stores = cache_effects(o.state)
                if stores:
                    return ("cache rewritten on a hit", "")
                return None
            cr.run("R17.1", U(name), f"Unit{name} Unit {label} (hit)", setup, judge_hit, cache_hits=OPCACHE or True,
                   site=f"Unit.{name}")
    # R17.2 whatever else the operators (or what they call) keep between calls - a second memo, a set of failures -
    # must not show: the cases above as repeated calls (same state: same result; after the ambient state changed -
    # directories may have grown -: the result of a recomputation with nothing memoised)
    for name in ("__mul__", "__truediv__", "__rtruediv__", "__pow__"):
        if prog.lookup(prog.cls("Unit"), name) is None:
            continue
        if name in ("__mul__", "__truediv__"):
            setups = (("other type", two_units_other_type("ref")), ("same type [ref]", two_units_same_type("ref")),
                      ("same type [money]", two_units_same_type("money")))
        elif name == "__rtruediv__":
            setups = (("number / unit", lambda c: ([c.new_type("T", **FLAVORS["ref"]) and None or c.unit("us", "T"),
                                                    c.num("k", "dec")], {})),)
        else:
            setups = (("unit ** n", lambda c: ([c.new_type("T", **FLAVORS["ref"]) and None or c.unit("us", "T"),
                                                Num(RF.const(2), "int")], {})),)
        for label, setup in setups:
            cr.run("R17.2", U(name), f"Unit{name} {label}", setup, lambda o: None, site=f"Unit.{name}", flag_kinds=())

    # the cache parameter is the module-level cache (default-argument alias)
    for name in ("__mul__", "__truediv__"):
        fi = U(name)
        a = fi.node.args
        defaults = dict(zip([p.arg for p in a.args][len(a.args) - len(a.defaults):], a.defaults))
        cache_params = [p for p, d in defaults.items() if isinstance(d, ast.Name)]
        glob = {src_of(defaults[p]) for p in cache_params}
        res.ob("R17.1", f"Unit.{name}", "one process-global cache", len(glob) <= 1, str(glob),
               sig="operators use different caches", nontrivial=False)

    # R17.5 who stores into the operation cache: the two operators (through their private helpers), and any other
    # function only if it obeys the same memo discipline (decided on its evaluated effects, R17.1b)
    from ..anchors import _with_private_helpers
    writes = inventory(prog)
    cg = CallGraph(prog)
    uci = prog.cls("Unit")
    op_funcs = {f.qualname for name in ("__mul__", "__truediv__") for f in _with_private_helpers(prog, U(name), uci)}
    cache_names = {w.state for w in writes if w.func in op_funcs and w.kind == "item-store"}
    if cache_names & OPCACHE:
        cache_names &= OPCACHE
    if not cache_names:
        raise AnalysisError("anchor vanished: operation cache stores in Unit.__mul__/__truediv__")
    other_memo = {}
    for w in writes:
        if w.state in cache_names and w.fi is not None and w.func not in op_funcs and \
                w.op in ("[]=", "setdefault", "update", "[]aug"):
            other_memo[w.func] = w.fi
    op_tags = set(OPNAME.values())
    memo_ok = set()
    for q, fi in sorted(other_memo.items()):
        setup = memo_setup(fi)
        if setup is None:
            continue        # cannot be evaluated generically: the store stays a foreign write (R17.5)
        before = len(res.violations)
        cr.run("R17.1b", fi, f"{q} stores into the operation cache (miss)", setup, memo_discipline(op_tags), site=q,
               no_replay=True)
        cr.run("R17.1b", fi, f"{q} stores into the operation cache (hit)", setup, memo_hit_discipline, cache_hits=True,
               site=q)
        if len(res.violations) == before:
            memo_ok.add(q)
    owners = {"Unit.__mul__": {"*"}, "Unit.__truediv__": {"*"}}     # what they store is decided by R17.1
    owners.update({q: {"*"} for q in memo_ok})
    for cn in cache_names:
        # dropping entries of a transparent memo cannot change a result: removal is open to everybody
        kept = [w for w in writes if not (w.state == cn and w.op in ("clear", "pop", "popitem", "del"))]
        check_ownership(res, "R17.5", kept, cn, owners, cg)

    # R17.3 immutability of what memoised results depend on
    for state, owners in (
            ("_equiv", dict(UNIT_CREATION_ENTRY_POINTS)),
            ("_qty_cls", dict(UNIT_CREATION_ENTRY_POINTS)),
            ("_items", {"Term.__init__": {"="}}),
            ("_ref_unit", {"QuantityMeta.__new__": {"="}}),
            ("_quantum", {"QuantityMeta.__new__": {"="}}),
            ("_reg_id", {"QuantityMeta.__init__": {"="}}),
            ("_normalized", {"Term.__init__": {"="}, "Term.normalized": {"="}}),
            ("_hash", {"Term.__hash__": {"="}})):
        check_ownership(res, "R17.3", writes, state, owners, cg)

    # R17.4 monotone directories
    sym_names = set()
    mk = unit_creator(prog)
    for w in writes:
        if w.func == mk.qualname and w.kind == "item-store" and not w.base_src.startswith("cls."):
            sym_names.add(w.state)
    for sn in sym_names:
        check_ownership(res, "R17.4", writes, sn, dict(UNIT_CREATION_ENTRY_POINTS), cg)
    # insert-if-absent: on every successful creation path the key was first found absent in the symbol directory
    # (failed lookup or negative membership test) - decided on Engine A's effect log, not on the code's shape
    from .c15 import run_entry, judge_unit_registered
    from ..declcases import base_types

    def mk_body(I, c):
        base_types(c)
        d = TermV(RF.atom(("defmag",)), {"T1": (1, 0)})
        a_, k_ = unit_creator_args(prog)(c.cls("T1"), StrV(None, "symbol"), StrV(None, "name"), d)
        return I.call_function(mk, a_, k_)

    def judge_absent(o):
        r = judge_unit_registered(o, want_def_mag=None)
        if r is not None and ("without checking that it is free" in r[0] or "stored exactly once" in r[0]):
            return r
        found = any("_SYMBOL_UNIT_MAP[" in t and t.endswith("=found") for t in o.trace) or \
            any(t.startswith("in@") and t.endswith("=present") for t in o.trace)
        if found and o.kind == "return":
            return ("existing symbol directory entry overwritten", o.brief())
        return None
    run_entry(prog, res, "R17.4", mk.qualname, "symbol directory is insert-if-absent", mk_body, judge_absent, min_paths=3)
    # the registry's own state: whatever its constructor assigns; only the constructor and register_item write it
    # (what register_item does to it - monotone, first wins - is decided by the evaluated scenario below)
    reg_init = prog.method("DefinedItemRegistry", "__init__")
    me_ = reg_init.node.args.args[0].arg
    reg_fields = sorted({t.attr for n in ast.walk(reg_init.node) if isinstance(n, (ast.Assign, ast.AnnAssign))
                         for t in (n.targets if isinstance(n, ast.Assign) else [n.target])
                         if isinstance(t, ast.Attribute) and isinstance(t.value, ast.Name) and t.value.id == me_})
    if not reg_fields:
        raise AnalysisError("anchor vanished: fields assigned by DefinedItemRegistry.__init__")
    for state in reg_fields:
        check_ownership(res, "R17.4", writes, state,
                        {"DefinedItemRegistry.__init__": {"="}, "DefinedItemRegistry.register_item": {"*"}}, cg)
    # ---- registry semantics, evaluated (not pattern-matched): buckets by normalised definition, first wins, monotone
    from ..engine_a import run_body
    from ..models import DictV
    from ..report import Violation
    reg_ci = prog.cls("DefinedItemRegistry")

    def reg_body(unique):
        def body(I, c):
            st = c.st
            I.models.term_objects = True
            c.new_type("T", **FLAVORS["ref"])
            base = UnitV(st.ref_unit("T"))
            st.U(base.uid).kind = "ref"
            st.unit_defs[base.uid] = "base"
            TERM = TypeV("Term", prog.cls("Term"))

            def term(items):
                tv = TupleV([TupleV([e, Num(RF.const(x), "int")]) for e, x in items])
                return I.models.call(TERM, [tv], {}, None)
            k = Num(RF.const(1000), "dec")
            ua = UnitV(st.new_unit("T", uid="ua", mu=RF.const(1000) * st.norm(st.U(base.uid).mu), kind="defined"))
            ub = UnitV(st.new_unit("T", uid="ub", mu=RF.const(1000) * st.norm(st.U(base.uid).mu), kind="defined"))
            uc = UnitV(st.new_unit("T", uid="uc", mu=RF.const(60) * st.norm(st.U(base.uid).mu), kind="defined"))
            st.distinct_units("ua", "ub")
            st.unit_defs["ua"] = term([(k, 1), (base, 1)])
            st.unit_defs["ub"] = term([(base, 1), (k, 1)])
            st.unit_defs["uc"] = term([(Num(RF.const(60), "dec"), 1), (base, 1)])
            reg = I.models.instantiate(reg_ci, [], {"unique_items": BoolV(unique)}, None)
            ri_ = prog.method("DefinedItemRegistry", "register_item")
            gi_ = prog.method("DefinedItemRegistry", "__getitem__")
            i1 = I.call_function(ri_, [reg, ua], {})
            i3 = I.call_function(ri_, [reg, uc], {})
            got_before = I.call_function(gi_, [reg, term([(k, 1), (base, 1)])], {})
            dup = None
            try:
                i2 = I.call_function(ri_, [reg, ub], {})
            except AbsRaise as ar:
                i2, dup = None, ar.exc.name
            got_after = I.call_function(gi_, [reg, term([(base, 1), (k, 1)])], {})
            got_c = I.call_function(gi_, [reg, term([(Num(RF.const(60), "dec"), 1), (base, 1)])], {})
            try:
                I.call_function(gi_, [reg, term([(Num(RF.const(7), "dec"), 1), (base, 1)])], {})
                missing = "found"
            except AbsRaise as ar:
                missing = ar.exc.name
            st.regres = dict(i1=i1, i2=i2, i3=i3, dup=dup, before=got_before, after=got_after, c=got_c, missing=missing,
                             ua=ua, ub=ub, uc=uc, reg=reg)
            return reg
        return body

    def reg_judge(unique):
        def judge(o):
            st = o.state
            if o.kind == "raise":
                return (exc_sig(o), "registry scenario raised")
            r = st.regres
            same = lambda x, y: isinstance(x, UnitV) and st.same_unit(x.uid, y.uid) is True
            if not same(r["before"], r["ua"]):
                return ("lookup by definition does not return the registered item", repr(r["before"]))
            if not same(r["after"], r["ua"]):
                return ("a later registration with an equivalent definition changes what the definition resolves to",
                        f"after registering ub: {r['after']!r} (first registered: ua)")
            if not same(r["c"], r["uc"]):
                return ("items of different definitions share a bucket", repr(r["c"]))
            if r["missing"] != "KeyError":
                return ("unregistered definition does not raise KeyError", r["missing"])
            # (ua == ub: equal items are accepted by both kinds of registry and share an id)
            if r["dup"] is not None:
                return ("registry rejects an equal item with an equivalent definition", repr(r["dup"]))
            i1, i2 = r["i1"], r["i2"]
            if not (isinstance(i1, Num) and isinstance(i2, Num) and st.norm(i1.rf).equals(st.norm(i2.rf))):
                return ("equivalent definitions get different registry ids", f"{i1!r} vs {i2!r}")
            return None
        return judge
    for unique in (False, True):
        site = "DefinedItemRegistry.register_item/__getitem__"
        case = f"two equivalent and one different definition, unique_items={unique}"
        outs = run_body(prog, reg_body(unique), max_depth=16)
        res.paths += len(outs)
        res.functions.add(site)
        fails = [Violation("R17.4", site, case, r_[0], r_[1], list(o.trace))
                 for o in outs for r_ in [reg_judge(unique)(o)] if r_ is not None]
        if not outs:
            fails.append(Violation("R17.4", site, case, "no feasible path", ""))
        res.obligations += 1
        res.evaluations += max(1, len(outs))
        res.rules["R17.4"] = res.rules.get("R17.4", 0) + 1
        res.nontrivial_keys.add(("R17.4", site, case))
        if not fails:
            res.discharged += 1
        res.violations.extend(fails)

    # nothing anywhere deletes from or clears a directory
    destructive = [w for w in writes if w.op in ("del", "clear", "pop", "popitem", "remove") and
                   w.state in (sym_names | set(reg_fields) | {"_unit_map"})]
    res.ob("R17.4", "quantity", "no deletion from a directory", not destructive, repr(destructive),
           sig="directory entry deleted")

    res.require("R17.1", 12)
    res.require("R17.3", 9)
    res.require("R17.4", 8)
    return res
