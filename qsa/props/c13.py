"""C13 — quantize and round follow the requested rounding mode exactly."""
from __future__ import annotations

import ast

from ..contracts import *  # noqa: F401,F403
from ..loader import AnalysisError, src_of
from ..report import Result
from ..tables import (TableEval, decision_table, quotient_classes, reference_add_one,
                      rounding_modes_from_dependency, AQ)

TECHNIQUE = ("exhaustive abstract decision table of the integer rounding helper (8 modes x quotient class x "
             "tie class) against the mode definitions + abstract interpretation of quantize/round")


def _callees(prog, fi):
    """Repo functions called by name from `fi` (module-level functions, resolved through imports)."""
    out = []
    for n in ast.walk(fi.node):
        if isinstance(n, ast.Call) and isinstance(n.func, ast.Name):
            r = prog.resolve_global(fi.module, n.func.id)
            if r and r[0] == "func":
                out.append((n, r[1]))
    return out


def find_rounding_helper(prog):
    """The function that receives a Fraction's numerator and denominator from the fraction branch of
    Quantity.quantize, wherever in the package it lives (found through the call structure)."""
    quant = prog.method("Quantity", "quantize")
    seen = set()
    work = [quant]
    while work:
        f = work.pop()
        if f.qualname in seen:
            continue
        seen.add(f.qualname)
        for call, callee in _callees(prog, f):
            srcs = [src_of(a) for a in call.args]
            if any(s_.endswith(".numerator") for s_ in srcs) and any(s_.endswith(".denominator") for s_ in srcs):
                return callee, f
            work.append(callee)
        if f is not quant and any(isinstance(n, ast.Call) and src_of(n.func) == "divmod" for n in ast.walk(f.node)):
            return f, f
    raise AnalysisError("anchor vanished: integer rounding helper of the fraction path of Quantity.quantize")


def rounding_summary(I, fi, args, kwargs, node):
    """Engine A's view of the integer rounding helper (x, y, mode) -> integer nearest to x / y in the given mode."""
    params = [p.arg for p in fi.node.args.args]
    vals = dict(zip(params, args))
    vals.update(kwargs)
    x, y = vals.get(params[0]), vals.get(params[1])
    mode = vals.get(params[2], NONE) if len(params) > 2 else NONE
    if not (isinstance(x, Num) and isinstance(y, Num)):
        I.unsupported(node, "rounding helper called with non-numbers")
    ratio = I.models.simplify_numden(x.rf / y.rf)
    I.st.effects.append(("roundint", x, y, mode, I.models.where(node)))
    return Num(I.models.ufn("roundint", ratio), "int")


def run(prog, tier) -> Result:
    res = Result("C13")
    res.explanation = (
        "R13.1: the integer rounding helper of the Fraction path is abstractly evaluated for every cell of "
        "mode x quotient class (<=-2, -1, 0, 1, >=2 with all residues mod 10) x cmp(2*rem, y), explicit mode and "
        "configured default; the extracted 'add one?' table must equal the reference computed in the checker from "
        "the definitions of the eight modes (floor, ceiling, towards/away from zero, three half modes, 05UP), so "
        "ties and negatives are covered exhaustively. R13.2: every member of decimalfp.ROUNDING has a branch, "
        "unknown modes raise ValueError, exact quotients are returned unchanged. R13.3-5: Engine A shows quantize "
        "converts the quantum to the receiver's unit, returns receiver's unit/type, amount = integer x quantum on "
        "both branches (the decimal branch passes the same quantum and mode to the dependency), and round() keeps "
        "unit and type; error classes per the statement.")
    res.exhaustive = True
    res.trusted = ["decimalfp.Decimal.quantize implements the eight modes (dependency, not analysed)",
                   "reference table in qsa/tables.py (written from the mode definitions)"]
    helper, caller = find_rounding_helper(prog)
    res.functions.add(helper.qualname)
    modes = rounding_modes_from_dependency()
    if len(modes) != 8:
        res.notes.append(f"dependency defines {len(modes)} rounding modes: {modes}")
    cells = 0
    bad_cells = {}
    for mode, how, qc, cmp2, out in decision_table(helper, modes, prog):
        cells += 1
        want = reference_add_one(mode, qc, cmp2)
        ok = out[0] == "return" and isinstance(out[1], AQ) and out[1].s == 1 and out[1].c == want
        if not ok:
            bad_cells.setdefault((mode, how), []).append((qc, cmp2, out, want))
    res.evaluations += cells
    res.paths += cells
    for mode in modes:
        for how in ("explicit", "default"):
            fails = bad_cells.get((mode, how), [])
            detail = ""
            if fails:
                qc, cmp2, out, want = fails[0]
                detail = (f"{len(fails)} cells differ; first: quotient class {qc[0]} (mod 10 = {qc[1]}), "
                          f"2*rem {'<=>'[cmp2 + 1]} y: helper gives {(out[1] if out[0] == 'return' else out)!r}, "
                          f"definition of {mode} gives quot{'+1' if want else ''}")
            res.ob("R13.1", helper.qualname, f"{mode} ({how})", not fails, detail,
                   sig=f"rounding table differs from the definition of {mode}",
                   sample={"mode": mode, "how": how, "cells": 69,
                           "example_cell": {"quot_class": "<=-2", "quot_mod_10": 3, "cmp(2rem,y)": "=",
                                            "add_one": reference_add_one(mode, ("<=-2", 3), 0)}},
                   evaluations=0)
    # R13.2: exact quotient, unknown mode
    out = TableEval(helper, "ROUND_HALF_UP", None, ("1", 1), 0, rem_zero=True, prog=prog).run()
    res.ob("R13.2", helper.qualname, "exact quotient returned unchanged",
           out[0] == "return" and isinstance(out[1], AQ) and out[1].s == 1 and out[1].c == 0, repr(out),
           sig="exact quotient altered")
    out = TableEval(helper, "ROUND_UNKNOWN_MODE", None, ("1", 1), 0, prog=prog).run()
    res.ob("R13.2", helper.qualname, "unknown mode rejected", out == ("raise", "ValueError"), repr(out),
           sig="unknown rounding mode accepted")
    res.ob("R13.2", "decimalfp.ROUNDING", "eight modes", len(modes) == 8, str(modes), sig="mode set changed",
           nontrivial=False)

    # R13.6: functions on the path from quantize to the helper read the ambient default mode at call time:
    # none of them may be memoised (a cached result would survive set_dflt_rounding_mode)
    chain = {helper.qualname: helper, caller.qualname: caller,
             "Quantity.quantize": prog.method("Quantity", "quantize")}
    for qn, fi in chain.items():
        decs = [src_of(d) for d in fi.node.decorator_list]
        memo = [d for d in decs if any(k in d.lower() for k in ("cache", "memo", "lru"))]
        res.ob("R13.6", qn, "not memoised", not memo,
               f"decorators {decs}: a result computed under one default rounding mode would be replayed under another",
               sig="rounding path is memoised across default-mode changes", nontrivial=False)
    # (that the configured default is consulted at call time is decided by the 'default' half of the decision table)

    # R13.3 - R13.5 Engine A
    cr = CaseRunner(prog, res, max_depth=8 if tier == "quick" else 12)
    qz = prog.method("Quantity", "quantize")
    for fl in ("ref", "ref+quantum"):
        for mode_v, mlabel in ((NONE, "default mode"), (EnumV("ROUNDING", "ROUND_HALF_UP"), "explicit mode")):
            def setup(c, fl=fl, mode_v=mode_v):
                c.new_type("T", **FLAVORS[fl])
                # the integer rounding helper is decided cell by cell by Engine C (R13.1/R13.2); here it is a summary:
                # an integer that depends on the exact quotient of its two arguments and on the mode it is given
                c.m.summaries = {helper.qualname: rounding_summary}
                return [c.qty("self", c.unit("us", "T")), c.qty("quant", c.unit("uq", "T")), mode_v], {}

            def judge(o, mode_v=mode_v):
                st = o.state
                if o.kind == "raise":
                    return (exc_sig(o), "contract: quantized quantity")
                s, qn = o.args[0], o.args[1]
                v = o.value
                if v is s:
                    # zero amounts are returned unchanged
                    return None if st.norm(s.amount.rf).is_zero() or any(
                        k == st.norm(s.amount.rf).key() and o2 == "==" and r for k, o2, r in st.cmp_facts) else \
                        ("receiver returned for a non-zero amount", "")
                r = judge_qty(o, unit=s.unit, tid=s.tid, max_depth=1)
                if r:
                    return r
                g = st.norm(qn.amount.rf) * mu_of(st, qn.unit) / mu_of(st, s.unit)
                ex = st.expand_rnd(v.amount.rf)
                ratio = st.norm(s.amount.rf) / g
                fns = [a for a in ex.atoms() if a[0] == "fn"]
                if len(fns) != 1:
                    return ("result is not an integer multiple of the quantum", repr(ex))
                fa = fns[0]
                arg = st.norm(st.rnd_args[fa[2]])
                if fa[1] == "decquantize":
                    ok = ex.equals(RF.atom(fa) * g) and arg.equals(ratio)
                    eff = [e for e in st.effects if e[0] == "decquantize"]
                    if ok and eff:
                        m = eff[-1][3]
                        same_mode = (isinstance(m, NoneV) and isinstance(mode_v, NoneV)) or \
                            (isinstance(m, EnumV) and isinstance(mode_v, EnumV) and m.member == mode_v.member) or \
                            (isinstance(mode_v, NoneV) and isinstance(m, EnumV) and getattr(m, "origin", None) == "default")
                        # (no mode given: None is handed on, or the default mode as read at the time of this call)
                        if not same_mode:
                            return ("rounding mode not passed to the decimal path", repr(m))
                    return None if ok else ("decimal path quantizes with another quantum", f"{ex!r}; quantum {g!r}")
                if fa[1] == "roundint":
                    ok = ex.equals(RF.atom(fa) * g) and arg.equals(ratio)
                    eff = [e for e in st.effects if e[0] == "roundint"]
                    if ok and eff:
                        m = eff[-1][3]
                        same_mode = (isinstance(m, NoneV) and isinstance(mode_v, NoneV)) or \
                            (isinstance(m, EnumV) and isinstance(mode_v, EnumV) and m.member == mode_v.member) or \
                            (isinstance(mode_v, NoneV) and isinstance(m, EnumV) and getattr(m, "origin", None) == "default")
                        # (no mode given: None is handed on, or the default mode as read at the time of this call)
                        if not same_mode:
                            return ("rounding mode not passed to the fraction path", repr(m))
                    return None if ok else ("fraction path: not the rounded exact quotient times the quantum",
                                            f"{ex!r}; quantum {g!r}; ratio {ratio!r}")
                if fa[1] == "floordiv":
                    m0 = RF.atom(fa)
                    ok = arg.equals(ratio) and (ex.equals(m0 * g) or ex.equals((m0 + RF.const(1)) * g))
                    return None if ok else ("fraction path: not floor or floor+1 times the quantum",
                                            f"{ex!r}; quantum {g!r}; ratio {ratio!r}")
                return ("result is not an integer multiple of the quantum", repr(ex))
            cr.run("R13.3", qz, f"quantize same type [{fl}], {mlabel}", setup, judge,
                   flag_kinds=("float-arith", "int-div", "none-operand", "none-attribute", "float-call"))
    cr.run("R13.4", qz, "quantum of another type", two_qty_other_type("ref"),
           lambda o: expect_raise(o, ["TypeError"]))
    cr.run("R13.4", qz, "quantum is a number", qty_and_num("ref", "dec"),
           lambda o: expect_raise(o, ["TypeError", "AttributeError"]), flag_kinds=())
    for fl in ("noref", "money"):
        cr.run("R13.4", qz, f"type without reference unit [{fl}]", two_qty_same_type(fl),
               lambda o: expect_raise(o, ["TypeError"]))
    rd = prog.method("Quantity", "__round__")
    for fl in ("ref", "ref+quantum", "money"):
        def setup_r(c, fl=fl):
            c.new_type("T", **FLAVORS[fl])
            return [c.qty("self", c.unit("us", "T")), Num(RF.atom(("k", "nd")), "int")], {}

        def judge_r(o):
            st = o.state
            if o.kind == "raise":
                return (exc_sig(o), "")
            s = o.args[0]
            r = judge_qty(o, unit=s.unit, tid=s.tid, max_depth=1)
            if r:
                return r
            ex = st.expand_rnd(o.value.amount.rf)
            fns = [a for a in ex.atoms() if a[0] == "fn" and a[1] == "round"]
            if len(fns) != 1 or not ex.equals(RF.atom(fns[0])) or \
                    not st.norm(st.rnd_args[fns[0][2]]).equals(st.norm(s.amount.rf)):
                return ("round() does not round the amount itself", repr(ex))
            eff = [e for e in st.effects if e[0] == "pyround"]
            if not eff or not isinstance(eff[-1][2], Num) or not st.norm(eff[-1][2].rf).equals(RF.atom(("k", "nd"))):
                return ("number of digits not passed to round()", repr(eff))
            return None
        cr.run("R13.5", rd, f"__round__ [{fl}]", setup_r, judge_r)

        def setup_r0(c, fl=fl):
            c.new_type("T", **FLAVORS[fl])
            return [c.qty("self", c.unit("us", "T"))], {}

        def judge_r0(o, judge_r=judge_r):
            # round(q): no number of digits means none after the point (0, or None as for the built-in numbers)
            st = o.state
            if o.kind == "raise":
                return (exc_sig(o), "")
            eff = [e for e in st.effects if e[0] == "pyround"]
            nd = eff[-1][2] if eff else "?"
            if not (nd is None or isinstance(nd, NoneV) or (isinstance(nd, Num) and st.norm(nd.rf).equals(RF.const(0)))):
                return ("round(q) does not round to whole amounts", repr(nd))
            s = o.args[0]
            return judge_qty(o, unit=s.unit, tid=s.tid, max_depth=1)
        cr.run("R13.5", rd, f"__round__ without digits [{fl}]", setup_r0, judge_r0)

    res.require("R13.1", 16)
    res.require("R13.2", 3)
    res.require("R13.3", 4)
    res.require("R13.4", 4)
    res.require("R13.5", 6)
    return res
