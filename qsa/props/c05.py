"""C05 — quantized types hold the nearest multiple of the quantum, rounded once."""
from __future__ import annotations

import ast

from ..contracts import *  # noqa: F401,F403
from ..effects import CallGraph, check_ownership, inventory
from ..loader import AnalysisError, src_of
from ..opcases import op_cases
from ..report import Result

TECHNIQUE = ("ownership rule (single constructor choke point) + abstract interpretation of the constructor's "
             "quantum step and of every producing operator with a rounding-depth domain")

AMOUNT_KINDS = ["dec", "frac", "int", "stddec", "float", "bool"]


def ctor_cases(prog, cr: CaseRunner, rule="R05.2", flavors=("ref", "ref+quantum", "money", "noref")):
    """K11: every path of Quantity.__new__ that stores the fields passes through the quantum step."""
    new = prog.method("Quantity", "__new__")
    for kind in AMOUNT_KINDS:
        for fl in flavors:
            def setup(c, fl=fl, kind=kind):
                c.new_type("T", **FLAVORS[fl])
                return [c.cls("T"), c.num("x", kind), c.unit("us", "T")], {}

            def judge(o, fl=fl, kind=kind):
                st = o.state
                if o.kind == "raise":
                    return (exc_sig(o), "contract: instance holding the given number")
                v = o.value
                if not isinstance(v, QtyV) or v.amount is None or v.unit is None:
                    return ("constructor returns no complete instance", repr(v))
                x = RF.atom(("k", "x"))
                u = o.args[2]
                if st.same_unit(v.unit.uid, u.uid) is not True:
                    return ("wrong unit stored", repr(v))
                if v.amount.kind == "float":
                    return ("float amount stored", repr(v))
                if fl in ("ref+quantum", "money"):
                    q = RF.atom(("sf", st.ufind(u.uid))) if fl == "money" else \
                        RF.atom(("Qm", "T")) * RF.atom(("rho", "T")) / mu_of(st, u)
                    want = st.rnd(0, x / st.norm(q)) * st.norm(q)
                    got = st.norm(v.amount.rf)
                    if not got.equals(st.norm(want)):
                        return ("amount not rounded to the unit's quantum",
                                f"stored {got!r}, contract {st.norm(want)!r}")
                    rounds = [e for e in st.effects if e[0] == "round"]
                    if len(rounds) != 1 or rounds[0][1] != 0:
                        return ("quantisation primitive is not one precision-0 Decimal construction", repr(rounds))
                else:
                    got = st.norm(v.amount.rf)
                    if not got.equals(x):
                        return ("amount altered for a type without quantum", f"stored {got!r}")
                return None
            cr.run(rule, new, f"amount {kind}, unit given [{fl}]", setup, judge, inline_ctor=True)
    if "ref+quantum" not in flavors:
        return
    # unit omitted -> reference unit; generic factory -> unit's type
    for fl in ("ref+quantum",):
        def setup_nounit(c, fl=fl):
            c.new_type("T", **FLAVORS[fl])
            return [c.cls("T"), c.num("x", "dec")], {}

        def judge_nounit(o):
            st = o.state
            if o.kind == "raise":
                return (exc_sig(o), "contract: instance in the reference unit")
            v = o.value
            ok = isinstance(v, QtyV) and v.unit is not None and st.same_unit(v.unit.uid, st.ref_unit("T")) is True
            if not ok:
                return ("default unit is not the reference unit", repr(v))
            want = st.rnd(0, RF.atom(("k", "x")) / RF.atom(("Qm", "T"))) * RF.atom(("Qm", "T"))
            if not st.norm(v.amount.rf).equals(st.norm(want)):
                return ("amount not rounded to the quantum", repr(st.norm(v.amount.rf)))
            return None
        cr.run(rule, new, f"unit omitted [{fl}]", setup_nounit, judge_nounit, inline_ctor=True)

    def setup_generic(c):
        c.new_type("T", **FLAVORS["ref+quantum"])
        return [ClsV(c.m.special_type("Quantity")), c.num("x", "dec"), c.unit("us", "T")], {}

    def judge_generic(o):
        st = o.state
        if o.kind == "raise":
            return (exc_sig(o), "")
        v = o.value
        if not isinstance(v, QtyV) or st.same_type(v.tid, "T") is not True:
            return ("generic factory does not dispatch to the unit's type", repr(v))
        if st.rnd_depth(v.amount.rf) != 1:
            return ("generic factory skips the quantum step", repr(v))
        return None
    cr.run(rule, new, "generic factory, quantized unit", setup_generic, judge_generic, inline_ctor=True)


def quantum_cases(prog, cr: CaseRunner, rule="R05.3"):
    uq = prog.method("Unit", "quantum")
    for fl in ("ref", "ref+quantum", "noref"):
        def setup(c, fl=fl):
            c.new_type("T", **FLAVORS[fl])
            return [c.unit("us", "T")], {}

        def judge(o, fl=fl):
            st = o.state
            if o.kind == "raise":
                return (exc_sig(o), "")
            if fl != "ref+quantum":
                return None if isinstance(o.value, NoneV) else ("quantum for a type without quantum", repr(o.value))
            want = RF.atom(("Qm", "T")) * RF.atom(("rho", "T")) / mu_of(st, o.args[0])
            return judge_num(o, want)
        cr.run(rule, uq, f"Unit.quantum [{fl}]", setup, judge)
    cq = prog.method("Currency", "quantum")

    def setup_m(c):
        c.new_type("T", **FLAVORS["money"])
        return [c.unit("us", "T")], {}
    cr.run(rule, cq, "Currency.quantum", setup_m,
           lambda o: (exc_sig(o), "") if o.kind == "raise" else
           judge_num(o, RF.atom(("sf", o.state.ufind(o.args[0].uid)))))
    # dynamic dispatch reaches Currency.quantum: Money's unit class is Currency
    money = prog.cls("Money")
    uc = money.attrs.get("_unit_cls")
    cr.res.ob(rule, "Money._unit_cls", "is Currency", uc is not None and src_of(uc) == "Currency",
              f"Money._unit_cls = {src_of(uc) if uc is not None else None}", sig="money units are not currencies",
              nontrivial=False)
    cur = prog.cls("Currency")
    cr.res.ob(rule, "Currency", "subclass of Unit", "Unit" in cur.base_names, str(cur.base_names),
              sig="Currency is not a Unit", nontrivial=False)


def choke_point_rules(prog, res: Result):
    """R05.1: _amount/_unit are stored only by the constructor (plus allocation's quantum step)."""
    writes = inventory(prog)
    cg = CallGraph(prog)
    n = len(check_ownership(res, "R05.1", writes, "_amount",
                            {"Quantity.__new__": {"="}, "Quantity.allocate": {"aug"}}, cg))
    n += len(check_ownership(res, "R05.1", writes, "_unit", {"Quantity.__new__": {"="}}, cg))
    if n < 2:
        raise AnalysisError(f"R05.1: {n} stores of quantity fields found, at least 2 expected (amount, unit)")
    # no alternative creation path for quantity instances
    for cname in ("Quantity", "Money"):
        ci = prog.cls(cname)
        for meth in ("__init__", "__setstate__", "__setattr__", "__init_subclass__"):
            res.ob("R05.1", f"{cname}.{meth}", "absent", meth not in ci.methods,
                   f"{cname} defines {meth}: a second way to create or alter instances must round to the quantum",
                   sig=f"alternative instance creation path {meth}", nontrivial=False)
        # copy / pickle protocol methods (absent today) are fine as long as what they return leads back through
        # the constructor: the receiver itself, a quantity built by the constructor, or (class, argument tuple)
        for meth in ("__reduce__", "__reduce_ex__", "__copy__", "__deepcopy__"):
            if meth not in ci.methods:
                res.ob("R05.1", f"{cname}.{meth}", "absent or re-creating through the constructor", True, "absent",
                       nontrivial=False)
                continue
            from ..contracts import CaseRunner as _CR
            fi = ci.methods[meth]
            extra = {"__reduce_ex__": 1, "__deepcopy__": 1}.get(meth, 0)

            def setup(c, cname=cname, extra=extra):
                c.new_type("T", **FLAVORS["money" if cname == "Money" else "ref+quantum"])
                return [c.qty("self", c.unit("us", "T"))] + [OpaqueV("arg")] * extra, {}

            def judge(o):
                if o.kind == "raise":
                    return None
                q, v = o.args[0], o.value
                if v is q:
                    return None
                if isinstance(v, QtyV) and v.fresh:
                    return judge_qty(o, unit=q.unit, value=VAL(o, 0), max_depth=1)
                if isinstance(v, TupleV) and len(v.items) >= 2 and isinstance(v.items[0], (ClsV, TypeV)) \
                        and isinstance(v.items[1], TupleV):
                    return None
                return ("alternative instance creation path bypasses the constructor", repr(v))
            _CR(prog, res, max_depth=8).run("R05.1", fi, f"{cname}.{meth} leads back through the constructor", setup, judge)
    # functions reached from the metaclass's unit creators (today: none besides themselves)
    from ..anchors import unit_creator, ref_unit_creator, _direct_callees
    unit_making, todo_ = [], [(unit_creator(prog), 0), (ref_unit_creator(prog), 0)]
    while todo_:
        g_, d_ = todo_.pop(0)
        if any(g_ is x for x in unit_making):
            continue
        unit_making.append(g_)
        if d_ < 3:
            todo_.extend((h_, d_ + 1) for h_ in _direct_callees(prog, g_) if h_.cls is None or h_.cls.name in ("QuantityMeta", "MoneyMeta"))
    raw = []
    for fi in prog.all_functions():
        for nd in ast.walk(fi.node):
            if isinstance(nd, ast.Call) and isinstance(nd.func, ast.Attribute) and nd.func.attr == "__new__":
                s = src_of(nd.func.value)
                raw.append((fi, nd, s))
    for fi, nd, s in raw:
        ok = True
        why = ""
        if fi.qualname == "Quantity.__new__":
            ok = s == "super()"
        elif fi.cls is not None and fi.cls.name in ("QuantityMeta", "MoneyMeta", "ClassWithDefinitionMeta"):
            # metaclass __new__ (class creation) or object.__new__(unit_cls) for units
            ok = s in ("super()", "object")
            if s == "object":
                # object.__new__(X): X must be the type's unit class (dataflow: X comes from `_unit_cls`), never a quantity class
                arg = nd.args[0] if nd.args else None
                srcs = {src_of(arg)} if arg is not None else set()
                if isinstance(arg, ast.Name):
                    for a2 in ast.walk(fi.node):
                        if isinstance(a2, ast.Assign) and any(isinstance(t, ast.Name) and t.id == arg.id for t in a2.targets):
                            srcs.add(src_of(a2.value))
                ok = any("_unit_cls" in x or x in ("Unit", "Currency") for x in srcs)
                why = f"raw object creation of {sorted(srcs)}"
        elif any(fi is g for g in unit_making):
            # a helper the unit creators hand the allocation to: it allocates what they allocate (units)
            ok = s in ("object", "super()")
            why = "allocation on behalf of the unit creator"
        else:
            ok = False
            why = "raw instance creation outside the constructors"
        res.ob("R05.1", fi.qualname, f"raw __new__ via {s}", ok, why or src_of(nd)[:80],
               sig="raw instance creation bypasses the constructor", nontrivial=False)


def run(prog, tier) -> Result:
    res = Result("C05")
    res.explanation = (
        "R05.1 shows by write-site inventory that quantity fields are stored only in Quantity.__new__ (single choke "
        "point). R05.2 evaluates the constructor abstractly for every amount kind and type flavour: whenever the "
        "unit has a quantum q the stored amount is rnd0(x/q)*q with one precision-0 Decimal construction and no "
        "explicit mode (so the active default mode applies), otherwise x unchanged. R05.3 checks the per-unit "
        "quantum Qm*rho/mu and the currency override. R05.4 evaluates every quantity-producing operator (all "
        "* / ** arms, +, -, neg, abs, convert, round, quantize) with a rounding-depth domain: the result carries "
        "exactly one rounding, applied to a rounding-free argument equal to the exact result on the stored operands.")
    res.trusted = ["decimalfp's Decimal(x, 0) rounds once with the active default mode (the eight modes and hence "
                   "the <1 quantum / <=1/2 quantum / directed-side bounds are the dependency's)",
                   "CPython metaclass protocol"]
    res.assumptions = ["a type with quantum has a reference unit (asserted in QuantityMeta.__new__, checked as R05.3b)"]
    cr = CaseRunner(prog, res, max_depth=8 if tier == "quick" else 12)
    choke_point_rules(prog, res)
    ctor_cases(prog, cr)
    quantum_cases(prog, cr)

    # R05.3b the class invariant "quantum => reference unit": declaring a quantum without a reference unit is rejected
    from ..declcases import base_types, create_class
    from ..engine_a import run_body

    def body_q(I, c):
        base_types(c)
        return create_class(prog, I, c, derived=False, ref_symbol=False, quantum=True)
    outs = run_body(prog, body_q, max_depth=12)
    res.paths += len(outs)
    accepted = [o for o in outs if o.kind == "return"]
    res.ob("R05.3b", "QuantityMeta.__new__", "quantum requires a reference unit", bool(outs) and not accepted,
           f"{len(accepted)} of {len(outs)} paths accept a quantum without reference unit",
           sig="quantum without reference unit accepted")

    # ... and a quantum declared together with a reference unit is the type's quantum
    def body_q2(I, c):
        base_types(c)
        cls = create_class(prog, I, c, derived=False, ref_symbol=True, ref_name=True, quantum=True)
        return I.models.get_attr(cls, "quantum", None)
    outs = run_body(prog, body_q2, max_depth=12)
    res.paths += len(outs)
    got = [o for o in outs if o.kind == "return"]
    okq = bool(got) and all(isinstance(o.value, Num) and o.state.norm(o.value.rf).equals(RF.atom(("k", "quantum"))) for o in got)
    res.ob("R05.3b", "QuantityMeta.__new__", "the declared quantum is the type's quantum", okq,
           f"{[o.brief()[:80] for o in outs][:3]}", sig="declared quantum not stored")

    # R05.4 rounded once: all multiplicative arms ...
    for rule, fi, label, setup, judge, kw in op_cases(prog, mode="rounding",
                                                      flavors=("ref+quantum", "money")):
        cr.run("R05.4", fi, label, setup, judge, **kw)
    # ... and the additive / unary / conversion producers
    Q = lambda n: prog.method("Quantity", n)
    for fl in ("ref+quantum", "money"):
        for name in ("__add__", "__sub__"):
            cr.run("R05.4", Q(name), f"{name} same type [{fl}]", two_qty_same_type(fl),
                   lambda o: None if o.kind == "raise" else judge_qty(o, max_depth=1))

        def one(c, fl=fl):
            c.new_type("T", **FLAVORS[fl])
            return [c.qty("self", c.unit("us", "T"))], {}
        for name in ("__neg__", "__abs__", "__round__", "__pos__"):
            cr.run("R05.4", Q(name), f"{name} [{fl}]", one,
                   lambda o: None if o.kind == "raise" else judge_qty(o, max_depth=1, allow_operand=o.args[0]))
        cr.run("R05.4", Q("convert"), f"convert [{fl}]", qty_and_unit_same_type(fl),
               lambda o: None if o.kind == "raise" else judge_qty(o, max_depth=1))

    res.require("R05.1", 15)
    res.require("R05.2", 26)
    res.require("R05.3", 6)
    res.require("R05.4", 60)
    return res
