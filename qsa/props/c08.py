"""C08 — money never mixes currencies implicitly and follows ISO 4217."""
from __future__ import annotations

import ast
from fractions import Fraction
import os
from xml.etree import ElementTree

from ..contracts import *  # noqa: F401,F403
from ..engine_a import run_body
from ..loader import AnalysisError, repo_root, src_of
from ..opcases import judge_product, _dims_sum, T_of
from ..report import Result

TECHNIQUE = ("abstract interpretation decision tables for the money flavour without converter; exhaustive "
             "data check of the bundled ISO 4217 table; positional dataflow agreement between table parser, "
             "record, and currency registration; validate-before-create ordering")


def no_converter(o) -> bool:
    return not any(e[0] == "convcall" for e in o.state.effects)


def only_without_converter(judge):
    def j(o):
        if not no_converter(o):
            return None
        return judge(o)
    return j


def tag_order_rules(prog, res: Result):
    """R08.2: XML data invariants + positional agreement in currencies.py / register_currency."""
    path = os.path.join(repo_root(), "src/quantity/money/iso_4217.xml")
    if not os.path.exists(path):
        raise AnalysisError("iso_4217.xml missing")
    root = ElementTree.parse(path).getroot()      # the data file, not repo code
    entries = root.findall("CcyTbl/CcyNtry")
    by_code = {}
    n5 = 0
    bad_order = []
    for e in entries:
        kids = list(e)
        tags = [k.tag for k in kids]
        if len(kids) == 5:
            n5 += 1
            if tags != ["CtryNm", "CcyNm", "Ccy", "CcyNbr", "CcyMnrUnts"]:
                bad_order.append(tags)
        code = e.findtext("Ccy")
        if code is None:
            continue
        num, minor = e.findtext("CcyNbr") or "", e.findtext("CcyMnrUnts") or ""
        if len(kids) == 5 and num.isdigit() and minor.isdigit():
            by_code.setdefault(code, []).append((e.findtext("CcyNm") or "", int(minor), int(num)))
    res.ob("R08.2", "iso_4217.xml", "child order of 5-child entries", not bad_order,
           f"{len(bad_order)} entries with another child order, e.g. {bad_order[:1]}",
           sig="XML child order differs from the positional unpack", evaluations=len(entries))
    incons = {c: v for c, v in by_code.items() if len({(n, m) for n, m, _ in v}) > 1}
    res.ob("R08.2", "iso_4217.xml", "entries of one code agree on name and minor units", not incons,
           f"inconsistent codes: {list(incons.items())[:2]}", sig="first-entry-wins would depend on table order",
           evaluations=len(by_code))
    res.extra["xml_entries"] = len(entries)
    res.extra["functional_currencies"] = len(by_code)
    if len(entries) < 250 or len(by_code) < 150:
        raise AnalysisError(f"ISO table shrank: {len(entries)} entries, {len(by_code)} currencies")
    res.samples.append({"iso_4217": {"entries": len(entries), "currencies": len(by_code),
                                     "example": {"JPY": by_code.get("JPY", [None])[0], "BHD": by_code.get("BHD", [None])[0]}}})

    # code side, evaluated: Engine D folds money/currencies.py over the real table (the checker's own XML reader
    # stands in for ElementTree) and the resulting dictionary is compared, currency by currency, with the
    # checker's own reading of the table: record = (code, numeric code, name, minor units, countries), first
    # entry of a code wins, later entries only add their country
    from ..catalogue import ModuleFold
    fold = ModuleFold(prog, "quantity.money.currencies")
    gi = prog.function("quantity.money.currencies", "get_currency_info")
    res.functions.add(gi.qualname)
    want = {}
    for e in entries:
        kids = list(e)
        if len(kids) != 5:
            continue
        texts = [k.text or "" for k in kids]
        country, name, code, num, minor = texts
        if not (num.isdigit() and minor.isdigit()):
            continue
        if code in want:
            want[code][4].append(country)
        else:
            want[code] = (code, int(num), name, int(minor), [country])
    bad, checked = [], 0
    for code, rec in want.items():
        kind, got = fold.apply(gi.name, code)
        checked += 1
        ok = kind == "return" and isinstance(got, (tuple, list)) and len(got) == 5 and \
            [fold._key(x) if not isinstance(x, list) else list(x) for x in got] == list(rec) and \
            all(isinstance(fold._key(got[i]), int) and not isinstance(got[i], bool) for i in (1, 3))
        if not ok:
            bad.append(f"{code}: parser gives {got!r}, table says {rec!r}")
    res.ob("R08.2", "money/currencies.py", "record layout (code, number, name, minor, countries) keyed by code", not bad,
           f"{len(bad)} of {checked} currencies differ, e.g. {bad[:2]}", sig="currency record layout changed",
           evaluations=checked)
    unknown = []
    for code in ("ZZ~", "", "eur", "XXXX"):
        if code in want:
            continue
        kind, got = fold.apply(gi.name, code)
        if not (kind == "raise" and got == "ValueError"):
            unknown.append(f"{code!r}: {kind} {got!r}")
    res.ob("R08.3", gi.qualname, "unknown code raises ValueError", not unknown, str(unknown),
           sig="unknown ISO code not rejected")
    res.extra["parsed_currencies_compared"] = checked
    if checked < 150:
        raise AnalysisError(f"only {checked} currencies compared")


def run(prog, tier) -> Result:
    res = Result("C08")
    res.explanation = (
        "R08.1: with the money flavour (no reference unit, currency quantum) and restricted to paths on which no "
        "converter is consulted, Engine A shows +, -, /, ordering and convert between different currencies raise "
        "UnitConversionError, == is False, money x money has no result unless a Money^2 type exists, and "
        "same-currency results stay in that currency. R08.2: all entries of the bundled ISO 4217 XML are checked "
        "for the child order and per-code consistency the positional parser relies on, and the record layout is "
        "traced positionally from the parser through the record to new_unit's (symbol, name, minor_unit). "
        "R08.3/4: registration is idempotent, unknown codes are rejected before any write, smallest fraction = "
        "10^-minor_unit is stored as the unit's quantum, and parameter validation precedes creation.")
    res.trusted = ["the bundled iso_4217.xml is the reference for names and minor units"]
    cr = CaseRunner(prog, res, max_depth=8 if tier == "quick" else 12)
    Q = lambda n: prog.method("Quantity", n)

    def money_pair(distinct):
        def setup(c):
            c.new_type("T", **FLAVORS["money"])
            us, uo = c.unit("us", "T"), c.unit("uo", "T")
            if distinct:
                c.st.distinct_units("us", "uo")
            else:
                c.st.unify_units("us", "uo")
            return [c.qty("self", us), c.qty("other", uo)], {}
        return setup

    def money_and_unit(distinct):
        def setup(c):
            c.new_type("T", **FLAVORS["money"])
            us, uo = c.unit("us", "T"), c.unit("uo", "T")
            if distinct:
                c.st.distinct_units("us", "uo")
            else:
                c.st.unify_units("us", "uo")
            return [c.qty("self", us), uo], {}
        return setup

    uce = only_without_converter(lambda o: expect_raise(o, ["UnitConversionError"]))
    for name in ("__add__", "__sub__", "__truediv__", "__lt__", "__le__", "__gt__", "__ge__"):
        cr.run("R08.1", Q(name), f"{name} different currencies, no converter", money_pair(True), uce,
               site=f"Quantity.{name}")
    cr.run("R08.1", Q("convert"), "convert different currencies, no converter", money_and_unit(True), uce)
    cr.run("R08.1", Q("__truediv__"), "money / other currency (unit), no converter", money_and_unit(True), uce)
    cr.run("R08.1", Q("__eq__"), "__eq__ different currencies, no converter", money_pair(True),
           only_without_converter(lambda o: None if (o.kind == "return" and isinstance(o.value, BoolV)
                                                     and not o.value.val) else ("mixed currencies not unequal", o.brief())))
    one, = [(1, 0)]
    cr.run("R08.1", Q("__mul__"), "money * money", money_pair(True),
           judge_product(lambda o: VAL(o, 0) * VAL(o, 1),
                         lambda o: _dims_sum(o.state, (T_of(o, 0), one), (T_of(o, 1), one))))
    # same currency stays in that currency
    cr.run("R08.1", Q("__add__"), "__add__ same currency", money_pair(False), judge_addsub(1, "money"))
    cr.run("R08.1", Q("__sub__"), "__sub__ same currency", money_pair(False), judge_addsub(-1, "money"))
    cr.run("R08.1", Q("__lt__"), "__lt__ same currency", money_pair(False), judge_compare("__lt__", "money"))
    cr.run("R08.1", Q("__eq__"), "__eq__ same currency", money_pair(False), judge_compare("__eq__", "money"))
    cr.run("R08.1", Q("__truediv__"), "__truediv__ same currency", money_pair(False),
           lambda o: (exc_sig(o), "") if o.kind == "raise" else judge_num(o, A_SELF / A_OTHER))
    cr.run("R08.1", Q("convert"), "convert same currency", money_and_unit(False),
           lambda o: (exc_sig(o), "") if o.kind == "raise" else judge_qty(o, unit=o.args[1], value=VAL(o, 0)))
    # no factor between currencies
    from ..anchors import factor_method
    gf = factor_method(prog)
    cr.run("R08.1", gf, "_get_factor between currencies", two_units_same_type("money"),
           lambda o: None if (o.kind == "return" and isinstance(o.value, NoneV)) else ("factor between currencies", o.brief()))

    # R08.1b Money has no reference unit / quantum keywords; currencies are base units
    money = prog.cls("Money")
    bad = set(money.class_kwds) & {"ref_unit_symbol", "ref_unit_name", "define_as", "quantum"}
    res.ob("R08.1b", "Money", "declared without reference unit", not bad, f"class keywords {sorted(money.class_kwds)}",
           sig="Money declares a reference unit or definition", nontrivial=False)
    mnu = prog.method("MoneyMeta", "new_unit")

    tag_order_rules(prog, res)
    from .c05 import quantum_cases, ctor_cases
    quantum_cases(prog, cr, rule="R08.2c")      # the currency's quantum is its smallest fraction
    ctor_cases(prog, cr, rule="R08.2d", flavors=("money",))   # every amount is rounded to it by the constructor

    # R08.2b smallest fraction = 10 ** -minor_unit, stored on the created unit; R08.4 validation precedes creation
    def nu_setup(minor, sf):
        def setup(c):
            c.new_type("T", **FLAVORS["money"])
            args = [c.cls("T"), StrV(None, "symbol"), StrV(None, "name")]
            kw = {}
            if minor is not None:
                kw["minor_unit"] = minor
            if sf is not None:
                kw["smallest_fraction"] = sf
            return args, kw
        return setup

    def persistent_writes(st):
        # (stores into directories and per-type maps; a memo of numbers computed from their keys is no declaration)
        from ..declcases import persistent_writes as _pw
        return _pw(st)

    def judge_nu(expect_sf):
        def judge(o):
            st = o.state
            if o.kind == "raise":
                if persistent_writes(st) and getattr(o.exc, "where", "").startswith("MoneyMeta.new_unit"):
                    return ("currency parameters rejected after the unit was registered", exc_sig(o))
                if o.exc.name in ("ValueError", "TypeError", "AssertionError"):
                    return None
                return (exc_sig(o), "")
            v = o.value
            if not isinstance(v, ObjV) or v.ci is None or v.ci.name != "Currency":
                return ("new_unit does not return a Currency", repr(v))
            # currencies are base units: no definition, no scale (hence no factor between currencies)
            if not isinstance(v.fields.get("_definition"), NoneV) or not isinstance(v.fields.get("_equiv"), NoneV):
                return ("currency created with a definition",
                        f"definition {v.fields.get('_definition')!r}, scale {v.fields.get('_equiv')!r}")
            sf = v.fields.get("_smallest_fraction")
            if not isinstance(sf, Num):
                return ("smallest fraction not stored", repr(sf))
            if expect_sf is not None and not st.norm(sf.rf).equals(st.norm(expect_sf)):
                return ("smallest fraction is not ten to the minus minor units", f"stored {st.norm(sf.rf)!r}, contract {expect_sf!r}")
            return None
        return judge
    Nn = Num(RF.atom(("n",)), "int")
    ten_minus_n = RF.const(10).pow_sym((0, -1))
    cr.run("R08.2b", mnu, "minor_unit given", nu_setup(Nn, None), judge_nu(ten_minus_n))
    cr.run("R08.2b", mnu, "defaults", nu_setup(None, None), judge_nu(RF.const(Fraction(1, 100))))
    # every number of minor units that occurs in ISO 4217 (0: JPY, 2, 3: KWD, 4: CLF) is accepted and gives 10^-k;
    # a negative one is rejected
    for k in (0, 1, 2, 3, 4):
        def judge_k(o, k=k):
            if o.kind == "raise" and str(getattr(o.exc, "where", "")).startswith("MoneyMeta.new_unit"):
                return ("valid number of minor units rejected", f"minor_unit={k}: {exc_sig(o)}")
            return judge_nu(RF.const(Fraction(1, 10 ** k)))(o)
        cr.run("R08.2b", mnu, f"minor_unit = {k}", nu_setup(Num(RF.const(k), "int"), None), judge_k)
    # smallest fractions that divide one (1/2, 1/4, 1/20, 1/1000) are accepted as given
    for num_, den_ in ((1, 2), (1, 4), (1, 20), (1, 1000)):
        sfc = Fraction(num_, den_)

        def judge_sf(o, sfc=sfc):
            if o.kind == "raise" and str(getattr(o.exc, "where", "")).startswith("MoneyMeta.new_unit"):
                return ("valid smallest fraction rejected", f"smallest_fraction={sfc}: {exc_sig(o)}")
            return judge_nu(RF.const(sfc))(o)
        cr.run("R08.4", mnu, f"smallest_fraction = {sfc}", nu_setup(None, Num(RF.const(sfc), "dec")), judge_sf)
    # both given: accepted when the fraction has exactly that many fractional digits, rejected otherwise; a smallest
    # fraction given as text is converted
    def judge_both(k, sfc, ok):
        def judge(o):
            if not ok:
                return expect_raise(o, ["ValueError"])
            if o.kind == "raise" and str(getattr(o.exc, "where", "")).startswith("MoneyMeta.new_unit"):
                return ("consistent minor units and smallest fraction rejected", f"minor_unit={k}, smallest_fraction={sfc}: {exc_sig(o)}")
            return judge_nu(RF.const(sfc))(o)
        return judge
    for k, sfc, ok in ((2, Fraction(1, 100), True), (2, Fraction(5, 100), True), (3, Fraction(1, 1000), True),
                       (2, Fraction(1, 1000), False), (3, Fraction(1, 100), False), (0, Fraction(1, 10), False)):
        cr.run("R08.4", mnu, f"minor_unit = {k} and smallest_fraction = {sfc}",
               nu_setup(Num(RF.const(k), "int"), Num(RF.const(sfc), "dec")), judge_both(k, sfc, ok))
    cr.run("R08.4", mnu, "smallest_fraction given as text '0.05'", nu_setup(None, StrV("0.05")),
           judge_both(None, Fraction(1, 20), True))
    # ... and those that do not (2/5, 3/10), zero and negative ones are rejected
    for num_, den_ in ((2, 5), (3, 10), (0, 1), (-1, 100)):
        cr.run("R08.4", mnu, f"smallest_fraction = {Fraction(num_, den_)}",
               nu_setup(None, Num(RF.const(Fraction(num_, den_)), "dec")), lambda o: expect_raise(o, ["ValueError"]))
    cr.run("R08.4", mnu, "minor_unit = -1", nu_setup(Num(RF.const(-1), "int"), None), lambda o: expect_raise(o, ["ValueError"]))
    cr.run("R08.4", mnu, "smallest_fraction given", nu_setup(None, Num(RF.atom(("k", "sf")), "dec")),
           judge_nu(RF.atom(("k", "sf"))))
    cr.run("R08.4", mnu, "both given", nu_setup(Nn, Num(RF.atom(("k", "sf")), "dec")), judge_nu(RF.atom(("k", "sf"))))
    cr.run("R08.4", mnu, "minor_unit not integral", nu_setup(Num(RF.atom(("k", "m")), "dec"), None),
           lambda o: expect_raise(o, ["TypeError"]))

    # R08.3 registration is idempotent; unknown code rejected before any write
    rc = prog.method("MoneyMeta", "register_currency")

    def rc_setup(c):
        c.new_type("T", **FLAVORS["money"])
        return [c.cls("T"), StrV(None, "code")], {}

    def judge_rc(o):
        st = o.state
        found = any(t.startswith("_unit_map(") and t.endswith("=found") for t in o.trace)
        if found:
            if o.kind != "return" or not isinstance(o.value, UnitV) or getattr(o.value, "from_symbol", None) is None:
                return ("registered currency is not returned as the identical object", o.brief())
            if persistent_writes(st):
                return ("re-registration writes to a directory", "")
            return None
        if o.kind == "raise":
            if persistent_writes(st):
                return ("rejected registration after a write", exc_sig(o))
            return None if o.exc.name in ("ValueError", "AssertionError") else (exc_sig(o), "")
        # a new currency: the record's fields (code, number, name, minor units, countries) reach the unit as
        # symbol = code, name = name, smallest fraction = 10 ** -minor units
        v = o.value
        if not isinstance(v, ObjV) or v.ci is None or v.ci.name != "Currency":
            return ("registration does not return a Currency", repr(v))
        sym, nm, sf = v.fields.get("_symbol"), v.fields.get("_name"), v.fields.get("_smallest_fraction")
        recs = [e[2] for e in st.effects if e[0] == "symlookup" and not getattr(e[1], "unit_values", False)
                and getattr(e[1], "owner", None) is None and e[3]]
        field = lambda x: (x.tag or "").rsplit(".", 1)[-1] if isinstance(x, StrV) else None
        if field(sym) != "0" or field(nm) != "2":
            return ("currency record fields passed in the wrong positions",
                    f"symbol from record field {field(sym)}, name from field {field(nm)}; record = (code, number, name, "
                    f"minor units, countries)")
        if not isinstance(sf, Num):
            return ("smallest fraction not stored", repr(sf))
        # the record's minor units: field 3 of the looked-up record (a symbolic integer, possibly pinned by the path)
        rec_atoms = {a_ for e in st.effects if e[0] == "symlookup" for a_ in ()}
        minor_atom = None
        for a_ in list(st.subst) + [getattr(st, "exp_symbol", None)] + list(st.norm(sf.rf).atoms()):
            if a_ is not None and a_[0] == "rec" and a_[-1] == 3:
                minor_atom = a_
        if minor_atom is None:
            return ("smallest fraction does not depend on the record's minor units",
                    f"stored {st.norm(sf.rf)!r}")
        mval = st.norm(RF.atom(minor_atom))
        if mval.is_const() and mval.const_value().denominator == 1:
            want_sf = RF.const(Fraction(10) ** -int(mval.const_value()))
        elif getattr(st, "exp_symbol", None) == minor_atom:
            want_sf = st.norm(RF.const(10).pow_sym((0, -1)))
        else:
            return ("smallest fraction is not ten to the minus minor units of the record",
                    f"stored {st.norm(sf.rf)!r}; minor units {mval!r}")
        if not st.norm(sf.rf).equals(want_sf):
            return ("smallest fraction is not ten to the minus minor units of the record",
                    f"stored {st.norm(sf.rf)!r}, contract {want_sf!r} (minor units {mval!r})")
        return None
    cr.run("R08.3", rc, "register_currency", rc_setup, judge_rc, min_paths=3)

    # R08.2e what a currency reports about itself is what was registered (the accessors' own code, evaluated)
    def acc(name):
        def body(I, c):
            c.new_type("M", **FLAVORS["money"])
            u = c.unit("cu", "M")
            fi = prog.lookup(prog.cls("Currency"), name)
            if fi is None:
                raise AnalysisError(f"Currency has no accessor {name}")
            c.st.acc = u
            return I.call_function(fi, [u], {})
        return body

    def acc_judge(name):
        def judge(o):
            st = o.state
            if o.kind == "raise":
                return (exc_sig(o), f"Currency.{name} raises")
            v, uid = o.value, st.ufind(st.acc.uid)
            if name in ("smallest_fraction", "quantum"):
                ok = isinstance(v, Num) and st.norm(v.rf).equals(RF.atom(("sf", uid)))
            elif name in ("iso_code", "symbol"):
                ok = isinstance(v, StrV) and v.tag == f"symbol({uid})"
            else:
                has_name = any(t.startswith("str-nonempty@") and t.endswith("=nonempty") for t in o.trace)
                ok = isinstance(v, StrV) and v.tag == (f"name({uid})" if has_name else f"symbol({uid})")
            return None if ok else (f"Currency.{name} does not report what was registered", repr(v))
        return judge
    for name in ("smallest_fraction", "quantum", "iso_code", "symbol", "name"):
        outs = run_body(prog, acc(name), max_depth=10)
        res.paths += len(outs)
        bad = [r for r in (acc_judge(name)(o) for o in outs) if r]
        res.ob("R08.2e", f"Currency.{name}", "reports what was registered", bool(outs) and not bad,
               "; ".join(f"{a}: {b}" for a, b in bad[:2]), sig=bad[0][0] if bad else "accessor wrong")

    res.require("R08.1", 18)
    res.require("R08.2e", 5)
    res.require("R08.2", 3)
    res.require("R08.2b", 2)
    res.require("R08.3", 2)
    res.require("R08.4", 3)
    return res
