"""C18 — construction is exact and the text form round-trips."""
from __future__ import annotations

import ast
from fractions import Fraction

from ..contracts import *  # noqa: F401,F403
from ..loader import AnalysisError, src_of
from ..report import Result
from .c05 import ctor_cases

TECHNIQUE = ("abstract interpretation of the constructor per amount kind (exact coercions only, quantum step the only "
             "rounding), outcome tables of the string path, text-template domain for str()/format() (evaluated writer) against the "
             "evaluated reader")


def template_of_joinedstr(js: ast.JoinedStr):
    out = []
    for v in js.values:
        if isinstance(v, ast.Constant):
            out.append(("text", v.value))
        elif isinstance(v, ast.FormattedValue):
            out.append(("field", src_of(v.value), v.conversion, src_of(v.format_spec) if v.format_spec else None))
    return out


def string_cases(prog, cr, rule="R18.4"):
    """Outcome tables of the string path of Quantity.__new__ (shared with C15) and the reader idiom."""
    new = prog.method("Quantity", "__new__")
    res = cr.res
    # ---- string path
    P = RF.atom(("parsed", "part0"))

    def setup_str(factory, with_unit, fl="ref"):
        def setup(c):
            c.new_type("T", **FLAVORS[fl])
            cls = ClsV(c.m.special_type("Quantity")) if factory == "generic" else c.cls("T")
            args = [cls, StrV(None, "text")]
            if with_unit:
                args.append(c.unit("us", "T"))
            return args, {}
        return setup

    def judge_str(factory, with_unit):
        def judge(o):
            st = o.state
            looks = [e for e in st.effects if e[0] == "symlookup" and getattr(e[1], "unit_values", False)]
            import re as _re
            for e in looks:
                k = e[2]
                if not (isinstance(k, StrV) and _re.fullmatch(r"part\d(\.[lr]?strip)*", k.tag or "")):
                    return ("symbol text is transformed before the directory lookup",
                            f"lookup key {k!r}: str(q) prints the registered symbol itself, so the reader must look up "
                            f"the (stripped) text after the first blank unchanged")
            has_symbol = bool(looks)
            sym_found = any(e[3] for e in looks)
            parses = [e for e in st.effects if e[0] == "parsed"]
            parse_fail = bool(parses) and not any(e[2] for e in parses)
            if o.kind == "raise":
                if not st.exc_is_qerr(o.exc.name):
                    return (exc_sig(o), "contract: QuantityError (or a subclass)")
                # whether a text is accepted does not depend on the value of a well-formed amount: no rejecting
                # path may have tested the parsed number (its sign, zero-ness, size)
                if parses and any(e[2] for e in parses):
                    tested = st.norm(P).is_const() or any(("parsed", "part0") in diff.atoms() for diff, _op, _r in st.cmp_raw)
                    if tested:
                        return ("well-formed amount rejected depending on its value",
                                f"{exc_sig(o)} on a path that tested the parsed amount "
                                f"({'equal to ' + repr(st.norm(P)) if st.norm(P).is_const() else 'compared'})")
                return None
            v = o.value
            if parse_fail:
                return ("malformed amount accepted", o.brief())
            if has_symbol and not sym_found:
                return ("unknown symbol accepted", o.brief())
            if not isinstance(v, QtyV) or v.amount is None or v.unit is None:
                return ("no instance", repr(v))
            if v.amount.kind == "float":
                return ("float amount stored", repr(v))
            if st.same_type(v.tid, st.unit_type(v.unit.uid)) is not True:
                return ("instance type differs from its unit's type", repr(v))
            symu = None
            for e in st.effects:
                if e[0] == "mapread" and isinstance(e[1], GlobalMapV) and isinstance(e[2], StrV):
                    pass
            # the unit obtained from the symbol (fresh unit created by the directory model)
            sym_units = [u for uid, u in st.units.items() if uid.startswith("U")]
            if with_unit:
                us = o.args[2]
                if st.same_unit(v.unit.uid, us.uid) is not True:
                    return ("explicit unit not honoured", repr(v))
                if has_symbol and sym_found:
                    su = UnitV(sym_units[0].uid)
                    want = P * mu_of(st, su)
                    return judge_qty(o, value=want, max_depth=2)
                return judge_qty(o, amount=P, max_depth=1)
            if not has_symbol:
                if factory == "generic":
                    return ("generic factory produced a quantity without a unit", repr(v))
                if st.same_unit(v.unit.uid, st.ref_unit("T")) is not True:
                    return ("default unit is not the reference unit", repr(v))
                return judge_qty(o, amount=P, max_depth=1)
            su = UnitV(sym_units[0].uid)
            if st.same_unit(v.unit.uid, su.uid) is not True:
                return ("unit is not the one registered under the symbol", repr(v))
            return judge_qty(o, amount=P, max_depth=1)
        return judge
    State.exc_is_qerr = lambda self, n: exc_is_a(n, {"QuantityError"})
    all_outs = []
    for factory in ("generic", "own type"):
        for wu in (False, True):
            all_outs += cr.run(rule, new, f"string, {factory} factory, {'explicit unit' if wu else 'no unit argument'}",
                               setup_str(factory, wu), judge_str(factory, wu), inline_ctor=True, min_paths=4)

    # reader idiom: amount and symbol are separated at the first blank, the symbol is stripped - read off the
    # evaluated paths (wherever the splitting is written), not off the constructor's source
    idioms, bad = set(), set()
    for o in all_outs:
        for e in o.state.effects:
            if e[0] != "strsplit" or not (isinstance(e[1], StrV) and (e[1].tag or "").split(".")[0] == "text"):
                continue
            args = []
            for a_ in e[3]:
                if isinstance(a_, StrV):
                    args.append(repr(a_.const))
                elif isinstance(a_, NoneV):
                    args.append("None")
                elif isinstance(a_, Num) and a_.rf.is_const():
                    args.append(str(a_.rf.const_value()))
                else:
                    args.append("?")
            idiom = f"{e[2]}({', '.join(args)})"
            idioms.add(idiom)
            ok = (e[2] == "split" and args in (["' '", "1"], ["None", "1"])) or (e[2] == "partition" and args == ["' '"])
            if e[2] == "regex":
                # a pattern as reader: decided on what it does to every text form "<amount>[ <symbol>]" of the
                # bounded corpus (qsa/regexmodel.py): amount and symbol come out as its two groups
                prof = e[5]
                ok = bool(prof["writer_ok"] and prof["amount_group"] and prof["symbol_group"])
                if not ok:
                    idiom += f" [text forms not decomposed, e.g. {prof['writer_bad'] or 'no amount/symbol group'}]"
            if not ok:
                bad.add(idiom)
    if not idioms:
        raise AnalysisError("anchor vanished: no splitting of the text on any evaluated path of Quantity.__new__")
    res.ob(rule + "i", "Quantity.__new__", "reader splits at the first blank", not bad, f"idiom {sorted(idioms)}",
           sig="reader does not separate amount and symbol at the first blank")


def run(prog, tier) -> Result:
    res = Result("C18")
    res.explanation = (
        "R18.1: Quantity.__new__ is evaluated abstractly for every amount kind (Decimal, Fraction, int, bool, stdlib "
        "decimal, float, str, other): the stored amount equals the given number exactly (floats through the exact "
        "Decimal/Fraction coercions; strings through Decimal, then Fraction, else QuantityError), no float is stored, "
        "and the only rounding is the quantum step. R18.3: str(q) is amount, one blank, unit symbol; the default "
        "format spec instantiates to the same template; the reader splits at the first blank, "
        "and a unit's str is the symbol the reader looks up. R18.4/5: unknown symbol, malformed amount, missing "
        "unit and unit of another type raise QuantityError; a string with an explicit different unit equals parsing "
        "and then converting; both factories yield the type of the symbol's unit.")
    res.trusted = ["Decimal(str)/Fraction(str) parse exactly what str(amount) prints (dependency / fractions)"]
    res.assumptions = ["NOT decided: that str(amount) re-parses to the identical number for every amount (dependency text forms)"]
    cr = CaseRunner(prog, res, max_depth=8 if tier == "quick" else 12)
    new = prog.method("Quantity", "__new__")

    ctor_cases(prog, cr, rule="R18.1")
    for lbl, mk in (("None", lambda c: NONE), ("list", lambda c: ListV([])), ("unit", lambda c: c.unit("ux", "T"))):
        def setup(c, mk=mk):
            c.new_type("T", **FLAVORS["ref"])
            return [c.cls("T"), mk(c), c.unit("us", "T")], {}
        cr.run("R18.1", new, f"amount {lbl}", setup, lambda o: expect_raise(o, ["TypeError"]), inline_ctor=True)

    def setup_badunit(c):
        c.new_type("T", **FLAVORS["ref"])
        return [c.cls("T"), c.num("x", "dec"), c.num("notaunit", "int")], {}
    cr.run("R18.1", new, "unit is not a Unit", setup_badunit, lambda o: expect_raise(o, ["TypeError"]), inline_ctor=True)

    def setup_nounit(c):
        c.new_type("T", **FLAVORS["noref"])
        return [c.cls("T"), c.num("x", "dec")], {}
    cr.run("R18.4", new, "no unit and no reference unit", setup_nounit,
           lambda o: expect_raise(o, ["QuantityError"]), inline_ctor=True)

    string_cases(prog, cr, rule="R18.4")

    # ---- R18.4c concrete text forms: every spelling of a number the amount classes print or accept (sign, decimal
    # point, exponent notation, ratio), alone or followed by one blank and a symbol, is read as exactly that number
    # and that symbol - whatever the reader does with the characters
    TEXTS = ["5", "-5", "+7", "1.5", ".5", "5.", "1e3", "2.5E-3", "1E+2", "1/3", "-2/7", " 12", "0", "0.00", "-0"]
    SYMS = [None, "m", "m/s", "fl oz"]

    def setup_concrete(text, sym, form="{t} {s}"):
        def setup(c):
            c.new_type("T", **FLAVORS["ref"])
            full = text if sym is None else form.format(t=text, s=sym)
            cls = c.cls("T") if sym is None else ClsV(c.m.special_type("Quantity"))
            return [cls, StrV(full)], {}
        return setup

    def judge_concrete(text, sym):
        want = Fraction(text.strip())

        def judge(o):
            st = o.state
            looks = [e for e in st.effects if e[0] == "symlookup" and getattr(e[1], "unit_values", False)]
            if o.kind == "raise":
                if sym is not None and looks and not any(e[3] for e in looks) and st.exc_is_qerr(o.exc.name):
                    keys = [e[2].const for e in looks if isinstance(e[2], StrV)]
                    if keys and all(k == sym for k in keys):
                        return None         # the symbol is not registered on this path
                    return ("symbol text is transformed before the directory lookup", f"looked up {keys!r} for {sym!r}")
                return ("well-formed text rejected", f"{exc_sig(o)} for {(text if sym is None else text + ' ' + sym)!r}")
            v = o.value
            if not isinstance(v, QtyV) or v.amount is None or v.unit is None:
                return ("no instance", repr(v))
            got = st.expand_rnd(v.amount.rf)        # (the symbol's type may declare a quantum: the exact value counts)
            if not (got.is_const() and got.const_value() == want):
                return ("text is not read as the number it spells", f"{text!r} read as {got!r}")
            if v.amount.kind == "float":
                return ("float amount stored", repr(v))
            if sym is None:
                if looks:
                    return ("a text without symbol triggers a symbol lookup", repr([e[2] for e in looks]))
                if st.same_unit(v.unit.uid, st.ref_unit("T")) is not True:
                    return ("default unit is not the reference unit", repr(v))
                return None
            keys = [e[2].const for e in looks if isinstance(e[2], StrV)]
            if keys != [sym]:
                return ("symbol text is transformed before the directory lookup", f"looked up {keys!r} for {sym!r}")
            return None
        return judge
    for text in TEXTS:
        for sym in (SYMS if text in ("5", "1e3", "1/3", "-5", "1.5") else SYMS[:2]):
            cr.run("R18.4c", new, f"text {(text if sym is None else text + ' ' + sym)!r}", setup_concrete(text, sym),
                   judge_concrete(text, sym), inline_ctor=True)

    # blanks around the two pieces belong to neither: the amount ends at the first blank, the symbol is what remains
    # without the blanks around it
    for form in ("{t}  {s}", "{t} {s} ", "  {t} {s}", "{t}   {s}  "):
        for text, sym in (("5", "m"), ("1.5", "fl oz")):
            cr.run("R18.4c", new, f"text {form.format(t=text, s=sym)!r}", setup_concrete(text, sym, form),
                   judge_concrete(text, sym), inline_ctor=True)

    # ---- R18.3 text template: writer / reader agreement, decided on the evaluated text (a template of literal
    # pieces and formatted values), not on how __str__ / __format__ are written
    qstr = prog.method("Quantity", "__str__")
    qfmt = prog.method("Quantity", "__format__")

    def setup_text(fl, with_spec):
        def setup(c):
            c.m.text_templates = True
            c.new_type("T", **FLAVORS[fl])
            q = c.qty("self", c.unit("us", "T"))
            return ([q, StrV("")] if with_spec else [q]), {}
        return setup

    def judge_text(what):
        def judge(o):
            st = o.state
            if o.kind == "raise":
                return (exc_sig(o), f"{what} raises")
            q = o.args[0]
            v = o.value
            if not isinstance(v, StrV):
                return (f"{what} is not text", repr(v))
            parts = c18_parts(v)
            want = "<amount> <unit symbol>"
            shown = " + ".join(repr(p[1]) + (f":{p[2]}" if len(p) > 2 else "") for p in parts)
            if len(parts) != 3 or [p[0] for p in parts] != ["val", "lit", "val"] or any(len(p) > 2 for p in parts):
                return (f"{what} is not '<amount> <unit>'", f"text = {shown}; contract {want}")
            a, sep, u = parts[0][1], parts[1][1], parts[2][1]
            if not (isinstance(a, Num) and st.norm(a.rf).equals(st.norm(q.amount.rf))):
                return (f"{what} is not '<amount> <unit>'", f"first piece {a!r} is not the amount; text = {shown}")
            if sep != " ":
                return (f"{what} is not '<amount> <unit>'", f"separator {sep!r}: the reader splits at one blank")
            if not (isinstance(u, StrV) and u.tag == f"symbol({st.ufind(q.unit.uid)})"):
                return ("text of the unit is not the symbol the reader looks up", f"last piece {u!r}; text = {shown}")
            return None
        return judge

    def c18_parts(v):
        if v.const is not None:
            return [("lit", v.const)]
        p = getattr(v, "parts", None)
        return list(p) if p is not None else [("val", v)]
    for fl in ("ref", "ref+quantum", "money"):
        cr.run("R18.3", qstr, f"str(q) [{fl}]", setup_text(fl, False), judge_text("str(q)"), flag_kinds=())
        cr.run("R18.3", qfmt, f"format(q, '') [{fl}]", setup_text(fl, True), judge_text("format(q) without spec"),
               flag_kinds=())
        cr.run("R18.3", qfmt, f"format(q) [{fl}]", setup_text(fl, False), judge_text("format(q) without spec"),
               flag_kinds=())
    # the unit's own text forms are its symbol
    def setup_utext(fl, with_spec):
        def setup(c):
            c.m.text_templates = True
            c.new_type("T", **FLAVORS[fl])
            u = c.unit("us", "T")
            return ([u, StrV("")] if with_spec else [u]), {}
        return setup

    def judge_utext(o):
        st = o.state
        if o.kind == "raise":
            return (exc_sig(o), "text form of a unit raises")
        v = o.value
        if not (isinstance(v, StrV) and v.tag == f"symbol({st.ufind(o.args[0].uid)})"):
            return ("text of the unit is not the symbol the reader looks up", repr(v))
        return None
    for fl in ("ref", "money"):
        cr.run("R18.3", prog.method("Unit", "__str__"), f"str(unit) [{fl}]", setup_utext(fl, False), judge_utext, flag_kinds=())
        cr.run("R18.3", prog.method("Unit", "__format__"), f"format(unit, '') [{fl}]", setup_utext(fl, True), judge_utext,
               flag_kinds=())
    dfl = prog.cls("Quantity").attrs.get("dflt_format_spec")
    for ci in prog.classes.values():
        if ci.name != "Quantity" and prog.is_subclass(ci, "Quantity"):
            for attr in ("dflt_format_spec",):
                ov = ci.attrs.get(attr)
                res.ob("R18.3", f"{ci.name}.{attr}", "subclass keeps the default template",
                       ov is None or (isinstance(ov, ast.Constant) and ov.value == "{a} {u}"),
                       f"{ci.name} overrides {attr} = {src_of(ov) if ov is not None else None}: format(q) without a "
                       f"spec then differs from str(q)", sig="subclass overrides the default text template",
                       nontrivial=False)
            for meth in ("__str__", "__format__"):
                res.ob("R18.3", f"{ci.name}.{meth}", "subclass does not override the text form", meth not in ci.methods,
                       f"{ci.name} defines {meth}", sig="subclass overrides the text form", nontrivial=False)

    res.require("R18.1", 28)
    res.require("R18.3", 5)
    res.require("R18.4i", 1)
    res.require("R18.4", 5)
    res.require("R18.4c", 38)
    return res
