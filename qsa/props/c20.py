"""C20 — predefined catalogue matches SI / international definitions and its docs."""
from __future__ import annotations

import ast
import json
import os
import re
from fractions import Fraction

from ..catalogue import Catalogue, parse_doc_tables, parse_decimal_or_fraction, term_symbol
from ..loader import AnalysisError, src_of
from ..report import Result, VERIF

TECHNIQUE = ("constant-propagating evaluation of the declarative catalogue with the checker's own semantics, "
             "compared exhaustively with independent SI / yard-pound reference tables and with the documentation tables")


def temp_formula(txt: str):
    """'[°F] = [°C] * 9/5 + 32' | '[K] = ([°F] + 459.67) * 5/9' | '[°C] = [K] - 273.15' -> (to, from, factor, offset)"""
    m = re.fullmatch(r"\[(.+?)\] = (.+)", txt.strip())
    if not m:
        return None
    to, rhs = m.group(1), m.group(2).strip()
    num = r"([0-9]+(?:[./][0-9]+)?)"
    m1 = re.fullmatch(r"\(\[(.+?)\] ([+-]) " + num + r"\) \* " + num, rhs)
    if m1:
        a = Fraction(m1.group(3)) * (1 if m1.group(2) == "+" else -1)
        f = Fraction(m1.group(4))
        return to, m1.group(1), f, a * f
    m2 = re.fullmatch(r"\[(.+?)\](?: \* " + num + r")?(?: ([+-]) " + num + r")?", rhs)
    if m2:
        f = Fraction(m2.group(2)) if m2.group(2) else Fraction(1)
        o = Fraction(m2.group(4)) * (1 if m2.group(3) == "+" else -1) if m2.group(4) else Fraction(0)
        return to, m2.group(1), f, o
    return None


def run(prog, tier) -> Result:
    res = Result("C20")
    res.exhaustive = True
    res.explanation = (
        "Engine D folds every declaration of predefined.py and si_prefixes.py with the checker's own semantics "
        "(scale = product of numeric factors along the definition chain; derived unit = product of component "
        "scales with the type definition's exponents; reference unit of a derived type = product of base reference "
        "units) in exact Fraction arithmetic and compares all units, type dimension vectors, the DataVolume quantum "
        "and all prefixes with hand-entered reference tables (SI brochure, IEC 80000-13, 1959 yard-pound "
        "agreement); every row of the documentation tables is compared with the computed scale, and the temperature "
        "documentation with the converter table. Arbitrary amounts then convert by the ratio of scales (C01).")
    res.trusted = ["oracle/si_reference.json, oracle/si_prefixes.json, oracle/temperature.json (hand-entered)"]
    from ..catalogue import ModuleRaises
    try:
        cat = Catalogue(prog)
    except ModuleRaises as e:
        res.ob("R20.1", "quantity.predefined", "the catalogue can be imported", False, str(e),
               sig="catalogue module raises at import time")
        return res
    ref = json.load(open(os.path.join(VERIF, "oracle", "si_reference.json"), encoding="utf-8"))["types"]
    unb = getattr(cat, "unbound_exports", [])
    res.ob("R20.1", "quantity.predefined.__all__", f"every exported name is bound ({len(getattr(cat, 'exported', []))} names)",
           not unb, f"`from quantity.predefined import *` raises AttributeError: {unb[:5]} listed in __all__ but not defined",
           sig="exported name not defined")
    res.functions.add("quantity.predefined (module-level declarations)")
    res.extra["catalogue_statements"] = cat.statements
    res.extra["catalogue_units"] = len(cat.units)

    # ---- R20.1 units, types
    by_type_sym = {(u.ctype.name, u.symbol): u for u in cat.units}
    by_var = {u.var: u for u in cat.units if u.var}
    matched = 0
    missing = []
    for tname, tinfo in ref.items():
        t = cat.types.get(tname)
        if t is None:
            missing.append(f"type {tname}")
            continue
        res.ob("R20.1t", f"predefined.{tname}", "dimension vector", t.dims() == tinfo["dims"],
               f"declared dimension {t.dims()}, reference {tinfo['dims']}", sig="wrong type dimension")
        if "quantum" in tinfo:
            res.ob("R20.1t", f"predefined.{tname}", "quantum", t.quantum == Fraction(tinfo["quantum"]),
                   f"declared quantum {t.quantum}, reference {tinfo['quantum']}", sig="wrong quantum")
        if tinfo["ref"] is not None:
            ok = t.ref_unit is not None and t.ref_unit.symbol == tinfo["ref"]
            res.ob("R20.1t", f"predefined.{tname}", "reference unit", ok,
                   f"reference unit {t.ref_unit.symbol if t.ref_unit else None}, reference table {tinfo['ref']}",
                   sig="wrong reference unit")
        for sym, scale in tinfo["units"].items():
            u = by_type_sym.get((tname, sym))
            if u is None:
                cand = [x for x in cat.units if x.symbol == sym]
                if cand:
                    res.ob("R20.1", f"unit {sym}", f"{tname}", False,
                           f"unit '{sym}' is declared under {cand[0].ctype.name}, reference says {tname}",
                           sig="unit under the wrong type")
                else:
                    missing.append(f"{tname}:{sym}")
                continue
            matched += 1
            want = None if scale is None else Fraction(scale)
            ok = u.scale == want
            res.ob("R20.1", f"unit {sym}", tname, ok,
                   f"predefined.py:{u.lineno} {u.var}: computed scale {u.scale} ({u.definition_text}), reference {want}",
                   sig="wrong scale",
                   sample={"unit": sym, "type": tname, "declared_as": u.definition_text or u.how,
                           "computed_scale": str(u.scale), "reference_scale": str(want)})
            # a definition must be of the declaring type
            dd = getattr(u, "def_dims", None)
            if dd is not None:
                res.ob("R20.1d", f"unit {sym}", tname, dd == u.ctype.dims(),
                       f"definition has dimension {dd}, declaring type {u.ctype.dims()}",
                       sig="definition of another dimension", nontrivial=False)
            mm = getattr(u, "mismatch", None)
            if mm:
                res.ob("R20.1d", f"unit {sym}", f"{tname} base units", False, f"base units do not match: {mm}",
                       sig="derived from units of the wrong base type", nontrivial=False)
    extra = [u for u in cat.units if u.symbol not in ref.get(u.ctype.name, {"units": {}})["units"]]
    for u in extra:
        res.notes.append(f"UNVERIFIED-ADDITION: {u.ctype.name} unit '{u.symbol}' has no row in the reference table")
    for m in missing:
        res.notes.append(f"MISSING-UNIT: {m}")
    res.extra["matched_units"] = matched
    res.extra["unverified_additions"] = len(extra)
    res.extra["missing_units"] = len(missing)
    if matched < 113 and not missing:
        raise AnalysisError(f"only {matched} of 113 reference rows matched and none reported missing")

    # ---- R20.2 prefixes
    pref = json.load(open(os.path.join(VERIF, "oracle", "si_prefixes.json"), encoding="utf-8"))["prefixes"]
    # the prefix constants are API (KILO, MILLI, ...): each SI prefix is looked up by the constant's name, and the
    # constant must carry that prefix's name, abbreviation and power of ten
    seen = 0
    by_var = {(p.var or "").upper(): p for p in cat.prefixes.values()}
    for nm, r in sorted(pref.items()):
        p = by_var.get(nm.upper())
        if p is None:
            res.ob("R20.2", f"si_prefixes.{nm.upper()}", "declared", False, f"no prefix constant {nm.upper()} in si_prefixes.py",
                   sig="SI prefix missing")
            continue
        seen += 1
        res.ob("R20.2", f"si_prefixes.{p.var}", "power of ten", p.exp == r[1] and p.abbr == r[0] and (p.name or "").lower() == nm,
               f"{p.var} = SIPrefix({p.name!r}, {p.abbr!r}, {p.exp}); SI: {nm.capitalize()!r}, {r[0]!r}, 10^{r[1]}", sig="wrong prefix")
    for p in cat.prefixes.values():
        if (p.var or "").lower() not in pref:
            res.notes.append(f"UNVERIFIED-ADDITION: prefix {p.var}")
    prog.method("SIPrefix", "factor")
    if cat.prefix_factor_ok is None:
        raise AnalysisError(f"SIPrefix.factor cannot be evaluated: {cat.prefix_factor_detail}")
    # evaluated for every prefix by Engine D (exact arithmetic; an int power with a negative exponent is a float)
    res.ob("R20.2", "SIPrefix.factor", "10 ** exp", cat.prefix_factor_ok, cat.prefix_factor_detail,
           sig="prefix factor is not ten to the exponent")

    # ---- R20.3 documentation tables
    sections = parse_doc_tables(cat.doc)
    doc_rows = 0
    for tname, t in cat.types.items():
        sec = sections.get(tname)
        if sec is None:
            res.ob("R20.3", f"doc section {tname}", "present", False, "no documentation section", sig="type undocumented")
            continue
        if t.ref_unit is None:
            continue
        listed = {}
        for tb in sec["tables"]:
            if tb["header"][:1] != ["Symbol"]:
                continue
            for row in tb["rows"]:
                doc_rows += 1
                sym, name, definition, equiv = (row + ["", "", "", ""])[:4]
                u = by_type_sym.get((tname, sym))
                if u is None:
                    res.ob("R20.3", f"doc row {tname}/{sym}", "symbol exists", False,
                           f"documented unit '{sym}' is not declared for {tname}", sig="documented unit missing")
                    continue
                listed[sym] = listed.get(sym, 0) + 1
                val = parse_decimal_or_fraction(equiv)
                ok = val is not None and u.scale is not None and val == u.scale / t.ref_unit.scale
                res.ob("R20.3", f"doc row {tname}/{sym}", "equivalent", ok,
                       f"documented equivalent '{equiv}', computed {u.scale / t.ref_unit.scale if u.scale is not None else None}",
                       sig="documented equivalent differs from the computed scale",
                       sample={"doc_row": [sym, name, definition, equiv], "computed": str(u.scale)})
        for u in t.units:
            if u is t.ref_unit:
                continue
            res.ob("R20.3", f"doc row {tname}/{u.symbol}", "listed once", listed.get(u.symbol, 0) == 1,
                   f"unit '{u.symbol}' appears {listed.get(u.symbol, 0)} times in the {tname} table",
                   sig="unit not documented exactly once", nontrivial=False)
    # temperature documentation against the converter table
    temp = cat.types.get("Temperature")
    rows = {}
    if temp is not None and temp.converters:
        for r in temp.converters[0]:
            if len(r) == 4 and all(hasattr(x, "symbol") for x in r[:2]):
                rows[(r[0].symbol, r[1].symbol)] = (r[2], r[3])
    sec = sections.get("Temperature")
    if sec and rows:
        def conv(frm, to, x):
            if frm == to:
                return x
            if (frm, to) in rows:
                f, o = rows[(frm, to)]
                return x * f + o
            if (to, frm) in rows:
                f, o = rows[(to, frm)]
                return (x - o) / f
            return None
        for tb in sec["tables"]:
            if tb["header"][:1] == ["Symbol"]:
                for row in tb["rows"]:
                    eq = row[2]
                    parts = re.split(r"\s*(=|≅)\s*", eq)
                    vals = []
                    for k in range(0, len(parts), 2):
                        m = re.fullmatch(r"(-?[0-9]+(?:[.,][0-9]+)?) (\S+)", parts[k].strip())
                        if not m:
                            vals = None
                            break
                        vals.append((m.group(1), m.group(2), parts[k - 1] if k else "="))
                    if not vals:
                        res.ob("R20.3", f"doc temperature row {row[0]}", "parsable", False, eq, sig="unparsable equivalents")
                        continue
                    base_txt, base_unit, _ = vals[0]
                    x0 = Fraction(base_txt.replace(",", "."))
                    for txt, unit, rel in vals[1:]:
                        doc_rows += 1
                        want = conv(base_unit, unit, x0)
                        bad_sep = "," in txt
                        got = Fraction(txt.replace(",", ".")) if not bad_sep else None
                        if rel == "=":
                            ok = (not bad_sep) and want is not None and got == want
                        else:
                            ok = (not bad_sep) and want is not None and abs(got - want) <= Fraction(1, 2000)
                        res.ob("R20.3", f"doc temperature {base_txt} {base_unit} -> {unit}", "equivalent", ok,
                               f"documented '{txt} {unit}', converter table gives {want}",
                               sig="documented temperature equivalent differs from the converter table")
            elif tb["header"] and tb["header"][0].startswith("from"):
                names = {"Celsius": "°C", "Fahrenheit": "°F", "Kelvin": "K"}
                for row in tb["rows"]:
                    for cell in row[1:]:
                        if cell in ("-", ""):
                            continue
                        doc_rows += 1
                        pf = temp_formula(cell)
                        if pf is None:
                            res.ob("R20.3", f"doc formula '{cell}'", "parsable", False, cell, sig="unparsable formula")
                            continue
                        to, frm, f, o = pf
                        a = conv(frm, to, Fraction(0))
                        b = conv(frm, to, Fraction(1))
                        ok = a is not None and (b - a) == f and a == o
                        res.ob("R20.3", f"doc formula {frm}->{to}", "matches table", ok,
                               f"documented '{cell}' = x*{f}+{o}; converter table gives x*{b - a if a is not None else None}+{a}",
                               sig="documented formula differs from the converter table")
    res.extra["doc_rows"] = doc_rows
    if doc_rows < 100:
        raise AnalysisError(f"only {doc_rows} documentation rows found (≈110 confirmed on the pinned tree)")

    # ---- R20.4 the documentation generator, evaluated over the evaluated catalogue: every unit of a type with a
    # reference unit is printed exactly once, in that type's table, with its computed equivalent
    gm = prog.modules.get("utils.make_predef_units_doc")
    if gm is not None:
        from ..catalogue import DocScript
        try:
            ds = DocScript(cat, gm)
        except AnalysisError:
            if res.violations:
                ds = None       # the script is outside the evaluator's language: what was found so far stands
            else:
                raise
        gen = parse_doc_tables(ds.text()) if ds is not None else {}
        gen_rows = 0
        for tname, t in (cat.types.items() if ds is not None else ()):
            sec = gen.get(tname)
            if t.ref_unit is None or t.ref_unit.scale is None:
                continue
            others = [u for u in t.units if u is not t.ref_unit]
            if sec is None:
                res.ob("R20.4", f"generated section {tname}", "printed", False, "the generator prints no section for the type",
                       sig="generator omits a type")
                continue
            printed = {}
            for tb in sec["tables"]:
                if tb["header"][:1] != ["Symbol"]:
                    continue
                for row in tb["rows"]:
                    gen_rows += 1
                    sym, _name, _def, equiv = (row + ["", "", "", ""])[:4]
                    printed.setdefault(sym, []).append(equiv)
            for u in others:
                got = printed.get(u.symbol, [])
                val = parse_decimal_or_fraction(got[0]) if len(got) == 1 else None
                want = u.scale / t.ref_unit.scale if u.scale is not None else None
                res.ob("R20.4", f"generated row {tname}/{u.symbol}", "equivalent column = computed scale",
                       len(got) == 1 and val is not None and val == want,
                       f"the generator prints {got!r} for '{u.symbol}', computed equivalent {want}",
                       sig="generator does not print the computed equivalent", nontrivial=False)
            extra = sorted(set(printed) - {u.symbol for u in others})
            res.ob("R20.4", f"generated section {tname}", "no other rows", not extra, f"rows for {extra}",
                   sig="generator prints rows for undeclared units", nontrivial=False)
        res.extra["generated_rows"] = gen_rows
        if ds is not None and gen_rows < 80:
            raise AnalysisError(f"the evaluated generator prints only {gen_rows} unit rows (≈100 expected)")

    res.require("R20.1", 113)
    res.require("R20.1t", 14)
    res.require("R20.2", 21)
    res.require("R20.3", 100)
    return res
