"""C16 — rejected declarations leave no trace."""
from __future__ import annotations

from ..contracts import *  # noqa: F401,F403
from ..declcases import base_types, cls_definition, create_class, persistent_writes
from ..engine_a import run_body
from ..models import DictV
from ..report import Result, Violation

TECHNIQUE = ("validate-before-mutate: abstract interpretation of every declaration entry point with an effect log; "
             "no path may raise after its first persistent write")


def check_entry(prog, res: Result, rule, site, case, body, preexisting_of=None, max_depth=12, min_raising=1,
                min_accepting=1, snap_of=None):
    outs = run_body(prog, body, max_depth=max_depth)
    res.paths += len(outs)
    res.functions.add(site)
    fails = []
    n_raise = 0
    n_ok = 0
    for o in outs:
        if o.kind == "raise":
            n_raise += 1
            pre = preexisting_of(o) if preexisting_of else ()
            w = persistent_writes(o.state, pre)
            if snap_of is not None:
                before, after = snap_of(o)
                if before != after:
                    fails.append(Violation(rule, site, case, f"{exc_sig(o)} after the object was changed",
                                           f"rejected with {o.exc.name}; before {before!r}, after {after!r}"[:500], list(o.trace)))
            if w:
                what = sorted({f"{x[0]} {x[1]}{'.' + x[2] if x[0] in ('mapcall', 'listop', 'setattr', 'dictcall') else ''}"
                               for x in w})
                fails.append(Violation(rule, site, case, f"{exc_sig(o)} after a persistent write",
                                       f"rejected with {o.exc.name} after: {what}", list(o.trace)))
        else:
            n_ok += 1
    if n_raise < min_raising or n_ok < min_accepting:
        fails.append(Violation(rule, site, case, "entry point not exercised",
                               f"{n_ok} accepting and {n_raise} rejecting paths"))
    res.obligations += 1
    res.evaluations += max(1, len(outs))
    res.rules[rule] = res.rules.get(rule, 0) + 1
    res.nontrivial_keys.add((rule, site, case))
    if not fails:
        res.discharged += 1
    res.violations.extend(fails)
    if len(res.samples) < 10:
        res.samples.append({"entry_point": site, "case": case, "accepting_paths": n_ok, "rejecting_paths": n_raise,
                            "verdict": "ok" if not fails else fails[0].sig})


def run(prog, tier) -> Result:
    res = Result("C16")
    res.explanation = (
        "Each declaration entry point - class creation (metaclass __new__ followed by __init__), new_unit (quantity / "
        "term / no definition / invalid), derive_unit_from, MoneyMeta.new_unit, register_currency and "
        "MoneyConverter.update - is evaluated abstractly on all paths with an effect log. On every path that ends in "
        "an exception the log must contain no persistent write (store into the symbol directory, a per-type unit "
        "map, the term directory, the type registry, a converter list or a pre-existing object), so every directory "
        "and every later result is as if the attempt had never been made; the symbol stays available and parsing "
        "cannot yield the rejected type because nothing was registered.")
    res.trusted = ["memo fields Term._normalized/_hash and the operation cache are transparent (C17)"]
    res.assumptions = ["interpreter-level exceptions (MemoryError, KeyboardInterrupt) are not modelled"]

    # ---- class creation
    for derived in (False, True):
        for ref in (False, True):
            def body(I, c, derived=derived, ref=ref):
                base_types(c)
                return create_class(prog, I, c, derived=derived, ref_symbol=ref, ref_name=ref)
            check_entry(prog, res, "R16.1", "QuantityMeta.__new__/__init__",
                        f"class creation derived={derived} ref_unit_symbol={ref}", body,
                        min_raising=0 if not (derived or ref) else 1)

    # a derived type over a base type without reference unit: no reference unit can be derived from the definition,
    # one is registered only when its symbol is given explicitly
    for ref in (False, True):
        def body_nr(I, c, ref=ref):
            base_types(c, second_has_ref=False)
            return create_class(prog, I, c, derived=True, ref_symbol=ref, ref_name=ref)
        check_entry(prog, res, "R16.1", "QuantityMeta.__new__/__init__",
                    f"class creation derived from a type without reference unit, ref_unit_symbol={ref}", body_nr)

    def body_q(I, c):
        base_types(c)
        return create_class(prog, I, c, derived=False, ref_symbol=True, ref_name=True, quantum=True)
    check_entry(prog, res, "R16.1", "QuantityMeta.__new__/__init__", "class creation with quantum", body_q)

    # ---- new_unit
    nu = prog.method("QuantityMeta", "new_unit")

    def nu_body(kind):
        def body(I, c):
            base_types(c)
            cls = c.cls("T1")
            sym = StrV(None, "symbol")
            if kind == "quantity same type":
                d = c.qty("d", c.unit("ud", "T1"))
            elif kind == "quantity other type":
                d = c.qty("d", c.unit("ud", "T2"))
            elif kind == "term":
                u1, u2 = c.unit("u1", "T1"), c.unit("u2", "T2")
                d = TermV(mu_of(c.st, u1), {"T1": (1, 0), "T2": (1, 0)})
                d.dims = {"T1": (1, 0)}
            elif kind == "none":
                d = NONE
            elif kind == "number":
                d = c.num("k", "dec")
            elif kind == "symbol not str":
                sym = c.num("k", "int")
                d = NONE
            return I.call_function(nu, [cls, sym, StrV(None, "name"), d], {})
        return body
    for kind in ("quantity same type", "quantity other type", "term", "none", "number", "symbol not str"):
        check_entry(prog, res, "R16.1", "QuantityMeta.new_unit", f"define_as {kind}", nu_body(kind),
                    preexisting_of=None, min_raising=1,
                    min_accepting=0 if kind in ("quantity other type", "number", "symbol not str") else 1)

    # ---- derive_unit_from
    du = prog.method("QuantityMeta", "derive_unit_from")

    def du_body(kind):
        def body(I, c):
            base_types(c)
            c.new_type("D", has_ref=True, has_quantum=False, money=False)
            c.st.type_defs["D"] = cls_definition(c)
            cls = c.cls("D")
            u1, u2 = c.unit("u1", "T1"), c.unit("u2", "T2")
            args = {"matching": [u1, u2], "swapped": [u2, u1], "arity": [u1], "non-unit": [u1, c.num("k", "int")]}[kind]
            return I.call_function(du, [cls] + args, {"symbol": StrV(None, "symbol")})
        return body
    for kind in ("matching", "swapped", "arity", "non-unit"):
        check_entry(prog, res, "R16.1", "QuantityMeta.derive_unit_from", f"units {kind}", du_body(kind),
                    min_accepting=1 if kind == "matching" else 0)

    def du_base(I, c):
        base_types(c)
        return I.call_function(du, [c.cls("T1"), c.unit("u1", "T1")], {})
    outs = run_body(prog, du_base, max_depth=12)
    res.ob("R16.1", "QuantityMeta.derive_unit_from", "base type rejected without write",
           all(o.kind == "raise" and not persistent_writes(o.state) for o in outs) and bool(outs),
           f"{[o.brief() for o in outs][:3]}", sig="derive_unit_from on a base type not rejected cleanly")

    # ---- currencies
    mnu = prog.method("MoneyMeta", "new_unit")

    def mnu_body(kind):
        def body(I, c):
            c.new_type("M", **FLAVORS["money"])
            kw = {}
            if kind in ("minor", "both"):
                kw["minor_unit"] = Num(RF.atom(("n",)), "int")
            if kind in ("fraction", "both"):
                kw["smallest_fraction"] = Num(RF.atom(("k", "sf")), "dec")
            if kind == "bad minor":
                kw["minor_unit"] = c.num("m", "dec")
            return I.call_function(mnu, [c.cls("M"), StrV(None, "symbol"), StrV(None, "name")], kw)
        return body
    for kind in ("minor", "fraction", "both", "bad minor", "defaults"):
        check_entry(prog, res, "R16.1", "MoneyMeta.new_unit", f"parameters {kind}", mnu_body(kind),
                    min_accepting=0 if kind == "bad minor" else 1)
    rc = prog.method("MoneyMeta", "register_currency")

    def rc_body(I, c):
        c.new_type("M", **FLAVORS["money"])
        return I.call_function(rc, [c.cls("M"), StrV(None, "code")], {})
    check_entry(prog, res, "R16.1", "MoneyMeta.register_currency", "any code", rc_body)

    # ---- converter update
    # the converter is built by its own constructor (and, for a later update, one accepted update of yearly rates);
    # a rejected update must leave the whole evaluated object graph of the converter as it was
    from .c11 import Scenario, snapshot
    up = prog.method("MoneyConverter", "update")

    def up_body(vkind, prior):
        def body(I, c):
            s = Scenario(c, prog)
            if prior is not None:
                v0, p0 = s.validity(prior, "p")
                s.update(v0, p0, ["ca"])
            spec1 = TupleV([s.cur["cb"], c.num("ta1", "dec"), c.num("um1", "int")])
            spec2 = TupleV([StrV(None, "code"), c.num("ta2", "frac"), c.num("um2", "int")])
            v, _p = s.validity(vkind, "q")
            s.before = snapshot(c.st, s.conv)
            return I.call_function(up, [s.conv, v, ListV([spec1, spec2])], {})
        return body
    for vk in ("None", "year", "text", "month", "date"):
        for prior in (None, "year"):
            check_entry(prog, res, "R16.1", "MoneyConverter.update",
                        f"validity {vk}, {'first' if prior is None else 'later'} update", up_body(vk, prior),
                        snap_of=lambda o: (o.state.scn.before, snapshot(o.state, o.state.scn.conv)),
                        min_accepting=0 if (prior == "year" and vk not in ("year", "text")) else 1)
    for vk in ("year 0", "month 13"):
        # a period that does not exist: rejected, and nothing is left behind
        check_entry(prog, res, "R16.1", "MoneyConverter.update", f"validity {vk}, first update", up_body(vk, None),
                    snap_of=lambda o: (o.state.scn.before, snapshot(o.state, o.state.scn.conv)), min_accepting=0)

    res.require("R16.1", 30)
    return res
