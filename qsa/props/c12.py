"""C12 — converter registration is last-in-first-out and restores prior behaviour."""
from __future__ import annotations

import ast

from ..contracts import *  # noqa: F401,F403
from ..effects import CallGraph, check_ownership, inventory
from ..loader import AnalysisError, src_of
from ..report import Result

TECHNIQUE = ("stack typestate over the abstractly interpreted mutators (push / guarded index-less pop, "
             "no mutation on rejecting paths), enter/exit pairing, ownership of the converter list")


def listops(st, kinds=("append", "pop", "remove", "insert", "extend", "clear", "sort", "reverse")):
    return [e for e in st.effects if e[0] == "listop" and e[2] in kinds]


def conv_list_ops(st):
    return [e for e in listops(st) if getattr(e[1], "tag", "").startswith("converters(")]


def run(prog, tier) -> Result:
    res = Result("C12")
    res.explanation = (
        "The money converter list is shown to be a stack for all histories by induction over its only mutators "
        "(ownership rule R12.4): MoneyMeta.register_converter only appends (and only MoneyConverter instances, "
        "otherwise TypeError without mutation); remove_converter pops - index-less, so the top - only on the path "
        "guarded by `list[-1] is conv`, and every rejecting path raises without any mutation; __enter__ registers "
        "self and returns it, __exit__ removes self on every path and returns a falsy value, so exceptions "
        "propagate and with-blocks restore the previous stack. For other types: membership-guarded append, remove, "
        "reversed view, and the conversion loop iterates that view and returns the first non-None result. A money "
        "converter never returns None, so only the most recent one is consulted.")
    res.trusted = ["CPython list semantics and the with-statement protocol"]
    cr = CaseRunner(prog, res, max_depth=8 if tier == "quick" else 12)
    mc_ci = prog.cls("MoneyConverter")

    # ---- R12.1 money stack typestate
    reg = prog.method("MoneyMeta", "register_converter")
    rem = prog.method("MoneyMeta", "remove_converter")

    def setup_reg(money_conv):
        def setup(c):
            c.new_type("M", **FLAVORS["money"])
            conv = ObjV(mc_ci, "conv") if money_conv else ConvV("generic")
            if not money_conv:
                conv.is_money = False
            return [c.cls("M"), conv], {}
        return setup

    def judge_reg(money_conv):
        def judge(o):
            ops = conv_list_ops(o.state)
            if not money_conv:
                if o.kind != "raise" or o.exc.name != "TypeError":
                    return ("non-money converter accepted for Money", o.brief())
                return ("mutation on a rejecting path", repr(ops)) if ops else None
            if o.kind == "raise":
                return (exc_sig(o), "contract: push")
            if len(ops) != 1 or ops[0][2] != "append" or ops[0][3][0] is not o.args[1]:
                return ("registration is not exactly one append of the converter", repr([(e[2], e[3]) for e in ops]))
            return None
        return judge
    cr.run("R12.1", reg, "register MoneyConverter", setup_reg(True), judge_reg(True))
    cr.run("R12.1", reg, "register other callable", setup_reg(False), judge_reg(False))

    def judge_rem(o):
        st = o.state
        ops = conv_list_ops(st)
        top_is_conv = any(t.startswith("converter-identity") and t.endswith("=same") for t in o.trace)
        if o.kind == "raise":
            if ops:
                return ("mutation on a rejecting path", repr([(e[2], e[3]) for e in ops]))
            if top_is_conv:
                return ("most recent converter cannot be unregistered", exc_sig(o))
            return None
        if not top_is_conv:
            return ("a converter other than the most recent one was unregistered without error",
                    repr([(e[2], e[3]) for e in ops]))
        if len(ops) != 1 or ops[0][2] != "pop" or ops[0][3]:
            return ("unregistering is not exactly one index-less pop()", repr([(e[2], e[3]) for e in ops]))
        return None
    cr.run("R12.1", rem, "remove converter", setup_reg(True), judge_rem, min_paths=3)

    # ---- R12.2 enter / exit pairing
    ent = prog.method("MoneyConverter", "__enter__")
    ext = prog.method("MoneyConverter", "__exit__")

    def setup_ctx(n_extra):
        def setup(c):
            me = ObjV(mc_ci, "conv")
            return [me] + [OpaqueV("excinfo")] * n_extra, {}
        return setup

    def judge_enter(o):
        if o.kind == "raise":
            return (exc_sig(o), "")
        ops = conv_list_ops(o.state)
        if len(ops) != 1 or ops[0][2] != "append" or ops[0][3][0] is not o.args[0]:
            return ("__enter__ does not push self", repr([(e[2], e[3]) for e in ops]))
        if o.value is not o.args[0]:
            return ("__enter__ does not return the converter", repr(o.value))
        return None
    cr.run("R12.2", ent, "__enter__", setup_ctx(0), judge_enter)

    def judge_exit(o):
        ops = conv_list_ops(o.state)
        top = any(t.startswith("converter-identity") and t.endswith("=same") for t in o.trace)
        if o.kind == "raise":
            return None if not ops and not top else (exc_sig(o), "exit of the innermost block must succeed")
        if len(ops) != 1 or ops[0][2] != "pop":
            return ("__exit__ does not pop", repr([(e[2], e[3]) for e in ops]))
        v = o.value
        falsy = isinstance(v, NoneV) or (isinstance(v, BoolV) and not v.val)
        if not falsy:
            return ("__exit__ swallows exceptions", repr(v))
        return None
    cr.run("R12.2", ext, "__exit__ (normal)", setup_ctx(3), judge_exit)
    # (whether the removal depends on the exception info is decided by the paths above: the arguments are opaque,
    # so a test on them forks, and a path that does not pop is reported)

    # ---- R12.3 generic types
    greg = prog.method("QuantityMeta", "register_converter")
    grem = prog.method("QuantityMeta", "remove_converter")
    gview = prog.method("QuantityMeta", "registered_converters")

    def setup_g(c):
        c.new_type("T", **FLAVORS["noref"])
        return [c.cls("T"), ConvV("conv")], {}

    def judge_greg(o):
        st = o.state
        if o.kind == "raise":
            return (exc_sig(o), "")
        ops = conv_list_ops(st)
        present = [e for e in st.effects if e[0] == "contains"]
        if not present:
            return ("no membership guard", "")
        is_present = present[-1][3]
        if is_present and ops:
            return ("registering an already registered converter mutates the list", repr([(e[2]) for e in ops]))
        if not is_present and (len(ops) != 1 or ops[0][2] != "append" or ops[0][3][0] is not o.args[1]):
            return ("registration is not one append", repr([(e[2], e[3]) for e in ops]))
        return None
    cr.run("R12.3", greg, "register (generic type)", setup_g, judge_greg, min_paths=2)

    def judge_grem(o):
        ops = conv_list_ops(o.state)
        if o.kind == "raise":
            return None if not ops else ("mutation on a raising path", "")
        if len(ops) != 1 or ops[0][2] != "remove" or ops[0][3][0] is not o.args[1]:
            return ("removal is not list.remove(conv)", repr([(e[2], e[3]) for e in ops]))
        return None
    cr.run("R12.3", grem, "remove (generic type)", setup_g, judge_grem)

    def judge_view(o):
        if o.kind == "raise":
            return (exc_sig(o), "")
        v = o.value
        src = getattr(v, "reversed_of", None)
        if src is None or not getattr(src, "tag", "").startswith("converters("):
            return ("registered_converters is not the reversed list", repr(v))
        if conv_list_ops(o.state):
            return ("view mutates the list", "")
        return None
    cr.run("R12.3", gview, "registered_converters", lambda c: (setup_g(c)[0][:1], {}), judge_view)

    # conversion loop: iterates the reversed view, first non-None result wins
    ea = prog.method("Quantity", "equiv_amount")

    def judge_loop(o):
        st = o.state
        loops = [e for e in st.effects if e[0] == "loop-iter"]
        calls = [e for e in st.effects if e[0] == "convcall"]
        if calls:
            it = loops[-1][1] if loops else None
            src = getattr(it, "reversed_of", None)
            if src is None or not getattr(src, "tag", "").startswith("converters("):
                return ("converters are not consulted most-recent-first", repr(it))
            if calls[-1][2] is not o.args[0] or not isinstance(calls[-1][3], UnitV) or \
                    st.same_unit(calls[-1][3].uid, o.args[1].uid) is not True:
                return ("converter called with other arguments than (quantity, target unit)", repr(calls[-1][2:4]))
            got_amount = any(t == "conv(self)=amount" for t in o.trace)
            if got_amount:
                if o.kind != "return" or not isinstance(o.value, Num) or not conv_atoms(st.norm(o.value.rf)):
                    return ("first non-None converter result is not returned", o.brief())
        return None
    cr.run("R12.3", ea, "conversion loop", qty_and_unit_same_type("noref"), judge_loop, min_paths=3)

    # ---- R12.5 a money converter never returns None
    from .c11 import mk_converter, _date

    def setup_call(c):
        conv, base = mk_converter(c, prog, "int")
        return [conv, c.qty("money", c.unit("cu", "M")), c.unit("ct", "M"), _date("effdate")], {}
    cr.run("R12.5", prog.method("MoneyConverter", "__call__"), "never None", setup_call,
           lambda o: ("money converter returns None", "") if (o.kind == "return" and isinstance(o.value, NoneV)) else None)

    # ---- R12.6 "the same converter" is identity: `conv not in list` and `list.remove(conv)` compare with ==, so two
    # different converters (same coverage, different results) must not compare equal - evaluated on the classes' own
    # __eq__, if they define one (today: none does)
    from ..engine_a import run_body
    from ..models import DictV
    from ..report import Violation

    def conv_pair(cname):
        def body(I, c):
            st = c.st
            ci = prog.cls(cname)
            if cname == "MoneyConverter":
                c.new_type("M", **FLAVORS["money"])
                base = c.unit("base", "M")
                mk = lambda tag: ObjV(ci, tag, {"_base_currency": base, "_rate_dict": DictV([(TupleV([NONE, c.unit("ct", "M")]),
                                                                                         c.num("rate" + tag, "dec"))]),
                                                  "_type_of_validity": TypeV("NoneType"),
                                                  "_get_dflt_effective_date": OpaqueV("fn:dfltdate")})
            else:
                c.new_type("T", **FLAVORS["noref"])
                u1, u2 = c.unit("u1", "T"), c.unit("u2", "T")
                st.distinct_units("u1", "u2")
                mk = lambda tag: ObjV(ci, tag, {"_unit_map": DictV([(TupleV([u1, u2]),
                                                                      TupleV([c.num("f" + tag, "dec"), c.num("o" + tag, "dec")]))])})
            a, b = mk("a"), mk("b")
            eq = I.models.compare(ast.Eq, a, b, None)
            return BoolV(I.models.truth(eq, None))
        return body
    for cname in ("TableConverter", "MoneyConverter"):
        if not prog.has_cls(cname):
            continue
        site = f"{cname}.__eq__"
        case = "two converters with the same coverage and different results are different converters"
        outs = run_body(prog, conv_pair(cname), max_depth=10)
        res.paths += len(outs)
        fails = []
        for o in outs:
            if o.kind == "return" and isinstance(o.value, BoolV) and o.value.val:
                fails.append(Violation("R12.6", site, case, "distinct converters compare equal",
                                       "`conv not in converters` / `converters.remove(conv)` then treat a different converter as "
                                       "already registered / remove another one", list(o.trace)))
            elif o.kind == "raise":
                fails.append(Violation("R12.6", site, case, exc_sig(o), "comparison of two converters raises", list(o.trace)))
        res.obligations += 1
        res.evaluations += max(1, len(outs))
        res.rules["R12.6"] = res.rules.get("R12.6", 0) + 1
        res.nontrivial_keys.add(("R12.6", site, case))
        if not fails:
            res.discharged += 1
        res.violations.extend(fails)

    # ---- R12.4 ownership
    writes = inventory(prog)
    cg = CallGraph(prog)
    n = len(check_ownership(res, "R12.4", writes, "_converters", {
        "QuantityMeta.__init__": {"="},
        # what the mutators do to the list is decided by the typestate judges above (R12.1-R12.3)
        "QuantityMeta.register_converter": {"*"}, "QuantityMeta.remove_converter": {"*"},
        "MoneyMeta.register_converter": {"*"}, "MoneyMeta.remove_converter": {"*"}}, cg))
    res.require("R12.4", 4)
    # no function hands out the list itself (aliasing would bypass the owner API)
    leaks = []
    for fi in prog.all_functions():
        for nd in ast.walk(fi.node):
            if isinstance(nd, ast.Return) and nd.value is not None and isinstance(nd.value, ast.Attribute) \
                    and nd.value.attr == "_converters":
                leaks.append(fi.qualname)
    res.ob("R12.4", "quantity", "converter list never returned by reference", not leaks, str(leaks),
           sig="converter list leaked", nontrivial=False)

    res.require("R12.1", 3)
    res.require("R12.2", 2)
    res.require("R12.3", 4)
    return res
