"""C12 — converter registration is last-in-first-out and restores prior behaviour."""
from __future__ import annotations

import ast

from ..contracts import *  # noqa: F401,F403
from ..effects import CallGraph, check_ownership, inventory
from ..loader import AnalysisError, src_of
from ..report import Result

TECHNIQUE = ("stack typestate over the abstractly interpreted mutators (push / guarded index-less pop, "
             "no mutation on rejecting paths), enter/exit pairing, ownership of the converter list")


def run(prog, tier) -> Result:
    res = Result("C12")
    res.explanation = (
        "The money converter list is shown to be a stack for all histories by induction over its only mutators "
        "(ownership rule R12.4): MoneyMeta.register_converter only appends (and only MoneyConverter instances, "
        "otherwise TypeError without mutation); remove_converter pops - index-less, so the top - only on the path "
        "guarded by `list[-1] is conv`, and every rejecting path raises without any mutation; __enter__ registers "
        "self and returns it, __exit__ removes self on every path and returns a falsy value, so exceptions "
        "propagate and with-blocks restore the previous stack. For other types: membership-guarded append, remove, "
        "reversed view, and the conversion loop iterates that view and returns the first non-None result. A money "
        "converter never returns None, so only the most recent one is consulted.")
    res.trusted = ["CPython list semantics and the with-statement protocol"]
    cr = CaseRunner(prog, res, max_depth=8 if tier == "quick" else 12)
    mc_ci = prog.cls("MoneyConverter")

    # The registries are evaluated on *concrete* small stacks (0, 1, 2 registered converters, all distinct objects)
    # through the public mutators, and judged on what the list contains afterwards - whatever list operations the
    # mutators use.  Histories (several operations in a row) are evaluated the same way.
    from ..engine_a import run_body
    from ..report import Violation
    MONEY_TID = "cls:Money"

    gview = prog.method("QuantityMeta", "registered_converters")

    def observe(I, cls):
        """The registry as the public view shows it, oldest registration first."""
        v = I.call_function(gview, [cls], {})
        seq = I.models.iterate(v, None)
        if seq is None:
            raise AnalysisError("C12: registered_converters() of a concrete registry is not a concrete sequence")
        return list(reversed(seq))

    class Stack:
        """What a scenario knows about the registry: its content before the operation under test (`items`) and,
        recorded when the operation has finished or raised, afterwards (`after`)."""

        def __init__(self, items):
            self.items = items
            self.after = None

    def mk_stack(c, money, n):
        """A type whose registry holds convs[:n], built through the public register_converter from the state the
        metaclass gives a new class."""
        I = c.m.I
        c.st.concrete_registries = True
        if money:
            c.m.special_type("Money")
            tid = MONEY_TID
            convs = [ObjV(mc_ci, f"conv{i}") for i in range(4)]
            regf = prog.method("MoneyMeta", "register_converter")
        else:
            c.new_type("T", **FLAVORS["noref"])
            tid = c.st.tfind("T")
            convs = []
            for i in range(4):
                cv = ConvV(f"conv{i}")
                cv.concrete = True
                convs.append(cv)
            regf = prog.method("QuantityMeta", "register_converter")
        cls = ClsV(tid)
        try:
            for cv in convs[:n]:
                I.call_function(regf, [cls, cv], {})
            got = observe(I, cls)
        except AbsRaise as ar:
            raise AnalysisError(f"C12: building a registry of {n} converters through register_converter raises {ar.exc.name}")
        if not (len(got) == n and all(x is y for x, y in zip(got, convs[:n]))):
            raise Infeasible        # registration / view themselves are wrong: reported by the cases on smaller stacks
        stack = Stack(got)
        c.st.c12_live = (I, cls, stack)
        return cls, convs, stack

    def finish(c):
        I, cls, stack = c.st.c12_live
        stack.after = observe(I, cls)

    def guarded(c, fn):
        """Run the operation under test; whatever happens, record the registry afterwards."""
        try:
            return fn()
        finally:
            finish(c)

    def same_list(items, want):
        return len(items) == len(want) and all(x is y for x, y in zip(items, want))

    def run_stack(rule, site, case, body, judge, min_paths=1):
        outs = run_body(prog, body, max_depth=12)
        res.paths += len(outs)
        res.functions.add(site)
        fails = []
        if len(outs) < min_paths:
            fails.append(Violation(rule, site, case, "no feasible path", f"{len(outs)} paths"))
        for o in outs:
            r = judge(o)
            if r is not None:
                fails.append(Violation(rule, site, case, r[0], f"{r[1]}; outcome: {o.brief()}", list(o.trace)))
        res.obligations += 1
        res.evaluations += max(1, len(outs))
        res.rules[rule] = res.rules.get(rule, 0) + 1
        res.nontrivial_keys.add((rule, site, case))
        if not fails:
            res.discharged += 1
        res.violations.extend(fails)

    # ---- R12.1 Money: push / guarded pop of the top only
    reg = prog.method("MoneyMeta", "register_converter")
    rem = prog.method("MoneyMeta", "remove_converter")
    for n in ((0, 1, 2) if tier == "quick" else (0, 1, 2, 3)):
        def body_reg(I, c, n=n):
            cls, convs, stack = mk_stack(c, True, n)
            c.st.c12 = (stack, list(stack.items), convs)
            return guarded(c, lambda: I.call_function(reg, [cls, convs[3]], {}))

        def judge_regm(o):
            stack, before, convs = o.state.c12
            if o.kind == "raise":
                return (exc_sig(o), "contract: push")
            if not same_list(stack.after, before + [convs[3]]):
                return ("registration does not put the converter on top of the unchanged stack",
                        f"before {before!r}, after {stack.after!r}")
            return None
        run_stack("R12.1", "MoneyMeta.register_converter", f"register on a stack of {n}", body_reg, judge_regm)

        def body_regx(I, c, n=n):
            cls, convs, stack = mk_stack(c, True, n)
            c.st.c12 = (stack, list(stack.items), convs)
            other = ConvV("generic")
            other.is_money = False
            return guarded(c, lambda: I.call_function(reg, [cls, other], {}))

        def judge_regx(o):
            stack, before, convs = o.state.c12
            if o.kind != "raise" or o.exc.name != "TypeError":
                return ("non-money converter accepted for Money", o.brief())
            if not same_list(stack.after, before):
                return ("mutation on a rejecting path", f"before {before!r}, after {stack.after!r}")
            return None
        run_stack("R12.1", "MoneyMeta.register_converter", f"register another callable on a stack of {n}", body_regx, judge_regx)

        for which in ("top", "below", "absent"):
            if (which == "top" and n < 1) or (which == "below" and n < 2):
                continue

            def body_rem(I, c, n=n, which=which):
                cls, convs, stack = mk_stack(c, True, n)
                c.st.c12 = (stack, list(stack.items), convs)
                target = {"top": lambda: stack.items[-1], "below": lambda: stack.items[0], "absent": lambda: convs[3]}[which]()
                return guarded(c, lambda: I.call_function(rem, [cls, target], {}))

            def judge_rem(o, which=which):
                stack, before, convs = o.state.c12
                if which == "top":
                    if o.kind == "raise":
                        return ("most recent converter cannot be unregistered", exc_sig(o))
                    if not same_list(stack.after, before[:-1]):
                        return ("unregistering the most recent converter does not pop exactly it",
                                f"before {before!r}, after {stack.after!r}")
                    return None
                if o.kind != "raise":
                    return ("a converter other than the most recent one was unregistered without error",
                            f"before {before!r}, after {stack.after!r}")
                if not same_list(stack.after, before):
                    return ("mutation on a rejecting path", f"before {before!r}, after {stack.after!r}")
                return None
            run_stack("R12.1", "MoneyMeta.remove_converter", f"remove {which} converter, stack of {n}", body_rem, judge_rem)

    # the same converter registered twice with another one in between: unregistering it removes the most recent
    # registration, not the first one
    def body_dup(I, c):
        cls, convs, stack = mk_stack(c, True, 0)
        for cv in (convs[0], convs[1], convs[0]):
            I.call_function(reg, [cls, cv], {})
        stack.items = observe(I, cls)
        c.st.c12 = (stack, list(stack.items), convs)
        return guarded(c, lambda: I.call_function(rem, [cls, convs[0]], {}))

    def judge_dup(o):
        stack, before, convs = o.state.c12
        if o.kind == "raise":
            return ("most recent converter cannot be unregistered", exc_sig(o))
        if not same_list(before, [convs[0], convs[1], convs[0]]):
            return ("three registrations do not give a stack of three", repr(before))
        if not same_list(stack.after, [convs[0], convs[1]]):
            return ("unregistering a converter that is registered twice does not remove its most recent registration",
                    f"before {before!r}, after {stack.after!r}")
        return None
    run_stack("R12.1", "MoneyMeta.remove_converter", "remove the top converter, also registered further down", body_dup, judge_dup)

    # ---- R12.2 enter / exit pairing
    ent = prog.method("MoneyConverter", "__enter__")
    ext = prog.method("MoneyConverter", "__exit__")
    for n in ((0, 1) if tier == "quick" else (0, 1, 2, 3)):
        def body_ctx(I, c, n=n):
            cls, convs, stack = mk_stack(c, True, n)
            me = convs[3]
            got = I.call_function(ent, [me], {})
            inside = observe(I, cls)
            r = guarded(c, lambda: I.call_function(ext, [me, OpaqueV("exc-type"), OpaqueV("exc"), OpaqueV("tb")], {}))
            c.st.c12 = (stack, list(convs[:n]), inside, me, got, r)
            return r

        def judge_ctx(o):
            if o.kind == "raise":
                return (exc_sig(o), "entering and leaving the innermost block must succeed")
            stack, before, inside, me, got, r = o.state.c12
            if not same_list(inside, before + [me]):
                return ("__enter__ does not push self", f"inside the block: {inside!r}")
            if got is not me:
                return ("__enter__ does not return the converter", repr(got))
            if not same_list(stack.after, before):
                return ("__exit__ does not restore the stack", f"before {before!r}, after {stack.after!r}")
            falsy = isinstance(r, NoneV) or (isinstance(r, BoolV) and not r.val)
            if not falsy:
                return ("__exit__ swallows exceptions", repr(r))
            return None
        run_stack("R12.2", "MoneyConverter.__enter__/__exit__", f"with-block on a stack of {n}", body_ctx, judge_ctx)

    # ---- R12.3 generic types
    greg = prog.method("QuantityMeta", "register_converter")
    grem = prog.method("QuantityMeta", "remove_converter")
    for n in ((0, 1, 2) if tier == "quick" else (0, 1, 2, 3)):
        for which in ("new", "member"):
            if which == "member" and n < 1:
                continue

            def body_g(I, c, n=n, which=which):
                cls, convs, stack = mk_stack(c, False, n)
                c.st.c12 = (stack, list(stack.items), convs)
                return guarded(c, lambda: I.call_function(greg, [cls, convs[3] if which == "new" else stack.items[0]], {}))

            def judge_g(o, which=which):
                stack, before, convs = o.state.c12
                if o.kind == "raise":
                    return (exc_sig(o), "")
                want = before + [convs[3]] if which == "new" else before
                if not same_list(stack.after, want):
                    return ("registering an already registered converter mutates the list" if which == "member"
                            else "registration is not one append", f"before {before!r}, after {stack.after!r}")
                return None
            run_stack("R12.3", "QuantityMeta.register_converter", f"register {which} converter, {n} registered", body_g, judge_g)
        for which in ("first", "last", "absent"):
            if which != "absent" and n < (2 if which == "first" else 1):
                continue

            def body_gr(I, c, n=n, which=which):
                cls, convs, stack = mk_stack(c, False, n)
                c.st.c12 = (stack, list(stack.items), convs)
                target = {"first": lambda: stack.items[0], "last": lambda: stack.items[-1], "absent": lambda: convs[3]}[which]()
                return guarded(c, lambda: I.call_function(grem, [cls, target], {}))

            def judge_gr(o, which=which):
                stack, before, convs = o.state.c12
                if which == "absent":
                    if o.kind != "raise":
                        return ("removing an unregistered converter does not raise", o.brief())
                    return None if same_list(stack.after, before) else ("mutation on a raising path", repr(stack.after))
                if o.kind == "raise":
                    return (exc_sig(o), "a registered converter can be removed")
                want = before[1:] if which == "first" else before[:-1]
                if not same_list(stack.after, want):
                    return ("removal does not take out exactly the given converter", f"before {before!r}, after {stack.after!r}")
                return None
            run_stack("R12.3", "QuantityMeta.remove_converter", f"remove {which} converter, {n} registered", body_gr, judge_gr)

    def body_view(I, c):
        cls, convs, stack = mk_stack(c, False, 3)
        v = guarded(c, lambda: I.call_function(gview, [cls], {}))
        c.st.c12 = (stack, list(stack.items), I.models.iterate(v, None))
        return v

    def judge_view(o):
        if o.kind == "raise":
            return (exc_sig(o), "")
        stack, before, seen = o.state.c12
        if seen is None or not same_list(seen, list(reversed(before))):
            return ("registered_converters is not the reversed list", repr(seen))
        if not same_list(stack.after, before):
            return ("view mutates the list", "")
        return None
    run_stack("R12.3", "QuantityMeta.registered_converters", "three registered converters", body_view, judge_view)

    # conversion consults the registered converters most-recent-first and the first non-None result wins - also after a
    # history of registrations and removals (a cached view must not go stale)
    ea = prog.method("Quantity", "equiv_amount")

    def consulted(st, since):
        return [e[1] for e in st.effects[since:] if e[0] == "convcall"]

    def results(st, since):
        return [e[2] for e in st.effects[since:] if e[0] == "convresult"]

    def history(ops):
        def body(I, c):
            cls, convs, stack = mk_stack(c, False, 0)
            q = c.qty("self", c.unit("us", "T"))
            u = c.unit("uo", "T")
            c.st.distinct_units("us", "uo")
            log = []
            for op, i in ops:
                if op == "reg":
                    I.call_function(greg, [cls, convs[i]], {})
                elif op == "rem":
                    I.call_function(grem, [cls, convs[i]], {})
                else:
                    since = len(c.st.effects)
                    r = I.call_function(ea, [q, u], {})
                    log.append((observe(I, cls), consulted(c.st, since), r, results(c.st, since)))
            c.st.c12 = log
            return NONE
        return body

    def judge_history(o):
        if o.kind == "raise":
            return (exc_sig(o), "history of registrations raised")
        for registered, seen, r, given in o.state.c12:
            # the first result that is not None is the result - whatever its value (an amount of zero is an amount)
            first = next((g for g in given if not isinstance(g, NoneV)), None)
            if first is not None and r is not first and not (isinstance(r, Num) and o.state.norm(r.rf).equals(o.state.norm(first.rf))):
                return ("first non-None converter result is not returned",
                        f"converters answered {given!r}, conversion gives {r!r}")
            want = list(reversed(registered))
            if not same_list(seen, want[:len(seen)]):
                return ("converters are not consulted most-recent-first over the currently registered ones",
                        f"registered {registered!r}, consulted {seen!r}")
            got_amount = isinstance(r, Num)         # a converter's amount, or the units turned out to be equal
            if len(seen) < len(want) and not got_amount:
                return ("conversion gives up before all registered converters were consulted", f"consulted {seen!r} of {want!r}")
            if isinstance(r, NoneV) and len(seen) != len(want):
                return ("None although a converter was not consulted", repr(seen))
        return None
    H = [
        [("reg", 0), ("cv", 0)],
        [("reg", 0), ("reg", 1), ("cv", 0), ("rem", 1), ("cv", 0)],
        [("reg", 0), ("reg", 1), ("cv", 0), ("rem", 1), ("rem", 0), ("reg", 2), ("reg", 1), ("cv", 0)],
        [("reg", 0), ("reg", 1), ("cv", 0), ("rem", 0), ("cv", 0), ("reg", 0), ("cv", 0)],
    ]
    if tier == "thorough":
        H += [
            [("reg", 0), ("reg", 1), ("reg", 2), ("cv", 0), ("rem", 1), ("cv", 0), ("reg", 1), ("cv", 0), ("rem", 0), ("cv", 0)],
            [("reg", 2), ("reg", 1), ("reg", 0), ("cv", 0), ("rem", 2), ("rem", 1), ("cv", 0), ("rem", 0), ("cv", 0)],
            [("reg", 0), ("reg", 0), ("cv", 0), ("rem", 0), ("cv", 0)],
        ]
    for i, ops in enumerate(H):
        run_stack("R12.3", "Quantity.equiv_amount", "history " + " ".join(f"{op}{j}" if op != "cv" else "convert" for op, j in ops),
                  history(ops), judge_history, min_paths=2)

    # two distinct converter objects with *equal* tables are two registrations: registering the second and removing it
    # again leaves the first one registered (registration is by identity, whatever the converters' own __eq__ says)
    tc_ci = prog.cls("TableConverter") if prog.has_cls("TableConverter") else None
    if tc_ci is not None:
        def body_twins(I, c):
            c.st.concrete_registries = True
            c.new_type("T", **FLAVORS["noref"])
            u1, u2 = c.unit("u1", "T", kind="base"), c.unit("u2", "T", kind="base")
            c.st.distinct_units("u1", "u2")
            f_, o_ = c.num("f", "dec"), c.num("o", "dec")
            mk = lambda: I.models.instantiate(tc_ci, [ListV([TupleV([u1, u2, f_, o_])])], {}, None)
            c1, c2 = mk(), mk()
            cls = ClsV(c.st.tfind("T"))
            I.call_function(greg, [cls, c1], {})
            I.call_function(greg, [cls, c2], {})
            mid = observe(I, cls)
            I.call_function(grem, [cls, c2], {})
            c.st.c12 = (c1, c2, mid, observe(I, cls))
            return NONE

        def judge_twins(o):
            if o.kind == "raise":
                return (exc_sig(o), "registering and unregistering a second converter with an equal table")
            c1, c2, mid, after = o.state.c12
            if not (len(after) == 1 and after[0] is c1):
                return ("unregistering a converter removes another converter that merely equals it",
                        f"registered c1, c2 (equal tables); after removing c2 the registry holds {after!r} (in between: {mid!r})")
            return None
        run_stack("R12.3", "QuantityMeta.register_converter/remove_converter", "two converters with equal tables",
                  body_twins, judge_twins)

    # ---- R12.5 a money converter never returns None
    from .c11 import Scenario, reader_setup_for

    for pair, where in ((("base", "ca"), "in"), (("ca", "cb"), "in"), (("base", "cn"), "in"), (("base", "ca"), "next")):
        cr.run("R12.5", prog.method("MoneyConverter", "__call__"),
               f"never None ({pair[0]}->{pair[1]}, date {'in' if where == 'in' else 'outside'} the stored period)",
               reader_setup_for(prog, "year", pair, where, "explicit", call=True),
               lambda o: ("money converter returns None", "") if (o.kind == "return" and isinstance(o.value, NoneV)) else None)

    # ---- R12.6 "the same converter" is identity: `conv not in list` and `list.remove(conv)` compare with ==, so two
    # different converters (same coverage, different results) must not compare equal - evaluated on the classes' own
    # __eq__, if they define one (today: none does)
    from ..engine_a import run_body
    from ..models import DictV
    from ..report import Violation

    def conv_pair(cname):
        def body(I, c):
            st = c.st
            ci = prog.cls(cname)
            if cname == "MoneyConverter":
                # two converters built alike (same base currency, same period and currencies) with different rates
                first = []

                def mk(tag):
                    s = Scenario(c, prog, like=first[0] if first else None)
                    first.append(s)
                    s.update(NONE, (None, None, None), ["ca"], tag=tag)
                    return s.conv
            else:
                c.new_type("T", **FLAVORS["noref"])
                u1, u2 = c.unit("u1", "T"), c.unit("u2", "T")
                st.distinct_units("u1", "u2")
                # built by the class's own constructor from a one-row table (nothing here names how it is stored)
                mk = lambda tag: I.models.instantiate(ci, [ListV([TupleV([u1, u2, Num(RF.const(2 if tag == "a" else 3), "dec"),
                                                                          c.num("o", "dec")])])], {}, None)
            a, b = mk("a"), mk("b")
            eq = I.models.compare(ast.Eq, a, b, None)
            return BoolV(I.models.truth(eq, None))
        return body
    for cname in ("TableConverter", "MoneyConverter"):
        if not prog.has_cls(cname):
            continue
        site = f"{cname}.__eq__"
        case = "two converters with the same coverage and different results are different converters"
        outs = run_body(prog, conv_pair(cname), max_depth=10)
        res.paths += len(outs)
        fails = []
        for o in outs:
            if o.kind == "return" and isinstance(o.value, BoolV) and o.value.val:
                fails.append(Violation("R12.6", site, case, "distinct converters compare equal",
                                       "`conv not in converters` / `converters.remove(conv)` then treat a different converter as "
                                       "already registered / remove another one", list(o.trace)))
            elif o.kind == "raise":
                fails.append(Violation("R12.6", site, case, exc_sig(o), "comparison of two converters raises", list(o.trace)))
        res.obligations += 1
        res.evaluations += max(1, len(outs))
        res.rules["R12.6"] = res.rules.get("R12.6", 0) + 1
        res.nontrivial_keys.add(("R12.6", site, case))
        if not fails:
            res.discharged += 1
        res.violations.extend(fails)

    # ---- R12.4 ownership
    writes = inventory(prog)
    cg = CallGraph(prog)
    from ..anchors import converter_registry_attr
    reg_attr = converter_registry_attr(prog)
    n = len(check_ownership(res, "R12.4", writes, reg_attr, {
        "QuantityMeta.__init__": {"="},
        # what the mutators do to the list is decided by the typestate judges above (R12.1-R12.3)
        "QuantityMeta.register_converter": {"*"}, "QuantityMeta.remove_converter": {"*"},
        "MoneyMeta.register_converter": {"*"}, "MoneyMeta.remove_converter": {"*"}}, cg))
    res.require("R12.4", 2)
    # no function hands out the list itself (aliasing would bypass the owner API)
    leaks = []
    for fi in prog.all_functions():
        for nd in ast.walk(fi.node):
            if isinstance(nd, ast.Return) and nd.value is not None and isinstance(nd.value, ast.Attribute) \
                    and nd.value.attr == reg_attr:
                leaks.append(fi.qualname)
    res.ob("R12.4", "quantity", "converter list never returned by reference", not leaks, str(leaks),
           sig="converter list leaked", nontrivial=False)

    res.require("R12.1", 10)
    res.require("R12.2", 2)
    res.require("R12.3", 12)
    return res
