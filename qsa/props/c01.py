"""C01 — unit conversion within a quantity type is exact and coherent."""
from __future__ import annotations

from ..contracts import *  # noqa: F401,F403
from ..effects import CallGraph, check_ownership, inventory
from ..report import Result

TECHNIQUE = ("abstract interpretation with a units-of-measure (Laurent polynomial) domain over all "
             "operand-kind cases and paths; ownership (who-may-write) rule on the scale field")


def scale_store_rules(prog, res: Result, cr: CaseRunner):
    """R01.3: the scale is fixed once, from the *normalised* definition."""
    from ..anchors import unit_creator, ref_unit_creator, UNIT_CREATION_ENTRY_POINTS
    from ..anchors import unit_creator_args, ref_unit_creator_args
    mk = unit_creator(prog)
    # the private creators are called the way their public callers call them (argument order / keywords read off
    # QuantityMeta.new_unit and QuantityMeta.__new__)
    MKARGS = [unit_creator_args(prog)]

    def setup_term(c: Ctx):
        c.new_type("T")
        d = TermV(RF.atom(("defmag",)), {"T": (1, 0)})
        return MKARGS[0](c.cls("T"), StrV(None, "symbol"), StrV(None, "name"), d)

    def judge_term(o):
        if o.kind == "raise":
            if o.exc.name in ("ValueError", "AssertionError"):
                return None     # duplicate symbol / empty symbol
            return (exc_sig(o), "unexpected exception in unit creation")
        st = o.state
        stores = [e for e in st.effects if e[0] == "setattr" and e[2] == "_equiv"]
        if not stores:
            return ("scale never stored", "no store to _equiv on a success path")
        v = stores[-1][3]
        if isinstance(v, Num):
            if v.kind in ("int", "anyrat", "float", "bool"):
                return ("scale may be stored as a plain int", f"stored {v!r}: the definition's numeric element keeps "
                        f"the type it was written with, and int / int between two such scales yields a float")
            return None         # its value is decided for the types with a reference unit below
        return ("scale is not numeric for a defined unit", f"stored {v!r}")

    cr.run("R01.3", mk, "definition=term", setup_term, judge_term, flag_kinds=())

    # the same for a type known to have a reference unit, decided on values: the stored scale is the value of the
    # definition over the reference unit, whatever the code does to get there
    DEF = RF.atom(("mu", "defn"))

    def setup_term_ref(fl):
        def setup(c: Ctx):
            c.new_type("T", **FLAVORS[fl])
            d = TermV(DEF, {"T": (1, 0)})
            return MKARGS[0](c.cls("T"), StrV(None, "symbol"), StrV(None, "name"), d)
        return setup

    def judge_term_ref(o):
        if o.kind == "raise":
            if o.exc.name in ("ValueError", "AssertionError"):
                return None
            return (exc_sig(o), "unexpected exception in unit creation")
        st = o.state
        stores = [e for e in st.effects if e[0] == "setattr" and e[2] == "_equiv"]
        if not stores:
            return ("scale never stored", "no store to _equiv on a success path")
        v = stores[-1][3]
        if not isinstance(v, Num):
            return ("scale is not numeric for a defined unit", f"stored {v!r}")
        want = st.norm(DEF / RF.atom(("rho", st.tfind("T"))))
        got = st.norm(v.rf)
        if not got.equals(want):
            return ("scale is not the value of the definition in reference units",
                    f"stored {got!r}; the definition denotes {want!r} reference units")
        if v.kind in ("int", "float", "bool"):
            return ("scale may be stored as a plain int", f"stored {v!r}")
        return None
    for fl in ("ref", "ref+quantum"):
        cr.run("R01.3", mk, f"definition=term, type with reference unit [{fl}]", setup_term_ref(fl), judge_term_ref,
               flag_kinds=(), min_paths=2)

    def setup_none(c: Ctx):
        c.new_type("T")
        return MKARGS[0](c.cls("T"), StrV(None, "symbol"), StrV(None, "name"), NONE)

    def judge_none(o):
        if o.kind == "raise":
            return None if o.exc.name in ("ValueError", "AssertionError") else (exc_sig(o), "")
        stores = [e for e in o.state.effects if e[0] == "setattr" and e[2] == "_equiv"]
        if not stores or not isinstance(stores[-1][3], NoneV):
            return ("undefined unit gets a scale", f"stores {[s[3] for s in stores]}")
        return None

    cr.run("R01.3", mk, "definition=None", setup_none, judge_none, flag_kinds=())

    mr = ref_unit_creator(prog)
    MKARGS[0] = ref_unit_creator_args(prog)

    def judge_ref(o):
        if o.kind == "raise":
            return None if o.exc.name in ("ValueError", "AssertionError") else (exc_sig(o), "")
        stores = [e for e in o.state.effects if e[0] == "setattr" and e[2] == "_equiv"]
        v = stores[-1][3] if stores else None
        if not isinstance(v, Num) or not o.state.norm(v.rf).is_one():
            return ("reference unit scale is not 1", f"last store {v!r}")
        return None

    cr.run("R01.3", mr, "reference unit (term)", setup_term, judge_ref, flag_kinds=())
    cr.run("R01.3", mr, "reference unit (no definition)", setup_none, judge_ref, flag_kinds=())

    # B1: who may write the scale / definition / type of a unit
    writes = inventory(prog)
    cg = CallGraph(prog)
    # owners: the public unit-creation entry points (private helpers reachable only from them inherit
    # ownership); ClassWithDefinitionMeta.__new__ writes the same attribute name on quantity *classes*
    owners = dict(UNIT_CREATION_ENTRY_POINTS)
    n = 0
    for state in ("_equiv", "_definition", "_qty_cls"):
        n += len(check_ownership(res, "R01.3b", writes, state, owners, cg))
    if n < 3:
        from ..loader import AnalysisError
        raise AnalysisError(f"R01.3b: only {n} stores of unit fields found (at least 3 expected: scale, definition, type)")


def run(prog, tier) -> Result:
    res = Result("C01")
    res.explanation = (
        "Engine A evaluates Unit._get_factor, Quantity.equiv_amount and Quantity.convert abstractly for every "
        "operand-kind case (same type with/without reference unit, quantized, money-like, other type, non-unit) "
        "and every syntactic path; each path's result is compared, as an identity between rational functions over "
        "symbolic amounts and unit scales, with the contract value = amount x scale written from the property "
        "statement. Identities hold for all amounts, units and catalogues at once. R01.3 checks that the scale "
        "field is stored only by unit creation and only from the normalised definition.")
    res.trusted = ["decimalfp.Decimal / fractions.Fraction exact field arithmetic",
                   "Term.normalized() preserves the denoted value (C07 rules)",
                   "contract table in qsa/contracts.py and qsa/props/c01.py"]
    res.assumptions = ["a type with reference unit defines its other units relative to it (an undefined extra "
                       "unit in such a type is not modelled)",
                       "unit scales are positive"]
    cr = CaseRunner(prog, res, max_depth=8 if tier == "quick" else 12)
    from ..anchors import factor_method
    gf = factor_method(prog)
    ea = prog.method("Quantity", "equiv_amount")
    cv = prog.method("Quantity", "convert")

    # ---- R01.1 factor = ratio of scales
    for fl in FLAVORS:
        def judge(o, fl=fl):
            st = o.state
            if fl in ("ref", "ref+quantum"):
                if o.kind != "return":
                    return (exc_sig(o), "contract: factor mu(self)/mu(other)")
                return judge_num(o, VAL(o, 0) / VAL(o, 1))
            if o.kind != "return" or not isinstance(o.value, NoneV):
                return ("factor for a type without reference unit", f"{o.brief()}; contract: None")
            return None
        cr.run("R01.1", gf, f"same type [{fl}]", two_units_same_type(fl), judge)
    cr.run("R01.1", gf, "other type", two_units_other_type("ref"),
           lambda o: expect_raise(o, ["TypeError"]))
    cr.run("R01.1", gf, "non-unit operand", unit_and_num("ref", "dec"),
           lambda o: expect_raise(o, ["TypeError"]))

    # ---- R01.2 equiv_amount / convert (C01 speaks about types with a reference unit; the
    #      reference-less flavours are decided under C04 / C08)
    for fl in ("ref", "ref+quantum"):
        def judge_ea(o, fl=fl):
            st = o.state
            if o.kind == "raise":
                return (exc_sig(o), "contract: equivalent amount, converter result or None")
            v = o.value
            if isinstance(v, NoneV):
                if fl in ("ref", "ref+quantum"):
                    return ("None for a linear type", "a factor exists")
                return None
            if not isinstance(v, Num):
                return ("returns non-number", repr(v))
            rf = st.norm(v.rf)
            if any(a[0] == "conv" for a in rf.atoms()):
                if fl in ("ref", "ref+quantum"):
                    return ("converter consulted for a linear type", repr(rf))
                return None if rf.equals(RF.atom(next(a for a in rf.atoms() if a[0] == "conv"))) else \
                    ("converter result altered", repr(rf))
            return judge_num(o, VAL(o, 0) / VAL(o, 1))
        cr.run("R01.2", ea, f"same type [{fl}]", qty_and_unit_same_type(fl), judge_ea)

        def judge_cv(o, fl=fl):
            st = o.state
            if o.kind == "raise":
                if o.exc.name == "UnitConversionError" and fl in ("noref", "money"):
                    return None if converters_tried(o) else NOT_TRIED
                return (exc_sig(o), "contract: converted quantity")
            v = o.value
            if isinstance(v, QtyV) and v.amount is not None:
                rf = st.expand_rnd(v.amount.rf)
                if any(a[0] == "conv" for a in rf.atoms()):
                    if fl in ("ref", "ref+quantum"):
                        return ("converter consulted for a linear type", repr(rf))
                    return judge_qty(o, unit=o.args[1], tid="T")
            return judge_qty(o, unit=o.args[1], tid="T", value=VAL(o, 0))
        cr.run("R01.2", cv, f"same type [{fl}]", qty_and_unit_same_type(fl), judge_cv)
    for fl2 in (None, "money"):
        cr.run("R01.2", ea, f"other type [{fl2 or 'any'}]", qty_and_unit_other_type("ref", fl2),
               lambda o: expect_raise(o, ["IncompatibleUnitsError"]))
        cr.run("R01.2", cv, f"other type [{fl2 or 'any'}]", qty_and_unit_other_type("ref", fl2),
               lambda o: expect_raise(o, ["IncompatibleUnitsError"]))
    cr.run("R01.2", cv, "non-unit target", qty_and_num("ref", "dec"),
           lambda o: expect_raise(o, ["TypeError"]))

    # ---- R01.3
    scale_store_rules(prog, res, cr)

    res.require("R01.1", 6)
    res.require("R01.2", 9)
    res.require("R01.3", 6)
    return res
