"""C10 — applying an exchange rate converts money and prices correctly."""
from __future__ import annotations

from ..contracts import *  # noqa: F401,F403
from ..report import Result
from .c09 import exact_rate

TECHNIQUE = ("abstract interpretation: currency guard vs. constructed currency, exact amount a*rate^(+-1), single "
             "construction (rounded once), error classes; compound units through the term-resolution contract")


def run(prog, tier) -> Result:
    res = Result("C10")
    res.explanation = (
        "money*rate, rate*money (reflected alias) and money/rate are evaluated abstractly for every identity pattern "
        "between the money's currency and the rate's two currencies: a result is produced only under the matching "
        "identity, is money in the other currency with exact amount a*rate (resp. a*inverse rate) rounded by exactly "
        "one construction; otherwise ValueError. For a compound (money per X) quantity the unit term is the unit's "
        "definition times term/unit (resp. unit/term) currency, the amount is f*rate^(+-1)*a with (f, W) from the "
        "term resolution, one construction in the operand's class, and KeyError becomes QuantityError; nothing else "
        "is caught or raised.")
    res.trusted = ["term resolution contract K9 (checked under C02)", "constructor summary K11 (C05)"]
    res.assumptions = ["NOT decided: that lookup failure coincides with 'undeclared / no money / mismatching "
                       "currency' for every catalogue (registry semantics, C07)"]
    cr = CaseRunner(prog, res, max_depth=8 if tier == "quick" else 12)
    ER = lambda n: prog.method("ExchangeRate", n)

    def setup_money(c):
        c.new_type("M", **FLAVORS["money"])
        a, b, um = c.unit("ua", "M"), c.unit("ub", "M"), c.unit("umoney", "M")
        c.st.distinct_units("ua", "ub")
        return [c.rate("self", a, b), c.qty("other", um)], {}

    def judge_money(mult: bool):
        def judge(o):
            st = o.state
            r, m = o.args[0], o.args[1]
            src, dst = (r.unit, r.term) if mult else (r.term, r.unit)
            match = st.same_unit(m.unit.uid, src.uid)
            if o.kind == "raise":
                if o.exc.name == "ValueError" and match is not True and getattr(o.exc, "tag", None) is None:
                    return None
                return (exc_sig(o), "contract: converted money, or ValueError for a non-matching currency")
            if match is not True:
                return ("rate applied to money of a non-matching currency", o.brief())
            rate = exact_rate(st, r)
            want = st.norm(m.amount.rf) * (rate if mult else rate.inv())
            return judge_qty(o, unit=dst, tid=m.tid, amount=want, max_depth=1)
        return judge
    cr.run("R10.1", ER("__mul__"), "rate * money", setup_money, judge_money(True), min_paths=2)
    cr.run("R10.1", ER("__rmul__"), "money * rate (reflected)", setup_money, judge_money(True), min_paths=2)
    cr.run("R10.1", ER("__rtruediv__"), "money / rate", setup_money, judge_money(False), min_paths=2)

    def setup_price(c):
        c.new_type("M", **FLAVORS["money"])
        c.new_type("P", has_ref=False, has_quantum=False, money=False)
        a, b = c.unit("ua", "M"), c.unit("ub", "M")
        c.st.distinct_units("ua", "ub")
        up = c.unit("up", "P", kind="defined")
        return [c.rate("self", a, b), c.qty("other", up)], {}

    def judge_price(mult: bool):
        def judge(o):
            st = o.state
            r, q = o.args[0], o.args[1]
            if o.kind == "raise":
                if o.exc.name == "QuantityError" and getattr(o.exc, "tag", None) is None:
                    return None
                return (exc_sig(o), "contract: converted price or QuantityError")
            rate = exact_rate(st, r)
            k = mu_of(st, r.term) / mu_of(st, r.unit)
            if not mult:
                rate, k = rate.inv(), k.inv()
            want = st.norm(q.amount.rf) * mu_of(st, q.unit) * rate * k
            rr = judge_qty(o, tid=q.tid, value=want, max_depth=1)
            return rr
        return judge
    cr.run("R10.2", ER("__mul__"), "rate * price (compound unit)", setup_price, judge_price(True), min_paths=2)
    cr.run("R10.2", ER("__rtruediv__"), "price / rate (compound unit)", setup_price, judge_price(False), min_paths=2)

    for lbl, mk in (("number", lambda c: c.num("k", "dec")), ("str", lambda c: StrV(None, "t")), ("None", lambda c: NONE)):
        def setup_o(c, mk=mk):
            r = setup_money(c)[0][0]
            return [r, mk(c)], {}
        for nm in ("__mul__", "__rtruediv__"):
            cr.run("R10.3", ER(nm), f"{nm} {lbl}", setup_o,
                   lambda o: None if (o.kind == "return" and isinstance(o.value, NotImplV)) else
                   ("unsupported operand accepted", o.brief()), flag_kinds=())
    # reflected-operator wiring: Quantity / Money do not intercept rate operands
    for qn in ("__mul__", "__truediv__"):
        def setup_q(c):
            a = setup_money(c)[0]
            return [a[1], a[0]], {}
        cr.run("R10.3", prog.method("Quantity", qn), f"Quantity.{qn}(rate) defers", setup_q,
               lambda o: None if (o.kind == "return" and isinstance(o.value, NotImplV)) else
               ("quantity operator intercepts an exchange rate", o.brief()), flag_kinds=())

    res.require("R10.1", 3)
    res.require("R10.2", 2)
    res.require("R10.3", 8)
    return res
