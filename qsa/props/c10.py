"""C10 — applying an exchange rate converts money and prices correctly."""
from __future__ import annotations

from fractions import Fraction

from ..contracts import *  # noqa: F401,F403
from ..report import Result
from .c09 import exact_rate

TECHNIQUE = ("abstract interpretation: currency guard vs. constructed currency, exact amount a*rate^(+-1), single "
             "construction (rounded once), error classes; compound units through the term-resolution contract")


def run(prog, tier) -> Result:
    res = Result("C10")
    res.explanation = (
        "money*rate, rate*money (reflected alias) and money/rate are evaluated abstractly for every identity pattern "
        "between the money's currency and the rate's two currencies: a result is produced only under the matching "
        "identity, is money in the other currency with exact amount a*rate (resp. a*inverse rate) rounded by exactly "
        "one construction; otherwise ValueError. For a compound (money per X) quantity the unit term is the unit's "
        "definition times term/unit (resp. unit/term) currency, the amount is f*rate^(+-1)*a with (f, W) from the "
        "term resolution, one construction in the operand's class, and KeyError becomes QuantityError; nothing else "
        "is caught or raised.")
    res.trusted = ["term resolution contract K9 (checked under C02)", "constructor summary K11 (C05)"]
    res.assumptions = ["NOT decided: that lookup failure coincides with 'undeclared / no money / mismatching "
                       "currency' for every catalogue (registry semantics, C07)"]
    cr = CaseRunner(prog, res, max_depth=8 if tier == "quick" else 12)
    ER = lambda n: prog.method("ExchangeRate", n)

    def setup_money(c):
        c.new_type("M", **FLAVORS["money"])
        # currencies are units without definition; terms built from them are evaluated on interpreted Term objects
        c.m.term_objects = True
        a, b, um = c.unit("ua", "M", kind="base"), c.unit("ub", "M", kind="base"), c.unit("umoney", "M", kind="base")
        for u in (a, b, um):
            c.st.unit_defs[u.uid] = "base"
        c.st.distinct_units("ua", "ub")
        return [c.rate("self", a, b), c.qty("other", um)], {}

    def judge_money(mult: bool):
        def judge(o):
            st = o.state
            r, m = o.args[0], o.args[1]
            src, dst = (r.unit, r.term) if mult else (r.term, r.unit)
            match = st.same_unit(m.unit.uid, src.uid)
            if o.kind == "raise":
                if o.exc.name == "ValueError" and match is not True and getattr(o.exc, "tag", None) is None:
                    return None
                return (exc_sig(o), "contract: converted money, or ValueError for a non-matching currency")
            if match is not True:
                return ("rate applied to money of a non-matching currency", o.brief())
            rate = exact_rate(st, r)
            want = st.norm(m.amount.rf) * (rate if mult else rate.inv())
            return judge_qty(o, unit=dst, tid=m.tid, amount=want, max_depth=1)
        return judge
    cr.run("R10.1", ER("__mul__"), "rate * money", setup_money, judge_money(True), min_paths=2)
    cr.run("R10.1", ER("__rmul__"), "money * rate (reflected)", setup_money, judge_money(True), min_paths=2)
    cr.run("R10.1", ER("__rtruediv__"), "money / rate", setup_money, judge_money(False), min_paths=2)

    def setup_price(c):
        c.new_type("M", **FLAVORS["money"])
        c.new_type("P", has_ref=False, has_quantum=False, money=False)
        a, b = c.unit("ua", "M"), c.unit("ub", "M")
        c.st.distinct_units("ua", "ub")
        up = c.unit("up", "P", kind="defined")
        return [c.rate("self", a, b), c.qty("other", up)], {}

    def judge_price(mult: bool):
        def judge(o):
            st = o.state
            r, q = o.args[0], o.args[1]
            if o.kind == "raise":
                if o.exc.name == "QuantityError" and getattr(o.exc, "tag", None) is None:
                    return None
                return (exc_sig(o), "contract: converted price or QuantityError")
            rate = exact_rate(st, r)
            k = mu_of(st, r.term) / mu_of(st, r.unit)
            if not mult:
                rate, k = rate.inv(), k.inv()
            want = st.norm(q.amount.rf) * mu_of(st, q.unit) * rate * k
            rr = judge_qty(o, tid=q.tid, value=want, max_depth=1)
            return rr
        return judge
    cr.run("R10.2", ER("__mul__"), "rate * price (compound unit)", setup_price, judge_price(True), min_paths=2)
    cr.run("R10.2", ER("__rtruediv__"), "price / rate (compound unit)", setup_price, judge_price(False), min_paths=2)

    # ---- compound units with *nested* definitions, evaluated on interpreted Term objects:
    #      USD/t := 0.001 * (USD/kg), USD/kg := Term(USD, kg^-1); the rate's currencies are plain base units
    from ..engine_a import run_body
    from ..report import Violation

    def deep_body(mult):
        def body(I, c):
            st = c.st
            I.models.term_objects = True
            c.new_type("M", **FLAVORS["money"])
            c.new_type("T", **FLAVORS["ref"])
            c.new_type("P", has_ref=False, has_quantum=False, money=False)
            for a_, b_ in (("M", "T"), ("M", "P"), ("T", "P")):
                st.distinct_types(a_, b_)
            st.type_dims["P"] = {"M": (1, 0), "T": (-1, 0)}
            usd, eur = c.unit("usd", "M", kind="base"), c.unit("eur", "M", kind="base")
            st.distinct_units("usd", "eur")
            kg = UnitV(st.ref_unit("T"))
            st.U(kg.uid).kind = "ref"
            for u in (usd, eur, kg):
                st.unit_defs[u.uid] = "base"
            TERM = TypeV("Term", prog.cls("Term"))

            def term(items):
                tv = TupleV([TupleV([e, Num(RF.const(x), "int")]) for e, x in items])
                return I.models.call(TERM, [tv], {}, None)
            upk = UnitV(st.new_unit("P", uid="usd_per_kg", mu=mu_of(st, usd) / mu_of(st, kg), kind="defined"))
            st.unit_defs["usd_per_kg"] = term([(usd, 1), (kg, -1)])
            upt = UnitV(st.new_unit("P", uid="usd_per_t", mu=RF.const(Fraction(1, 1000)) * mu_of(st, upk), kind="defined"))
            st.unit_defs["usd_per_t"] = term([(Num(RF.const(Fraction(1, 1000)), "dec"), 1), (upk, 1)])
            price = c.qty("other", upt)
            # price * rate needs unit currency == price currency; price / rate needs term currency == price currency
            rate = c.rate("self", usd, eur) if mult else c.rate("self", eur, usd)
            st.deep = (rate, price, usd, eur)
            fn = prog.method("ExchangeRate", "__mul__" if mult else "__rtruediv__")
            return I.call_function(fn, [rate, price], {})
        return body

    def deep_judge(mult):
        def judge(o):
            st = o.state
            rate, price, usd, eur = st.deep
            lookup_failed = any(t.startswith("unit_from_term@") and t.endswith("=KeyError") for t in o.trace)
            if o.kind == "raise":
                if o.exc.name == "QuantityError" and lookup_failed:
                    return None
                return (exc_sig(o) + (" without a failed unit lookup" if not lookup_failed else ""),
                        "the price's currency matches the rate: the only legitimate rejection is an undeclared "
                        "target unit (failed lookup of the resulting unit term)")
            r = exact_rate(st, rate)
            want = st.norm(price.amount.rf) * mu_of(st, price.unit) * (r if mult else r.inv()) * \
                (mu_of(st, eur) / mu_of(st, usd))
            return judge_qty(o, tid=price.tid, value=want, max_depth=1)
        return judge
    for mult in (True, False):
        site = f"ExchangeRate.{'__mul__' if mult else '__rtruediv__'}"
        case = f"price in a unit defined through another price unit {'*' if mult else '/'} rate"
        outs = run_body(prog, deep_body(mult), max_depth=16)
        res.paths += len(outs)
        res.functions.add(site)
        fails = []
        if len(outs) < 2:
            fails.append(Violation("R10.2", site, case, "no feasible path", f"{len(outs)} paths"))
        for o in outs:
            r = flags_sig(o, ("float-arith", "int-div", "none-operand", "none-attribute", "bad-unpack")) or deep_judge(mult)(o)
            if r is not None:
                fails.append(Violation("R10.2", site, case, r[0], f"{r[1]}; outcome: {o.brief()}", list(o.trace)))
        res.obligations += 1
        res.evaluations += max(1, len(outs))
        res.rules["R10.2"] = res.rules.get("R10.2", 0) + 1
        res.nontrivial_keys.add(("R10.2", site, case))
        if not fails:
            res.discharged += 1
        res.violations.extend(fails)

    for lbl, mk in (("number", lambda c: c.num("k", "dec")), ("str", lambda c: StrV(None, "t")), ("None", lambda c: NONE)):
        def setup_o(c, mk=mk):
            r = setup_money(c)[0][0]
            return [r, mk(c)], {}
        for nm in ("__mul__", "__rtruediv__"):
            cr.run("R10.3", ER(nm), f"{nm} {lbl}", setup_o,
                   lambda o: None if (o.kind == "return" and isinstance(o.value, NotImplV)) else
                   ("unsupported operand accepted", o.brief()), flag_kinds=())
    # reflected-operator wiring: Quantity / Money do not intercept rate operands
    for qn in ("__mul__", "__truediv__"):
        def setup_q(c):
            a = setup_money(c)[0]
            return [a[1], a[0]], {}
        cr.run("R10.3", prog.method("Quantity", qn), f"Quantity.{qn}(rate) defers", setup_q,
               lambda o: None if (o.kind == "return" and isinstance(o.value, NotImplV)) else
               ("quantity operator intercepts an exchange rate", o.brief()), flag_kinds=())

    res.require("R10.1", 3)
    res.require("R10.2", 4)
    res.require("R10.3", 8)
    return res
