"""C09 — exchange rates: normal form, inversion and triangulation (structural clauses)."""
from __future__ import annotations

from fractions import Fraction

from ..contracts import *  # noqa: F401,F403
from ..report import Result

TECHNIQUE = ("abstract interpretation with a currency-dimension domain: rate x inverse = 1, direction of inversion "
             "and of the four triangulation branches, dominance of the rejection guards, power-of-ten / "
             "six-digit storage by construction")

CTOR_TAGS = ("rate-validation", "rate-identical-currencies")


def cur(st, u: UnitV) -> RF:
    return RF.atom(("cur", st.ufind(u.uid)))


def exact_rate(st, r: RateV) -> RF:
    return st.expand_rnd(r.ta.rf) / st.norm(r.um.rf)


def DV(st, r: RateV) -> RF:
    """dimensioned value: rate * [term] / [unit]"""
    return exact_rate(st, r) * cur(st, r.term) / cur(st, r.unit)


def rate_pair(relation):
    """two rates with a prescribed sharing of currencies (None = all identities left open)"""
    def setup(c: Ctx):
        c.new_type("M", **FLAVORS["money"])
        a, b, x, y = (c.unit(n, "M") for n in ("ua", "ub", "ux", "uy"))
        c.st.distinct_units("ua", "ub")
        c.st.distinct_units("ux", "uy")
        return [c.rate("self", a, b), c.rate("other", x, y)], {}
    return setup


def judge_triangulation(sign):
    def judge(o: Outcome):
        st = o.state
        s, other = o.args[0], o.args[1]
        shared = any(st.same_unit(p.uid, q.uid) is True
                     for p in (s.unit, s.term) for q in (other.unit, other.term))
        if o.kind == "raise":
            tag = getattr(o.exc, "tag", None)
            if o.exc.name == "ValueError" and tag in CTOR_TAGS:
                return None         # the resulting rate itself is invalid (e.g. both currencies identical)
            if o.exc.name == "ValueError" and tag is None:
                # rejection for "no usable shared currency": the direction rule of the operator decides
                return None if not _usable(st, s, other, sign) else \
                    (exc_sig(o), "operands share a currency in a usable position but were rejected")
            return (exc_sig(o), "contract: triangulated rate or ValueError")
        v = o.value
        if not isinstance(v, RateV):
            return ("returns non-rate", repr(v))
        if not _usable(st, s, other, sign):
            return ("rate produced although no currency is shared in a usable position", repr(v))
        want = DV(st, s) * (DV(st, other) if sign > 0 else DV(st, other).inv())
        got = DV(st, v)
        if not got.equals(want):
            return ("wrong triangulated rate or direction",
                    f"result {st.ufind(v.unit.uid)}->{st.ufind(v.term.uid)} with dimensioned value {got!r}; "
                    f"contract {want!r}")
        if st.rnd_depth(v.ta.rf) != 1:
            return ("rate not rounded exactly once", repr(v.ta.rf))
        return None
    return judge


def _usable(st, s, other, sign):
    if sign > 0:    # product: a term currency must meet a unit currency
        return st.same_unit(s.unit.uid, other.term.uid) is True or st.same_unit(s.term.uid, other.unit.uid) is True
    return st.same_unit(s.unit.uid, other.unit.uid) is True or st.same_unit(s.term.uid, other.term.uid) is True


def run(prog, tier) -> Result:
    res = Result("C09")
    res.explanation = (
        "R09.1: properties and operators of ExchangeRate are evaluated abstractly with currencies as dimension "
        "atoms: rate * inverse_rate = 1; quotation orders; inverted() swaps the currencies and is built from the "
        "inverse rate; for every identity pattern of the four currencies of two rates, * and / return a rate whose "
        "dimensioned value rate*[term]/[unit] equals the product/quotient of the operands' (so currencies and "
        "direction are right for all inputs), rounded once, or raise ValueError exactly when no currency is shared "
        "in a usable position. R09.2: on every normal exit of the constructor the rejection guards have been passed "
        "(identical currencies, non-integral multiple, multiple < 1, amount <= 0 / < 0.000001, wrong argument "
        "types). R09.3: the stored multiple is 10**<int> and the stored amount is the 6-digit rounding of "
        "input amount * stored multiple / input multiple (rate preserved up to one rounding in the sixth decimal). "
        "R09.5: the stored multiple is >= 1 and the stored amount >= 0.1 (magnitude >= -1, hence positive) for every "
        "input: log10 of the stored values is bounded symbolically - every base quantity q as M_q + F_q with integer "
        "magnitude M_q and 0 <= F_q < 1, powers of ten by their integer exponent expressions, min() by cases - under "
        "the comparison facts of the path.")
    res.trusted = ["Decimal(x, 6) rounds once to six fractional digits (dependency)"]
    res.assumptions = ["magnitude, adjusted() and int(floor(log10(x))) denote floor(log10 x) exactly (float log10 at "
                       "exact powers of ten is trusted)",
                       "NOT decided: numeric accuracy of inverted/triangulated rates beyond 'rounded exactly once'"]
    cr = CaseRunner(prog, res, max_depth=8 if tier == "quick" else 12)
    ER = lambda n: prog.method("ExchangeRate", n)

    def one_rate(c):
        c.new_type("M", **FLAVORS["money"])
        a, b = c.unit("ua", "M"), c.unit("ub", "M")
        c.st.distinct_units("ua", "ub")
        return [c.rate("self", a, b)], {}
    TA, UM = RF.atom(("ta", "self")), RF.atom(("um", "self"))

    def prop_judge(want):
        return lambda o: (exc_sig(o), "") if o.kind == "raise" else judge_num(o, want)
    cr.run("R09.1", ER("rate"), "rate", one_rate, prop_judge(TA / UM))
    cr.run("R09.1", ER("inverse_rate"), "inverse_rate = 1/rate", one_rate, prop_judge(UM / TA))

    def judge_quot(inv):
        def judge(o):
            st = o.state
            if o.kind == "raise":
                return (exc_sig(o), "")
            v = o.value
            r = o.args[0]
            if not (isinstance(v, TupleV) and len(v.items) == 3):
                return ("quotation is not a triple", repr(v))
            a, b, x = v.items
            ua, ub = (r.term, r.unit) if inv else (r.unit, r.term)
            if not (isinstance(a, UnitV) and isinstance(b, UnitV) and st.same_unit(a.uid, ua.uid) is True
                    and st.same_unit(b.uid, ub.uid) is True):
                return ("quotation currencies in the wrong order", repr(v))
            want = (UM / TA) if inv else (TA / UM)
            if not (isinstance(x, Num) and st.norm(x.rf).equals(want)):
                return ("quotation carries the wrong rate", repr(x))
            return None
        return judge
    cr.run("R09.1", ER("quotation"), "quotation", one_rate, judge_quot(False))
    cr.run("R09.1", ER("inverse_quotation"), "inverse_quotation", one_rate, judge_quot(True))

    def judge_inverted(o):
        st = o.state
        if o.kind == "raise":
            return None if getattr(o.exc, "tag", None) in CTOR_TAGS else (exc_sig(o), "")
        v, r = o.value, o.args[0]
        if not isinstance(v, RateV):
            return ("inverted() returns non-rate", repr(v))
        if not DV(st, v).equals(DV(st, r).inv() * RF.const(1)) and not (DV(st, v) * DV(st, r)).equals(RF.const(1)):
            return ("inverted rate is not the reciprocal in the opposite direction",
                    f"{st.ufind(v.unit.uid)}->{st.ufind(v.term.uid)}: {DV(st, v)!r}")
        if st.rnd_depth(v.ta.rf) != st.rnd_depth(r.ta.rf) + 1:
            return ("inverted rate is not rounded exactly once",
                    f"stored amount {st.norm(v.ta.rf)!r}: the reciprocal is rounded before the constructor scales and rounds it")
        return None
    cr.run("R09.1", ER("inverted"), "inverted", one_rate, judge_inverted)

    # inverting a rate that was itself obtained by inversion: computed from that (rounded) rate, like any other
    def inverted_rate(c):
        (r,), _ = one_rate(c)
        from ..interp import Frame
        I = c.m.I
        I.frames.append(Frame(None, prog.modules["quantity.money"], None, {}))
        try:
            inv = I.call_function(ER("inverted"), [r], {})
        except AbsRaise:
            raise Infeasible
        finally:
            I.frames.pop()
        if not isinstance(inv, RateV):
            raise Infeasible        # reported by the case above
        return [inv], {}
    cr.run("R09.1", ER("inverted"), "inverted, of a rate obtained by inverted()", inverted_rate, judge_inverted)

    for name, sign in (("__mul__", 1), ("__truediv__", -1)):
        cr.run("R09.1", ER(name), f"rate {name} rate, all sharing patterns", rate_pair(None),
               judge_triangulation(sign), min_paths=5)
    cr.run("R09.1", ER("__truediv__"), "rate / number", lambda c: ([one_rate(c)[0][0], c.num("k", "dec")], {}),
           lambda o: None if (o.kind == "return" and isinstance(o.value, NotImplV)) else ("rate / number accepted", o.brief()))

    # eq / hash from the same quotation is C19's rule; here: equality never raises
    cr.run("R09.4", ER("__eq__"), "rate == rate", rate_pair(None),
           lambda o: (exc_sig(o), "equality must not raise") if o.kind == "raise" else None)

    # ---- constructor: R09.2 guards dominate the normal exit, R09.3 normal form by construction
    init = ER("__init__")
    erci = prog.cls("ExchangeRate")
    for akind in ("dec", "frac", "float", "str", "int", "dec/code-unit", "dec/code-term"):
        for ukind in ("int", "dec"):
            def setup(c, akind=akind, ukind=ukind):
                c.new_type("M", **FLAVORS["money"])
                a, b = c.unit("ua", "M"), c.unit("ub", "M")
                if akind == "dec/code-unit":
                    a = StrV(None, "unit-code")
                if akind == "dec/code-term":
                    b = StrV(None, "term-code")
                if "/" in akind:
                    akind = "dec"
                me = ObjV(erci, "rate")
                ta = StrV(None, "amount-text") if akind == "str" else c.num("ta", akind)
                return [me, a, c.num("um", ukind), b, ta], {}

            def judge(o, akind=akind.split("/")[0], ukind=ukind):
                st = o.state

                def established(diff: RF, op, val):
                    allowed = {-1, 0, 1}
                    holds = lambda o_, s_: {"==": s_ == 0, "!=": s_ != 0, "<": s_ < 0, "<=": s_ <= 0, ">": s_ > 0, ">=": s_ >= 0}[o_]
                    flip = {"==": "==", "!=": "!=", "<": ">", "<=": ">=", ">": "<", ">=": "<="}
                    k1, k2 = st.canon_diff(diff).key(), st.canon_diff(RF.const(0) - diff).key()
                    for k, o_, r in st.cmp_facts:
                        if k == k2 and k2 != k1:
                            k, o_ = k1, flip[o_]
                        if k == k1:
                            allowed = {s_ for s_ in allowed if holds(o_, s_) == r}
                    return {holds(op, s_) for s_ in allowed} == {val}
                if o.kind == "raise":
                    if getattr(o.exc, "tag", None) == "parse":
                        return None     # text that is no number at all (e.g. '1/0'): rejected, whatever the class
                    if o.exc.name not in ("ValueError", "TypeError"):
                        return (exc_sig(o), "contract: ValueError / TypeError for rejected input")
                    # a rejection must be justified: the path has to have found the input invalid - identical or
                    # unknown currencies, a multiple that is not integral or below one, an amount that is no number,
                    # not positive or below 0.000001 - it is not enough that *some* test failed
                    me_, ua_, um_in_, ub_, ta_in_ = o.args
                    if getattr(o.exc, "tag", None) is not None:
                        return None         # raised by a model (unknown currency code, unparsable text, ...)
                    if isinstance(ua_, UnitV) and isinstance(ub_, UnitV) and st.same_unit(ua_.uid, ub_.uid) is True:
                        return None
                    if (isinstance(ua_, StrV) or isinstance(ub_, StrV)) and any(" is " in t and t.endswith("=same") for t in o.trace):
                        return None         # the currency found for a code turned out to be the other currency
                    if any(t.endswith(("=ValueError", "=OverflowError", "=TypeError", "=KeyError")) for t in o.trace):
                        return None         # a conversion / directory look-up found the input unusable
                    if not str(getattr(o.exc, "where", "")).startswith("ExchangeRate.__init__"):
                        return None         # raised by a function the constructor hands its input to
                    reasons = []
                    um_ = st.norm(um_in_.rf)
                    reasons.append(RF.const(1) - um_)                                  # multiple < 1
                    for (nm_, key_), n_ in st.rnd_index.items():
                        if nm_ == "precision" and st.norm(st.rnd_args[n_]).equals(um_):
                            reasons.append(RF.atom(("fn", "precision", n_)))           # precision(multiple) > 0
                    ta_ = st.norm(ta_in_.rf) if isinstance(ta_in_, Num) else RF.atom(("parsed", "amount-text"))
                    reasons.append(RF.const(Fraction(1, 1000000)) - ta_)               # amount < 0.000001
                    for diff_ in reasons:
                        if established(diff_, ">", True):
                            return None
                    if established(ta_, "<=", True):
                        return None         # amount <= 0
                    if akind == "str" or o.exc.name == "TypeError":
                        return None         # text amounts / wrong types are rejected by the conversions themselves
                    return ("input rejected without having been found invalid",
                            f"{exc_sig(o)}: the facts of the path do not establish identical currencies, multiple < 1, "
                            f"a non-integral multiple or an amount below 0.000001")
                me, ua, um_in, ub, ta_in = o.args
                # currencies given by ISO code are judged by what was stored for them
                if isinstance(ua, StrV):
                    ua = me.fields.get("_unit_currency")
                if isinstance(ub, StrV):
                    ub = me.fields.get("_term_currency")
                if not isinstance(ua, UnitV) or not isinstance(ub, UnitV):
                    return ("currency not resolved to a Currency", f"{ua!r}, {ub!r}")
                # R09.2: guards passed on this normal exit
                if st.same_unit(ua.uid, ub.uid) is not False:
                    return ("identical currencies not rejected", "normal exit without the currencies being distinct")
                um = st.norm(um_in.rf)
                facts = {(k, op): r for k, op, r in st.cmp_facts}

                if not established(um - RF.const(1), ">=", True):
                    return ("multiple < 1 not rejected", "normal exit without establishing multiple >= 1")
                precs = [a for a in st.rnd_index if a[0] == "precision"]
                prec_ok = False
                for (nm, key), n in st.rnd_index.items():
                    if nm == "precision" and st.norm(st.rnd_args[n]).equals(um):
                        if established(RF.atom(("fn", "precision", n)), "<=", True):
                            prec_ok = True
                if not prec_ok:
                    return ("non-integral multiple not rejected", "normal exit without establishing precision(multiple) <= 0")
                ta = st.norm(ta_in.rf) if isinstance(ta_in, Num) else RF.atom(("parsed", "amount-text"))
                if not established(ta - RF.const(Fraction(1, 1000000)), ">=", True):
                    return ("too small amount not rejected", "normal exit without establishing amount >= 0.000001")
                # R09.3 stored normal form
                f = me.fields
                uc, tc, sm, sa = (f.get(k) for k in ("_unit_currency", "_term_currency", "_unit_multiple", "_term_amount"))
                if not (isinstance(uc, UnitV) and isinstance(tc, UnitV) and st.same_unit(uc.uid, ua.uid) is True
                        and st.same_unit(tc.uid, ub.uid) is True):
                    return ("currencies stored in the wrong fields", f"{uc!r}, {tc!r}")
                if not isinstance(sm, Num) or not isinstance(sa, Num):
                    return ("multiple / amount not stored", f"{sm!r}, {sa!r}")
                m = st.norm(sm.rf)
                from ..magnitude import Magnitudes, Unsupported as MagUnsupported
                mg = Magnitudes(st)
                try:
                    lm = mg.log_of(m)
                except MagUnsupported as e:
                    return ("stored multiple is not a power of ten by construction", f"{m!r}: {e}")
                if lm.part(("F",)).coef:
                    return ("stored multiple is not a power of ten by construction",
                            f"{m!r}: its log10 {lm!r} is not an integer expression")
                want = st.rnd(6, ta * m / um)
                if not st.norm(sa.rf).equals(want):
                    return ("stored amount is not the 6-digit rounding of amount*multiple/input multiple",
                            f"stored {st.norm(sa.rf)!r} = rnd6({st.expand_rnd(sa.rf)!r}); contract rnd6({(ta * m / um)!r})")
                # R09.5 magnitudes of the normal form (symbolic log10 bounds under the facts of the path)
                lo, why = Magnitudes(st).lower_bound(m)
                if lo is None or lo < 0:
                    return ("stored multiple may be below one",
                            f"log10 of the stored multiple {m!r} is only known to be >= {lo} ({why})")
                x = st.norm(ta * m / um)
                if not established(x - RF.const(Fraction(1, 10)), ">=", True):
                    lo, why = Magnitudes(st).lower_bound(x)
                    if lo is None or lo < -1:
                        return ("stored amount may have a magnitude below -1",
                                f"amount before rounding = {x!r}; log10 is only known to be >= {lo} ({why}); "
                                f"contract: term amount >= 0.1, i.e. magnitude >= -1")
                return None
            cr.run("R09.2", init, f"__init__ amount {akind}, multiple {ukind}", setup, judge,
                   inline_rate_ctor=True, flag_kinds=("none-operand", "none-attribute", "bad-unpack", "float-arith"))

    def setup_badcur(c):
        c.new_type("M", **FLAVORS["money"])
        me = ObjV(erci, "rate")
        return [me, c.num("x", "int"), c.num("um", "int"), c.unit("ub", "M"), c.num("ta", "dec")], {}
    cr.run("R09.2", init, "__init__ non-currency argument", setup_badcur, lambda o: expect_raise(o, ["TypeError"]),
           inline_rate_ctor=True)

    def setup_badterm(kind):
        def setup(c):
            c.new_type("M", **FLAVORS["money"])
            c.new_type("T", **FLAVORS["ref"])
            me = ObjV(erci, "rate")
            bad = {"number": c.num("x", "int"), "None": NONE, "unit of another type": c.unit("ux", "T")}[kind]
            return [me, c.unit("ua", "M"), c.num("um", "int"), bad, c.num("ta", "dec")], {}
        return setup
    for kind in ("number", "None", "unit of another type"):
        cr.run("R09.2", init, f"__init__ term currency is a {kind}", setup_badterm(kind),
               lambda o: expect_raise(o, ["TypeError"]), inline_rate_ctor=True)

    def setup_strcur(c):
        c.new_type("M", **FLAVORS["money"])
        me = ObjV(erci, "rate")
        return [me, StrV(None, "code"), c.num("um", "int"), c.unit("ub", "M"), c.num("ta", "dec")], {}

    def judge_strcur(o):
        if o.kind == "raise":
            return None if o.exc.name in ("ValueError", "TypeError") else (exc_sig(o), "")
        uc = o.args[0].fields.get("_unit_currency")
        if not isinstance(uc, UnitV) or getattr(uc, "from_symbol", None) is None:
            return ("currency given by code is not resolved through the money directory", repr(uc))
        return None
    cr.run("R09.2", init, "__init__ currency by code", setup_strcur, judge_strcur, inline_rate_ctor=True)

    res.require("R09.1", 8)
    res.require("R09.2", 12)
    return res
