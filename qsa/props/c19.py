"""C19 — objects that compare equal hash equal."""
from __future__ import annotations

import ast

from ..contracts import *  # noqa: F401,F403
from ..engine_a import run_body
from ..loader import AnalysisError, src_of
from ..models import HashV
from ..report import Result, Violation

TECHNIQUE = ("abstract interpretation: the argument of hash() is computed for two symbolic instances and must be "
             "structurally invariant under the equality fact established by the class's own __eq__")


def struct_equal(st, a, b) -> bool:
    if isinstance(a, HashV) and isinstance(b, HashV):
        return struct_equal(st, a.arg, b.arg)
    if isinstance(a, Num) and isinstance(b, Num):
        return st.expand_rnd(a.rf).equals(st.expand_rnd(b.rf))
    if isinstance(a, UnitV) and isinstance(b, UnitV):
        return st.same_unit(a.uid, b.uid) is True
    if isinstance(a, ClsV) and isinstance(b, ClsV):
        return st.same_type(a.tid, b.tid) is True
    if isinstance(a, TupleV) and isinstance(b, TupleV):
        return len(a.items) == len(b.items) and all(struct_equal(st, x, y) for x, y in zip(a.items, b.items))
    if isinstance(a, StrV) and isinstance(b, StrV):
        if a.const is not None or b.const is not None:
            return a.const == b.const
        return a is b or _retag(st, a.tag) == _retag(st, b.tag)
    if isinstance(a, NoneV) and isinstance(b, NoneV):
        return True
    if isinstance(a, TermV) and isinstance(b, TermV):
        return st.norm(a.mag).equals(st.norm(b.mag)) and a.dims == b.dims
    if isinstance(a, TypeV) and isinstance(b, TypeV):
        return a.name == b.name
    return a is b


def _retag(st, tag: str) -> str:
    # symbol(<uid>) / name(<uid>): compare through the unit's representative
    for pre in ("symbol(", "name("):
        if tag.startswith(pre) and tag.endswith(")"):
            uid = tag[len(pre):-1]
            if uid in st.uparent:
                return pre + st.ufind(uid) + ")"
    return tag


def check_pair(prog, res: Result, rule, site, case, make_pair, max_depth=10):
    """make_pair(ctx) -> (x, y). Evaluate hash(x), hash(y), x == y on one path; on every path where the
    equality holds, the hash arguments must coincide."""
    def body(interp, c):
        x, y = make_pair(c)
        m = interp.models
        hx = m.call_builtin("hash", [x], {}, None)
        hy = m.call_builtin("hash", [y], {}, None)
        eq = m.compare(ast.Eq, x, y, None)
        holds = m.truth(eq, None)
        return TupleV([BoolV(holds), hx, hy])
    outs = run_body(prog, body, max_depth=max_depth)
    res.paths += len(outs)
    res.functions.add(site)
    fails = []
    n_eq = 0
    for o in outs:
        if o.kind == "raise":
            fails.append(Violation(rule, site, case, exc_sig(o), "hash / equality raised", list(o.trace)))
            continue
        holds, hx, hy = o.value.items
        if not holds.val:
            continue
        n_eq += 1
        if not struct_equal(o.state, hx, hy):
            fails.append(Violation(rule, site, case, "hash argument not invariant under equality",
                                   f"on a path where x == y holds: hash(x) = {hx!r}, hash(y) = {hy!r}",
                                   list(o.trace)))
    if n_eq == 0:
        fails.append(Violation(rule, site, case, "no path on which the operands are equal", f"{len(outs)} paths"))
    res.obligations += 1
    res.evaluations += max(1, len(outs))
    res.rules[rule] = res.rules.get(rule, 0) + 1
    res.nontrivial_keys.add((rule, site, case))
    if not fails:
        res.discharged += 1
    res.violations.extend(fails)
    if len(res.samples) < 8 and outs:
        o = outs[-1]
        res.samples.append({"site": site, "case": case, "paths": len(outs), "paths_with_equality": n_eq,
                            "example": o.brief()[:300], "verdict": "ok" if not fails else fails[0].sig})


def run(prog, tier) -> Result:
    res = Result("C19")
    res.explanation = (
        "For Quantity, Unit and ExchangeRate two symbolic instances x, y are built; hash(x), hash(y) and x == y are "
        "evaluated abstractly on one path state. On every path on which the class's own __eq__ holds (its equality "
        "fact is applied as a rewrite: equal values across units, equal scales, equal quotations) the arguments "
        "passed to hash() must be structurally identical, so hash(x) == hash(y) for all such pairs, given the "
        "numeric-tower hash invariant of the amounts. Term: the hash key and the equality key are the same "
        "expression (items of the normal form). Currency and Money inherit.")
    res.trusted = ["hash(Decimal) == hash(Fraction) for equal values (numeric tower, dependency)", "tuple/str hashing"]
    res.assumptions = ["equality reached only through a registered converter (e.g. 0 degC == 273.15 K) is not covered "
                       "by a hash-invariant: see known finding F11c"]
    for cname in ("Quantity", "Unit", "Term", "ExchangeRate"):
        ci = prog.cls(cname)
        if "__hash__" not in ci.methods or "__eq__" not in ci.methods:
            raise AnalysisError(f"anchor vanished: {cname}.__hash__/__eq__")
    for cname in ("Money", "Currency"):
        ci = prog.cls(cname)
        res.ob("R19.1", cname, "inherits __eq__ and __hash__ together",
               ("__eq__" in ci.methods) == ("__hash__" in ci.methods),
               f"{cname} overrides only one of __eq__/__hash__", sig="eq/hash overridden separately", nontrivial=False)

    def qpair(fl, same_unit):
        def mk(c):
            c.new_type("T", **FLAVORS[fl])
            us, uo = c.unit("us", "T"), c.unit("uo", "T")
            if same_unit:
                c.st.unify_units("us", "uo")
            else:
                c.st.distinct_units("us", "uo")
            return c.qty("x", us), c.qty("y", uo)
        return mk
    for fl in ("ref", "ref+quantum"):
        check_pair(prog, res, "R19.1", "Quantity.__hash__", f"equal across units [{fl}]", qpair(fl, False))
        check_pair(prog, res, "R19.1", "Quantity.__hash__", f"same unit [{fl}]", qpair(fl, True))
    check_pair(prog, res, "R19.1", "Quantity.__hash__", "same unit [money]", qpair("money", True))
    check_pair(prog, res, "R19.1c", "Quantity.__hash__", "equal through a converter [noref]", qpair("noref", False))

    # ... and what a quantity derived from an already hashed one hashes to (a hash kept on the object must not
    # travel to objects of another value)
    def derived_pair(fl, opname):
        def mk(c):
            c.new_type("T", **FLAVORS[fl])
            us = c.unit("us", "T")
            q = c.qty("x", us)
            m = c.m
            m.call_builtin("hash", [q], {}, None)
            fi = prog.lookup(prog.cls("Quantity"), opname)
            r = m.I.call_function(fi, [q], {})
            a = q.amount.rf
            want = {"__neg__": RF.const(0) - a, "__pos__": a}[opname]
            y = QtyV(Num(want, q.amount.kind), us, c.st.unit_type(us.uid), name="y")
            return r, y
        return mk
    for opname in ("__neg__", "__pos__"):
        if prog.lookup(prog.cls("Quantity"), opname) is not None:
            for fl in ("ref", "money"):
                check_pair(prog, res, "R19.1", "Quantity.__hash__", f"{opname} of a hashed quantity [{fl}]",
                           derived_pair(fl, opname))

    def upair(fl):
        def mk(c):
            c.new_type("T", **FLAVORS[fl])
            return c.unit("us", "T"), c.unit("uo", "T")
        return mk
    for fl in ("ref", "noref", "money"):
        check_pair(prog, res, "R19.1", "Unit.__hash__", f"units of one type [{fl}]", upair(fl))

    def rpair(c):
        c.new_type("M", **FLAVORS["money"])
        a, b, x, y = (c.unit(n, "M") for n in ("ua", "ub", "ux", "uy"))
        return c.rate("r1", a, b), c.rate("r2", x, y)
    check_pair(prog, res, "R19.1", "ExchangeRate.__hash__", "two rates", rpair)
    from .c07 import equality_scenarios
    equality_scenarios(prog, res, "R19.1t")     # Term: same-value terms compare and hash equal (deep evaluation)
    res.require("R19.1", 11)
    res.require("R19.1t", 16)
    return res
