"""C03 — addition, subtraction and comparison never mix quantity types."""
from __future__ import annotations

from ..contracts import *  # noqa: F401,F403
from ..report import Result

TECHNIQUE = ("abstract interpretation (units-of-measure domain): operand-kind decision tables and "
             "value contracts for +, -, unary ops, comparisons and the repo's sum()")


def judge_notimpl(o):
    if o.kind == "return" and isinstance(o.value, NotImplV):
        return None
    return ("value or wrong error for a non-quantity operand",
            f"{o.brief()}; contract: NotImplemented (Python then raises TypeError)")


def judge_false(o):
    if o.kind == "return" and isinstance(o.value, BoolV) and o.value.val is False:
        return None
    return ("equality with a foreign operand is not False", o.brief())


def run(prog, tier) -> Result:
    res = Result("C03")
    res.explanation = (
        "For __add__, __radd__, __sub__, __rsub__, __eq__ and the four ordering dunders of Quantity, Engine A "
        "explores every path for each operand kind (same type in four flavours, other quantity type, int, Decimal, "
        "Fraction, float, unit, str, None). Error rows must raise exactly IncompatibleUnitsError (other type) or "
        "return NotImplemented (non-quantities; __eq__: False) and contain no value-returning path; same-type rows "
        "must return a quantity in the left operand's unit and type whose exact value is val(self) +/- val(other) "
        "as a polynomial identity. Commutativity, associativity, inverse and distributivity are corollaries in Q.")
    res.trusted = ["exact field arithmetic of Decimal/Fraction", "Python's reflected-operator protocol",
                   "contract judges in qsa/contracts.py"]
    res.assumptions = ["reference-less flavours are judged for identical units / converter results only; their "
                       "defined-unit defect (F14) is reported under C04/C08"]
    cr = CaseRunner(prog, res, max_depth=8 if tier == "quick" else 12)
    Q = lambda n: prog.method("Quantity", n)

    absent = 0
    for name, sign in (("__add__", 1), ("__radd__", 1), ("__sub__", -1)):
        if name == "__radd__" and prog.lookup(prog.cls("Quantity"), name) is None:
            # no reflected operator: number + quantity is a TypeError by the operator protocol, quantity + quantity
            # never consults it
            res.notes.append("Quantity defines no __radd__: the reflected sum is a TypeError by the operator protocol")
            absent += 1
            continue
        fi = Q(name)
        for fl in ("ref", "ref+quantum", "money"):
            cr.run("R03.2", fi, f"{name} same type [{fl}]", two_qty_same_type(fl), judge_addsub(sign, fl),
                   site=f"Quantity.{name}")
        for fl2 in (None, "money", "ref+quantum"):
            cr.run("R03.1", fi, f"{name} other type [{fl2 or 'any'}]", two_qty_other_type("ref", fl2),
                   lambda o: expect_raise(o, ["IncompatibleUnitsError"]), site=f"Quantity.{name}")
        for lbl, mk in other_values() + [("Unit", lambda c: c.unit("uo", "T"))]:
            cr.run("R03.1", fi, f"{name} {lbl}", qty_and_value("ref", mk), judge_notimpl, flag_kinds=(),
                   site=f"Quantity.{name}")
            # money reaches the operator through its own class (an override there is what runs)
            cr.run("R03.1", fi, f"{name} {lbl} [money]", qty_and_value("money", mk), judge_notimpl, flag_kinds=(),
                   site=f"Quantity.{name}")
    if prog.lookup(prog.cls("Quantity"), "__rsub__") is None:
        res.notes.append("Quantity defines no __rsub__: the reflected difference is a TypeError by the operator protocol")
        absent += 1
    else:
        fi = Q("__rsub__")
        for fl2 in (None, "money"):
            cr.run("R03.1", fi, f"__rsub__ quantity [{fl2 or 'any'}]", two_qty_other_type("ref", fl2),
                   lambda o: expect_raise(o, ["IncompatibleUnitsError"]))
        for lbl, mk in other_values():
            cr.run("R03.1", fi, f"__rsub__ {lbl}", qty_and_value("ref", mk), judge_notimpl, flag_kinds=())
            cr.run("R03.1", fi, f"__rsub__ {lbl} [money]", qty_and_value("money", mk), judge_notimpl, flag_kinds=())

    # comparisons: error classes and "no value"
    for name in ("__lt__", "__le__", "__gt__", "__ge__"):
        fi = Q(name)
        for fl2 in (None, "money"):
            cr.run("R03.1", fi, f"{name} other type [{fl2 or 'any'}]", two_qty_other_type("ref", fl2),
                   lambda o: expect_raise(o, ["IncompatibleUnitsError"]), site=f"Quantity.{name}")
        for lbl, mk in other_values() + [("Unit", lambda c: c.unit("uo", "T"))]:
            cr.run("R03.1", fi, f"{name} {lbl}", qty_and_value("ref", mk), judge_notimpl, flag_kinds=(),
                   site=f"Quantity.{name}")
        for lbl, mk in other_values()[:2]:
            cr.run("R03.1", fi, f"{name} {lbl} [money]", qty_and_value("money", mk), judge_notimpl, flag_kinds=(),
                   site=f"Quantity.{name}")
    fi = Q("__eq__")
    for fl2 in (None, "money"):
        cr.run("R03.1", fi, f"__eq__ other type [{fl2 or 'any'}]", two_qty_other_type("ref", fl2), judge_false)
    for lbl, mk in other_values() + [("Unit", lambda c: c.unit("uo", "T"))]:
        cr.run("R03.1", fi, f"__eq__ {lbl}", qty_and_value("ref", mk), judge_false, flag_kinds=())
    for lbl, mk in other_values()[:2]:
        cr.run("R03.1", fi, f"__eq__ {lbl} [money]", qty_and_value("money", mk), judge_false, flag_kinds=())

    # unary operators
    for fl in ("ref", "ref+quantum", "money"):
        def one(c, fl=fl):
            c.new_type("T", **FLAVORS[fl])
            return [c.qty("self", c.unit("us", "T"))], {}
        cr.run("R03.2", Q("__neg__"), f"__neg__ [{fl}]", one,
               lambda o: (exc_sig(o), "") if o.kind == "raise" else
               judge_qty(o, unit=o.args[0].unit, tid="T", value=RF.const(-1) * VAL(o, 0)))
        cr.run("R03.2", Q("__pos__"), f"__pos__ [{fl}]", one,
               lambda o: (exc_sig(o), "") if o.kind == "raise" else
               judge_qty(o, unit=o.args[0].unit, tid="T", value=VAL(o, 0), allow_operand=o.args[0]))

        def judge_abs(o):
            if o.kind == "raise":
                return (exc_sig(o), "")
            st = o.state
            v = o.value
            r = judge_qty(o, unit=o.args[0].unit, tid="T")
            if r:
                return r
            ex = st.expand_rnd(v.amount.rf)
            fa = [a for a in ex.atoms() if a[0] == "fn" and a[1] == "abs"]
            if len(fa) != 1 or not ex.equals(RF.atom(fa[0])) or \
                    not st.norm(st.rnd_args[fa[0][2]]).equals(st.norm(o.args[0].amount.rf)):
                return ("abs is not |amount| in the same unit", repr(ex))
            return None
        cr.run("R03.2", Q("__abs__"), f"__abs__ [{fl}]", one, judge_abs)

    # R03.3 sum without start value
    sm = prog.function("quantity.utils", "sum")
    x, y, z, s0 = (Num(RF.atom(("x", i)), "exact") for i in range(4))

    def sum_case(items, start, want, label):
        def setup(c):
            args = [ListV(list(items))]
            if start is not None:
                args.append(start)
            return args, {}

        def judge(o):
            if o.kind == "raise":
                return (exc_sig(o), "")
            v = o.value
            if not isinstance(v, Num) or not o.state.norm(v.rf).equals(want):
                return ("wrong sum", f"{v!r}, contract {want!r}")
            return None
        cr.run("R03.3", sm, label, setup, judge)
    sum_case([], None, RF.const(0), "empty, no start")
    sum_case([x], None, x.rf, "one item, no start")
    sum_case([x, y, z], None, x.rf + y.rf + z.rf, "three items, no start")
    sum_case([x, y], s0, s0.rf + x.rf + y.rf, "two items with start")
    sum_case([], s0, s0.rf, "empty with start")
    sum_case([x], s0, s0.rf + x.rf, "one item with start")
    sum_case([x, y, z], s0, s0.rf + x.rf + y.rf + z.rf, "three items with start")
    sum_case([x, y], None, x.rf + y.rf, "two items, no start")

    res.require("R03.1", 60 - 12 * absent)
    res.require("R03.2", 18 - 3 * min(absent, 1))
    res.require("R03.3", 8)
    return res
