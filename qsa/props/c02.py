"""C02 — products, quotients and powers respect dimensions and scales."""
from __future__ import annotations

import ast

from ..contracts import *  # noqa: F401,F403
from ..opcases import op_cases, judge_product, _dims_sum
from ..report import Result
from ..loader import AnalysisError, src_of

TECHNIQUE = ("abstract interpretation (units-of-measure domain with dimension vectors) of every * / ** arm "
             "against value/type/unit contracts; None-flow and float-coercion flags; evaluated "
             "uniqueness scenarios for the type registry and class creation")


def registry_rules(prog, res: Result):
    """R02.5 one quantity type per dimension: the type registry rejects duplicates and class creation
    registers unconditionally without catching the rejection."""
    qm = prog.cls("QuantityMeta")
    reg = qm.attrs.get("_registry")
    ok = False
    detail = "QuantityMeta._registry initialiser not found"
    if reg is not None and isinstance(reg, ast.Call):
        kw = {k.arg: k.value for k in reg.keywords}
        ui = kw.get("unique_items")
        if ui is None and reg.args:
            ui = reg.args[0]
        default = None
        init = prog.method("DefinedItemRegistry", "__init__")
        a = init.node.args
        names = [p.arg for p in a.args]
        if "unique_items" in names:
            idx = names.index("unique_items") - (len(names) - len(a.defaults))
            if idx >= 0:
                default = a.defaults[idx]
        val = ui if ui is not None else default
        ok = isinstance(val, ast.Constant) and val.value is True
        detail = f"unique_items resolves to {src_of(val) if val is not None else None}"
    res.ob("R02.5", "QuantityMeta._registry", "unique_items is true", ok, detail,
           sig="type registry does not enforce uniqueness", nontrivial=False)
    # evaluated, not pattern-matched: (a) the registry itself - a different item with the same definition is
    # rejected when unique (ValueError), kept behind the first one otherwise, an equal item is accepted;
    from ..engine_a import run_body
    from ..models import DictV
    from ..report import Violation
    from .c15 import run_entry
    reg_ci = prog.cls("DefinedItemRegistry")

    def reg_body(unique):
        def body(I, c):
            st = c.st
            I.models.term_objects = True
            c.new_type("T", **FLAVORS["ref"])
            base = UnitV(st.ref_unit("T"))
            st.U(base.uid).kind = "ref"
            st.unit_defs[base.uid] = "base"
            TERM = TypeV("Term", prog.cls("Term"))
            d = I.models.call(TERM, [TupleV([TupleV([base, Num(RF.const(2), "int")])])], {}, None)
            x1 = ObjV(None, "item1", {"normalized_definition": d})
            x2 = ObjV(None, "item2", {"normalized_definition": d})
            reg = I.models.instantiate(reg_ci, [], {"unique_items": BoolV(unique)}, None)
            ri = prog.method("DefinedItemRegistry", "register_item")
            i1 = I.call_function(ri, [reg, x1], {})
            i1b = I.call_function(ri, [reg, x1], {})
            try:
                i2 = I.call_function(ri, [reg, x2], {})
            except AbsRaise as ar:
                i2 = ar.exc.name
            got = I.call_function(prog.method("DefinedItemRegistry", "__getitem__"), [reg, d], {})
            st.res = (i1, i1b, i2, got, x1, x2)
            return reg
        return body

    def reg_judge(unique):
        def judge(o):
            if o.kind == "raise":
                return (exc_sig(o), "registry scenario raised")
            i1, i1b, i2, got, x1, x2 = o.state.res
            same = lambda a_, b_: isinstance(a_, Num) and isinstance(b_, Num) and o.state.norm(a_.rf).equals(o.state.norm(b_.rf))
            if not same(i1, i1b):
                return ("registering the same item twice does not return its id", f"{i1!r}, {i1b!r}")
            if unique and i2 != "ValueError":
                return ("duplicate definition accepted", f"a different item with the same definition got {i2!r}")
            if not unique and not same(i1, i2):
                return ("equivalent definitions get different registry ids", f"{i1!r} vs {i2!r}")
            if got is not x1:
                return ("lookup by definition does not return the first registered item", repr(got))
            return None
        return judge
    for unique in (True, False):
        run_entry(prog, res, "R02.5", "DefinedItemRegistry.register_item",
                  f"two items with one definition, unique_items={unique}", reg_body(unique), reg_judge(unique),
                  max_depth=16)

    # (b) class creation: on every path on which the definition is found registered (or the registry reports a
    # duplicate) the class statement fails with ValueError - nothing swallows the rejection
    from ..declcases import base_types, create_class

    def cls_body(I, c):
        base_types(c)
        return create_class(prog, I, c, derived=True, ref_symbol=False)
    seen = {"dup": 0}

    def cls_judge(o):
        dup = any(t.endswith("=duplicate-definition") for t in o.trace) or \
            any(t.startswith("unit_from_term@") and t.endswith("=found") for t in o.trace)
        if not dup:
            return None
        seen["dup"] += 1
        if o.kind != "raise" or o.exc.name != "ValueError":
            return ("a second type with an already registered definition is accepted", o.brief())
        return None
    run_entry(prog, res, "R02.5", "QuantityMeta.__new__/__init__", "derived type whose definition is already registered",
              cls_body, cls_judge, max_depth=14, min_paths=2)
    res.ob("R02.5", "QuantityMeta.__new__/__init__", "a duplicate definition is reachable in the scenario", seen["dup"] > 0,
           "no path of class creation meets an already registered definition", sig="duplicate type never rejected")


def run(prog, tier) -> Result:
    res = Result("C02")
    res.explanation = (
        "Every arm of Unit/Quantity __mul__, __rmul__, __truediv__, __rtruediv__, __pow__ and the term-resolution "
        "helpers is evaluated abstractly per operand kind (Rational kinds, float, SIPrefix, quantity/unit of the same "
        "or another type, four type flavours, symbolic and literal exponents). A result must be a quantity (or "
        "(factor, unit) pair) whose unit's type has exactly the combined dimension vector and whose exact value "
        "amount x scale equals the product/quotient/power of the operands' values as a polynomial identity, or the "
        "plain exact number when the dimension vector can cancel, or UndefinedResultError/UnitConversionError. A None "
        "unit reaching arithmetic, float arithmetic and any other escaping exception are violations.")
    res.trusted = ["registry lookup returns a unit whose normalised definition equals the normalised key (C07/C17)",
                   "Term ADT: products/powers/normalisation preserve the denoted value (C07)",
                   "constructor summary K11 (verified under C05/C18)", "exact Decimal/Fraction arithmetic"]
    res.assumptions = ["operation-cache hits equal recomputation (cache discipline is rule R17.1 of C17)",
                       "two distinct types never have the same dimension (R02.5)"]
    cr = CaseRunner(prog, res, max_depth=8 if tier == "quick" else 12)
    for rule, fi, label, setup, judge, kw in op_cases(prog, mode="value" if tier == "thorough" else "quick"):
        cr.run(rule, fi, label, setup, judge, **kw)

    # K9: term resolution helpers
    from ..anchors import term_resolver
    af = term_resolver(prog)

    def term_setup(dims_kind):
        def setup(c):
            c.new_type("T1"); c.new_type("T2")
            c.st.distinct_types("T1", "T2")
            u1, u2 = c.unit("u1", "T1"), c.unit("u2", "T2")
            e2 = {"product": 1, "quotient": -1}[dims_kind]
            items = [(u1, Num(RF.const(1), "int")), (u2, Num(RF.const(e2), "int"))]
            mag = mu_of(c.st, u1) * mu_of(c.st, u2).pow_int(e2)
            t = TermV(mag, {"T1": (1, 0), "T2": (e2, 0)}, items=items)
            return [t], {}
        return setup
    def with_lookup_rule(inner):
        def judge(o):
            r = inner(o)
            if r is not None:
                return r
            if o.kind == "raise" and o.exc.name == "KeyError":
                st = o.state
                want = st.norm(o.args[0].mag)
                keys = [e[2] for e in st.effects if e[0] == "mapread" and getattr(e[1], "registry", False)
                        and isinstance(e[2], TermV)]
                if any(t.startswith("split@") and t.endswith("=numeric+remainder") for t in o.trace) and len(keys) < 2:
                    return ("gives up without looking up the normalised term",
                            f"KeyError after normalisation split a numeric factor off the term, but the remaining term "
                            f"was never looked up (lookups: {[repr(st.norm(k.mag)) for k in keys]}): a product / quotient "
                            f"whose units have to be converted to a declared unit would be undefined")
                if not any(st.norm(k.mag).equals(want) for k in keys):
                    return ("gives up without looking up the term itself",
                            f"KeyError although the unit directory was never asked for the exact definition "
                            f"(lookups: {[repr(st.norm(k.mag)) for k in keys]}): a unit declared with exactly this "
                            f"definition (including its numeric factor) would not be found")
            return None
        return judge
    for dk in ("product", "quotient"):
        e2 = 1 if dk == "product" else -1
        cr.run("R02.1", af, f"_amnt_and_unit_from_term {dk}", term_setup(dk),
               with_lookup_rule(judge_product(lambda o: o.args[0].mag,
                                              lambda o, e2=e2: {"T1": (1, 0), "T2": (e2, 0)},
                                              allow=("KeyError",), want_tuple=True)))
    qf = prog.modules["quantity"].functions.get("_qty_from_term")    # private helper, optional
    if qf is not None:
        cr.run("R02.1", qf, "_qty_from_term quotient", term_setup("quotient"),
               judge_product(lambda o: o.args[0].mag, lambda o: {"T1": (1, 0), "T2": (-1, 0)}, allow=("KeyError",)))

    registry_rules(prog, res)
    res.require("R02.1", 8)
    res.require("R02.2", 80)
    res.require("R02.5", 3)
    return res
