"""C14 — table (affine) converters are exact, invertible and mutually consistent."""
from __future__ import annotations

import json
import os
from fractions import Fraction

from ..catalogue import Catalogue
from ..contracts import *  # noqa: F401,F403
from ..loader import AnalysisError
from ..report import Result, VERIF

TECHNIQUE = ("abstract interpretation of the table lookup / forward / reversed formula as polynomial identities; "
             "exact evaluation of the six temperature rows (pairwise inverse, triangles, fixed points)")


def run(prog, tier) -> Result:
    res = Result("C14")
    res.explanation = (
        "R14.1: TableConverter._get_factor is evaluated abstractly with a symbolic table: a row for (from, to) gives "
        "factor*amount + offset; otherwise a row for (to, from) gives an expression r(amount) for which r(f*a + o) = a "
        "holds as a polynomial identity (exact inverse); no row gives None. R14.2: Converter.__call__ outcomes. "
        "R14.3: the six temperature rows are folded exactly from predefined.py: pairwise inverse, all three "
        "triangles compose to the direct row, fixed points against an independent table. R14.4: converters are "
        "consulted only when no linear factor exists and None maps to UnitConversionError; ==, ordering, + use the "
        "same equivalent amount. R14.5: mapping and list forms of the constructor fill one layout.")
    res.trusted = ["oracle/temperature.json", "exact Decimal/Fraction arithmetic"]
    cr = CaseRunner(prog, res, max_depth=8 if tier == "quick" else 12)
    tc = prog.cls("TableConverter")
    from ..anchors import table_lookup_method
    gf = table_lookup_method(prog)

    def setup_tc(c):
        c.new_type("T", **FLAVORS["noref"])
        conv = ObjV(tc, "conv")
        return [conv, c.qty("self", c.unit("us", "T")), c.unit("uo", "T")], {}

    def judge_tc(o):
        st = o.state
        if o.kind == "raise":
            return (exc_sig(o), "contract: amount or None")
        a, b = st.ufind(o.args[1].unit.uid), st.ufind(o.args[2].uid)
        v = o.value
        amt = RF.atom(("a", "self"))
        fwd = any(t.startswith(f"convtable[({a},{b})]=row") for t in o.trace)
        rev = any(t.startswith(f"convtable[({b},{a})]=row") for t in o.trace)
        if fwd:
            want = RF.atom(("tf", a, b)) * amt + RF.atom(("to", a, b))
            return judge_num(o, want)
        if rev:
            if not isinstance(v, Num):
                return ("reverse row not used", repr(v))
            f, off = RF.atom(("tf", b, a)), RF.atom(("to", b, a))
            # r(f*x + o) == x as a polynomial identity
            x = RF.atom(("x",))
            r_at = st.norm(v.rf).subst({("a", "self"): f * x + off})
            if not r_at.equals(x):
                return ("reversed formula is not the exact inverse", f"r(f*x+o) = {r_at!r}")
            return None
        if not isinstance(v, NoneV):
            return ("value without a table row", repr(v))
        asked = {t.split("=")[0] for t in o.trace if t.startswith("convtable[(")}
        if a != b and asked != {f"convtable[({a},{b})]", f"convtable[({b},{a})]"}:
            return ("gives up without looking for the opposite direction", f"lookups: {sorted(asked)}")
        return None
    cr.run("R14.1", gf, "symbolic table, distinct units", setup_tc, judge_tc)

    call = prog.method("Converter", "__call__")

    def setup_call(kind):
        def setup(c):
            c.new_type("T", **FLAVORS["noref"])
            conv = ObjV(tc, "conv")
            us = c.unit("us", "T")
            if kind == "same unit":
                return [conv, c.qty("self", us), us], {}
            if kind == "same type":
                uo = c.unit("uo", "T")
                c.st.distinct_units("us", "uo")
                return [conv, c.qty("self", us), uo], {}
            c.new_type("T2")
            c.st.distinct_types("T", "T2")
            return [conv, c.qty("self", us), c.unit("uo", "T2")], {}
        return setup
    cr.run("R14.2", call, "same unit", setup_call("same unit"),
           lambda o: (exc_sig(o), "") if o.kind == "raise" else judge_num(o, RF.atom(("a", "self"))))
    cr.run("R14.2", call, "same type", setup_call("same type"), judge_tc)
    cr.run("R14.2", call, "other type", setup_call("other type"),
           lambda o: expect_raise(o, ["IncompatibleUnitsError"]))

    # R14.5 constructor layouts
    init = prog.method("TableConverter", "__init__")

    def setup_init(kind):
        def setup(c):
            from ..models import DictV
            c.new_type("T", **FLAVORS["noref"])
            u1, u2 = c.unit("u1", "T"), c.unit("u2", "T")
            f, off = c.num("f", "frac"), c.num("o", "dec")
            me = ObjV(tc, "conv")
            if kind in ("mapping", "read-only mapping"):
                tbl = DictV([(TupleV([u1, u2]), TupleV([f, off]))])
                if kind == "read-only mapping":
                    tbl.readonly = True        # a Mapping that is not a MutableMapping (MappingProxyType, user class)
            elif kind == "list":
                tbl = ListV([TupleV([u1, u2, f, off])])
            else:
                tbl = c.num("x", "int")
            return [me, tbl], {}
        return setup

    def judge_init(kind):
        def judge(o):
            if kind == "other":
                return expect_raise(o, ["TypeError"])
            if o.kind == "raise":
                return (exc_sig(o), "")
            from ..models import DictV
            me = o.args[0]
            m = me.fields.get("_unit_map")
            if not isinstance(m, DictV) or len(m.items) != 1:
                return ("table not stored", repr(m))
            k, v = m.items[0]
            ok = isinstance(k, TupleV) and [getattr(x, "uid", None) for x in k.items] == ["u1", "u2"] and \
                isinstance(v, TupleV) and len(v.items) == 2 and \
                v.items[0].rf.equals(RF.atom(("k", "f"))) and v.items[1].rf.equals(RF.atom(("k", "o")))
            return None if ok else ("table layout differs from ((from, to) -> (factor, offset))", f"{k!r} -> {v!r}")
        return judge
    for kind in ("mapping", "read-only mapping", "list", "other"):
        cr.run("R14.5", init, f"conv_table as {kind}", setup_init(kind), judge_init(kind))

    # R14.4 fallback order and error class for reference-less types (temperature-like)
    Q = lambda n: prog.method("Quantity", n)
    ea, cv = Q("equiv_amount"), Q("convert")

    def judge_ea(o):
        st = o.state
        if o.kind == "raise":
            return (exc_sig(o), "contract: amount, converter result or None")
        v = o.value
        same = st.same_unit(o.args[0].unit.uid, o.args[1].uid)
        if isinstance(v, NoneV):
            return None if same is not True else ("None for identical units", "")
        if not isinstance(v, Num):
            return ("non-number", repr(v))
        rf = st.norm(v.rf)
        ca = conv_atoms(rf)
        if ca:
            return None if rf.equals(RF.atom(ca[0])) else ("converter result altered", repr(rf))
        if same is True or mu_of(st, o.args[0].unit).equals(mu_of(st, o.args[1])):
            return judge_num(o, RF.atom(("a", "self")))
        return ("amount taken over between different units", repr(rf))
    cr.run("R14.4", ea, "equiv_amount [noref]", qty_and_unit_same_type("noref"), judge_ea)

    def judge_cv(o):
        st = o.state
        if o.kind == "raise":
            return None if o.exc.name == "UnitConversionError" else (exc_sig(o), "contract: UnitConversionError")
        v = o.value
        r = judge_qty(o, unit=o.args[1], tid="T")
        if r:
            return r
        rf = st.expand_rnd(v.amount.rf)
        ca = conv_atoms(rf)
        if ca:
            return None if rf.equals(RF.atom(ca[0])) else ("converter result altered", repr(rf))
        return judge_qty(o, value=VAL(o, 0))
    cr.run("R14.4", cv, "convert [noref]", qty_and_unit_same_type("noref"), judge_cv)
    for name in ("__eq__", "__lt__", "__ge__"):
        cr.run("R14.4", Q(name), f"{name} [noref]", two_qty_same_type("noref"), judge_compare(name, "noref"),
               site=f"Quantity.{name}")
    for name, sg in (("__add__", 1), ("__sub__", -1)):
        cr.run("R14.4", Q(name), f"{name} [noref]", two_qty_same_type("noref"), judge_addsub(sg, "noref"),
               site=f"Quantity.{name}")

    # a converter's result is used whatever its value (a result of exactly 0 is a result)
    def judge_first_result(o):
        st = o.state
        got_amount = any(t == "conv(self)=amount" for t in o.trace)
        if got_amount:
            if o.kind != "return" or not isinstance(o.value, Num) or not conv_atoms(st.norm(o.value.rf)):
                return ("a converter's result is discarded", f"{o.brief()}: the amount returned by the converter must "
                        f"be used even if it is zero")
        return None
    cr.run("R14.4", ea, "converter result is used whatever its value", qty_and_unit_same_type("noref"),
           judge_first_result, min_paths=3)

    # R14.3 temperature rows
    cat = Catalogue(prog)
    temp = cat.types.get("Temperature")
    if temp is None or not temp.converters:
        raise AnalysisError("anchor vanished: Temperature converter table in predefined.py")
    rows = {}
    for r in temp.converters[0]:
        if not (isinstance(r, list) and len(r) == 4 and hasattr(r[0], "symbol") and hasattr(r[1], "symbol")):
            raise AnalysisError("temperature table row form")
        rows[(r[0].symbol, r[1].symbol)] = (r[2], r[3])
    res.functions.add("quantity.predefined._temp_conv")
    res.ob("R14.3", "predefined._temp_conv", "registered for Temperature", True, nontrivial=False)
    syms = sorted({k[0] for k in rows} | {k[1] for k in rows})
    for (a, b), (f, o) in sorted(rows.items()):
        inv = rows.get((b, a))
        if inv is not None:
            ok = f != 0 and inv[0] == 1 / f and inv[1] == -o / f
            res.ob("R14.3", f"temperature row {a}->{b}", "inverse of the opposite row", ok,
                   f"{a}->{b}: x*{f}+{o}; {b}->{a}: x*{inv[0]}+{inv[1]}; exact inverse would be x*{1 / f}+{-o / f}",
                   sig="tabulated directions are not inverse to each other",
                   sample={"row": [a, b, str(f), str(o)], "opposite": [str(inv[0]), str(inv[1])]})
    for a in syms:
        for b in syms:
            for c in syms:
                if len({a, b, c}) == 3 and all(k in rows for k in ((a, b), (b, c), (a, c))):
                    f1, o1 = rows[(a, b)]
                    f2, o2 = rows[(b, c)]
                    f3, o3 = rows[(a, c)]
                    ok = f1 * f2 == f3 and o1 * f2 + o2 == o3
                    res.ob("R14.3", f"temperature triangle {a}->{b}->{c}", "composes to the direct row", ok,
                           f"via {b}: x*{f1 * f2}+{o1 * f2 + o2}; direct: x*{f3}+{o3}",
                           sig="conversion through a third unit differs from the direct conversion")
    fp = json.load(open(os.path.join(VERIF, "oracle", "temperature.json"), encoding="utf-8"))["fixed_points"]
    n_fp = 0
    for pt in fp:
        ks = list(pt)
        for a in ks:
            for b in ks:
                if a != b and (a, b) in rows:
                    f, o = rows[(a, b)]
                    got = Fraction(pt[a]) * f + o
                    n_fp += 1
                    res.ob("R14.3", f"fixed point {pt[a]} {a} -> {b}", "equals reference", got == Fraction(pt[b]),
                           f"table gives {got} {b}, reference {pt[b]} {b}", sig="temperature fixed point violated")
    if len(rows) < 6 or n_fp < 12:
        raise AnalysisError(f"temperature table: {len(rows)} rows, {n_fp} fixed-point checks (6 / 12 confirmed)")

    res.require("R14.1", 1)
    res.require("R14.2", 3)
    res.require("R14.3", 20)
    res.require("R14.4", 7)
    res.require("R14.5", 4)
    return res
