"""C14 — table (affine) converters are exact, invertible and mutually consistent."""
from __future__ import annotations

import json
import os
from fractions import Fraction

from ..catalogue import Catalogue
from ..contracts import *  # noqa: F401,F403
from ..loader import AnalysisError
from ..report import Result, VERIF

TECHNIQUE = ("abstract interpretation of converters built by the evaluated constructor and called for every ordered pair "
             "of units (forward / reversed formula as polynomial identities), end to end through a registered converter; "
             "exact evaluation of the six temperature rows (pairwise inverse, triangles, fixed points)")


def run(prog, tier) -> Result:
    res = Result("C14")
    res.explanation = (
        "R14.1: table converters are built by the evaluated constructor from tables with symbolic factors and offsets "
        "(given as mapping, read-only mapping, list, tuple; one or both directions tabulated) and called for every "
        "ordered pair of four units: a row for (from, to) gives factor*amount + offset; otherwise a row for (to, from) "
        "gives an expression r(amount) for which r(f*a + o) = a holds as a polynomial identity (exact inverse); no row "
        "gives None (rows are not chained); the same unit gives the amount. R14.2: unit of another type; a table "
        "converter registered through the public API drives convert, ==, <, >= and + with exactly these amounts. "
        "R14.3: the six temperature rows are folded exactly from predefined.py: pairwise inverse, all three "
        "triangles compose to the direct row, fixed points against an independent table. R14.4: converters are "
        "consulted only when no linear factor exists and None maps to UnitConversionError; ==, ordering, + use the "
        "same equivalent amount. R14.5: mapping and list forms of the constructor fill one layout.")
    res.trusted = ["oracle/temperature.json", "exact Decimal/Fraction arithmetic"]
    cr = CaseRunner(prog, res, max_depth=8 if tier == "quick" else 12)
    tc = prog.cls("TableConverter")
    # ---- R14.1 / R14.2 / R14.5: converters are built by the evaluated constructor from a table given as a mapping,
    # a read-only mapping, a list or a tuple of rows, and then *called* for every ordered pair of units - nothing here
    # names how the table is stored.  Rows: u1->u2 (f12, o12), u2->u3 (f23, o23); "both": also u2->u1 (g21, p21).
    from ..interp import Frame
    from ..models import DictV
    call = prog.method("Converter", "__call__")

    def build(c, form, both=False, kinds=("frac", "dec", "dec", "frac")):
        c.new_type("T", **FLAVORS["noref"])
        # units without definition: no linear factor between them, only the table relates them
        us = {n: c.unit(n, "T", kind="base") for n in ("u1", "u2", "u3", "u4")}
        names = list(us)
        for a_ in range(len(names)):
            for b_ in range(a_ + 1, len(names)):
                c.st.distinct_units(names[a_], names[b_])
        rows = [("u1", "u2", c.num("f12", kinds[0]), c.num("o12", kinds[1])), ("u2", "u3", c.num("f23", kinds[2]), c.num("o23", kinds[3]))]
        if both:
            rows.append(("u2", "u1", c.num("g21", "frac"), c.num("p21", "dec")))
        if form in ("mapping", "read-only mapping"):
            tbl = DictV([(TupleV([us[a_], us[b_]]), TupleV([f_, o_])) for a_, b_, f_, o_ in rows])
            if form == "read-only mapping":
                tbl.readonly = True        # a Mapping that is not a MutableMapping (MappingProxyType, user class)
        elif form == "list":
            tbl = ListV([TupleV([us[a_], us[b_], f_, o_]) for a_, b_, f_, o_ in rows])
        elif form == "tuple":
            tbl = TupleV([TupleV([us[a_], us[b_], f_, o_]) for a_, b_, f_, o_ in rows])
        else:
            tbl = c.num("x", "int")
        I = c.m.I
        I.frames.append(Frame(None, prog.modules["quantity"], None, {}))
        try:
            conv = c.m.instantiate(tc, [tbl], {}, None)
        finally:
            I.frames.pop()
        c.st.c14 = {"rows": {(a_, b_): (f_.rf, o_.rf) for a_, b_, f_, o_ in rows}, "units": us}
        return conv, us

    def setup_pair(form, frm, to, both=False, kinds=("frac", "dec", "dec", "frac")):
        def setup(c):
            try:
                conv, us = build(c, form, both, kinds)
            except AbsRaise:
                raise Infeasible        # the constructor rejects the table: reported by the constructor case below
            c.st.c14["pair"] = (frm, to)
            return [conv, c.qty("self", us[frm]), us[to]], {}
        return setup

    def judge_pair(o):
        st = o.state
        info = st.c14
        frm, to = info["pair"]
        rows = info["rows"]
        a = RF.atom(("a", "self"))
        if o.kind == "raise":
            return (exc_sig(o), "contract: amount or None")
        v = o.value
        if frm == to:
            return judge_num(o, a)
        if (frm, to) in rows:
            f, off = rows[(frm, to)]
            if not isinstance(v, Num):
                return ("tabulated direction not used", repr(v))
            return judge_num(o, f * a + off)
        if (to, frm) in rows:
            f, off = rows[(to, frm)]
            if not isinstance(v, Num):
                return ("opposite direction not used", repr(v))
            # r(f*x + o) == x as a polynomial identity
            x = RF.atom(("x",))
            r_at = st.norm(v.rf).subst({("a", "self"): f * x + off})
            if not r_at.equals(x):
                return ("reversed formula is not the exact inverse", f"r(f*x+o) = {r_at!r}")
            return None
        if not isinstance(v, NoneV):
            return ("value without a table row", f"{frm}->{to}: {v!r} (no row in either direction; rows are not chained)")
        return None
    PAIRS = [("u1", "u2"), ("u2", "u1"), ("u2", "u3"), ("u3", "u2"), ("u1", "u3"), ("u3", "u1"), ("u1", "u4"), ("u1", "u1")]
    for form in ("mapping", "read-only mapping", "list", "tuple"):
        for frm, to in (PAIRS if form in ("mapping", "list") else PAIRS[:2] + PAIRS[4:5]):
            cr.run("R14.1" if form in ("mapping", "list") else "R14.5", call, f"table as {form}, {frm}->{to}",
                   setup_pair(form, frm, to), judge_pair)
    # both directions tabulated: each direction uses its own row
    for frm, to in (("u1", "u2"), ("u2", "u1")):
        cr.run("R14.1", call, f"both directions tabulated, {frm}->{to}", setup_pair("list", frm, to, both=True), judge_pair)

    # factors and offsets given as plain ints (ints are rationals): results stay exact in both directions
    for frm, to in (("u1", "u2"), ("u2", "u1"), ("u3", "u2")):
        cr.run("R14.1", call, f"int factors and offsets, {frm}->{to}", setup_pair("list", frm, to, kinds=("int",) * 4), judge_pair)

    # the constructor accepts every table form
    def setup_ctor(form):
        def setup(c):
            c.new_type("T", **FLAVORS["noref"])
            u1, u2 = c.unit("u1", "T", kind="base"), c.unit("u2", "T", kind="base")
            c.st.distinct_units("u1", "u2")
            f_, o_ = c.num("f12", "frac"), c.num("o12", "dec")
            if form in ("mapping", "read-only mapping"):
                tbl = DictV([(TupleV([u1, u2]), TupleV([f_, o_]))])
                tbl.readonly = form == "read-only mapping"
            elif form == "list":
                tbl = ListV([TupleV([u1, u2, f_, o_])])
            else:
                tbl = TupleV([TupleV([u1, u2, f_, o_])])
            return [ObjV(tc, "conv"), tbl], {}
        return setup
    for form in ("mapping", "read-only mapping", "list", "tuple"):
        cr.run("R14.5", prog.method("TableConverter", "__init__"), f"constructor accepts a {form}", setup_ctor(form),
               lambda o: (exc_sig(o), "a valid conversion table is rejected") if o.kind == "raise" else None)

    def setup_other(c):
        conv, us = build(c, "list")
        c.new_type("T2")
        c.st.distinct_types("T", "T2")
        return [conv, c.qty("self", us["u1"]), c.unit("uo", "T2")], {}
    cr.run("R14.2", call, "unit of another type", setup_other, lambda o: expect_raise(o, ["IncompatibleUnitsError"]))

    def setup_bad(c):
        c.new_type("T", **FLAVORS["noref"])
        return [ObjV(tc, "conv"), c.num("x", "int")], {}
    cr.run("R14.5", prog.method("TableConverter", "__init__"), "conv_table is neither mapping nor iterable", setup_bad,
           lambda o: expect_raise(o, ["TypeError"]))

    # ---- R14.2 end to end: a table converter registered for its type through the public API, then convert / == / < / +
    greg = prog.method("QuantityMeta", "register_converter")

    def setup_e2e(kind):
        def setup(c):
            conv, us = build(c, "list")
            tid = c.st.tfind("T")
            c.st.concrete_registries = True     # the registry starts as the metaclass creates it (empty)
            I = c.m.I
            I.frames.append(Frame(None, prog.modules["quantity"], None, {}))
            try:
                I.call_function(greg, [ClsV(tid), conv], {})
            except AbsRaise:
                raise AnalysisError("C14: register_converter(TableConverter) raises")
            finally:
                I.frames.pop()
            q1 = c.qty("self", us["u1"])
            if kind in ("convert", "convert-reverse", "convert-none"):
                tgt = {"convert": "u2", "convert-reverse": "u1", "convert-none": "u3"}[kind]
                if kind == "convert-reverse":
                    q1 = c.qty("self", us["u2"])
                return [q1, us[tgt]], {}
            return [q1, c.qty("other", us["u2"])], {}
        return setup

    def judge_e2e(kind):
        def judge(o):
            st = o.state
            rows = st.c14["rows"]
            f, off = rows[("u1", "u2")]
            a, b = RF.atom(("a", "self")), RF.atom(("a", "other"))
            if kind == "convert-none":
                return expect_raise(o, ["UnitConversionError"])
            if o.kind == "raise":
                return (exc_sig(o), "contract: result through the registered table converter")
            v = o.value
            if kind == "convert":
                return judge_qty(o, unit=o.args[1], tid="T", amount=f * a + off)
            if kind == "convert-reverse":
                return judge_qty(o, unit=o.args[1], tid="T", amount=(a - off) / f)
            if kind == "__add__":
                return judge_qty(o, unit=o.args[0].unit, tid="T", amount=a + (b - off) / f)
            # comparisons: the other operand expressed in self's unit: (b - off) / f
            want_op = {"__eq__": "==", "__lt__": "<", "__ge__": ">="}[kind]
            other_in_self = (b - off) / f
            if isinstance(v, BoolV):
                t = known_truth(st, CmpV(want_op, Num(a, "exact"), Num(other_in_self, "exact")))
                if t is None:
                    return ("comparison decided without comparing the converted amounts", repr(v))
                return None if t == v.val else ("comparison disagrees with the table conversion", f"{v!r}")
            if isinstance(v, CmpV):
                l_, r_ = st.norm(v.l.rf), st.norm(v.r.rf)
                if v.op == want_op and l_.equals(a) and st.norm(r_).equals(st.norm(other_in_self)):
                    return None
                return ("comparison is not <amount> op <other amount converted by the table>", repr(v))
            return ("no comparison result", repr(v))
        return judge
    Qm = lambda n: prog.method("Quantity", n)
    for kind, fn in (("convert", Qm("convert")), ("convert-reverse", Qm("convert")), ("convert-none", Qm("convert")),
                     ("__eq__", Qm("__eq__")), ("__lt__", Qm("__lt__")), ("__ge__", Qm("__ge__")), ("__add__", Qm("__add__"))):
        cr.run("R14.2", fn, f"registered table converter: {kind}", setup_e2e(kind), judge_e2e(kind), site=f"Quantity.{fn.name}")

    # R14.4 fallback order and error class for reference-less types (temperature-like)
    Q = lambda n: prog.method("Quantity", n)
    ea, cv = Q("equiv_amount"), Q("convert")

    def judge_ea(o):
        st = o.state
        if o.kind == "raise":
            return (exc_sig(o), "contract: amount, converter result or None")
        v = o.value
        same = st.same_unit(o.args[0].unit.uid, o.args[1].uid)
        if isinstance(v, NoneV):
            return None if same is not True else ("None for identical units", "")
        if not isinstance(v, Num):
            return ("non-number", repr(v))
        rf = st.norm(v.rf)
        ca = conv_atoms(rf)
        if ca:
            return None if rf.equals(RF.atom(ca[0])) else ("converter result altered", repr(rf))
        if same is True or mu_of(st, o.args[0].unit).equals(mu_of(st, o.args[1])):
            return judge_num(o, RF.atom(("a", "self")))
        return ("amount taken over between different units", repr(rf))
    cr.run("R14.4", ea, "equiv_amount [noref]", qty_and_unit_same_type("noref"), judge_ea)

    def judge_cv(o):
        st = o.state
        if o.kind == "raise":
            return None if o.exc.name == "UnitConversionError" else (exc_sig(o), "contract: UnitConversionError")
        v = o.value
        r = judge_qty(o, unit=o.args[1], tid="T")
        if r:
            return r
        rf = st.expand_rnd(v.amount.rf)
        ca = conv_atoms(rf)
        if ca:
            return None if rf.equals(RF.atom(ca[0])) else ("converter result altered", repr(rf))
        return judge_qty(o, value=VAL(o, 0))
    cr.run("R14.4", cv, "convert [noref]", qty_and_unit_same_type("noref"), judge_cv)
    for name in ("__eq__", "__lt__", "__ge__"):
        cr.run("R14.4", Q(name), f"{name} [noref]", two_qty_same_type("noref"), judge_compare(name, "noref"),
               site=f"Quantity.{name}")
    for name, sg in (("__add__", 1), ("__sub__", -1)):
        cr.run("R14.4", Q(name), f"{name} [noref]", two_qty_same_type("noref"), judge_addsub(sg, "noref"),
               site=f"Quantity.{name}")

    # a converter's result is used whatever its value (a result of exactly 0 is a result)
    def judge_first_result(o):
        st = o.state
        got_amount = any(t == "conv(self)=amount" for t in o.trace)
        if got_amount:
            if o.kind != "return" or not isinstance(o.value, Num) or not conv_atoms(st.norm(o.value.rf)):
                return ("a converter's result is discarded", f"{o.brief()}: the amount returned by the converter must "
                        f"be used even if it is zero")
        return None
    cr.run("R14.4", ea, "converter result is used whatever its value", qty_and_unit_same_type("noref"),
           judge_first_result, min_paths=3)

    # R14.3 temperature rows
    from ..catalogue import ModuleRaises
    try:
        cat = Catalogue(prog)
    except ModuleRaises as e:
        res.ob("R14.3", "quantity.predefined", "the catalogue can be imported", False, str(e),
               sig="catalogue module raises at import time")
        return res
    temp = cat.types.get("Temperature")
    if temp is None or not temp.converters:
        raise AnalysisError("anchor vanished: Temperature converter table in predefined.py")
    rows = {}
    for r in temp.converters[0]:
        if not (isinstance(r, list) and len(r) == 4 and hasattr(r[0], "symbol") and hasattr(r[1], "symbol")):
            raise AnalysisError("temperature table row form")
        rows[(r[0].symbol, r[1].symbol)] = (r[2], r[3])
    res.functions.add("quantity.predefined._temp_conv")
    res.ob("R14.3", "predefined._temp_conv", "registered for Temperature", True, nontrivial=False)
    syms = sorted({k[0] for k in rows} | {k[1] for k in rows})
    for (a, b), (f, o) in sorted(rows.items()):
        inv = rows.get((b, a))
        if inv is not None:
            ok = f != 0 and inv[0] == 1 / f and inv[1] == -o / f
            res.ob("R14.3", f"temperature row {a}->{b}", "inverse of the opposite row", ok,
                   f"{a}->{b}: x*{f}+{o}; {b}->{a}: x*{inv[0]}+{inv[1]}; exact inverse would be x*{1 / f}+{-o / f}",
                   sig="tabulated directions are not inverse to each other",
                   sample={"row": [a, b, str(f), str(o)], "opposite": [str(inv[0]), str(inv[1])]})
    for a in syms:
        for b in syms:
            for c in syms:
                if len({a, b, c}) == 3 and all(k in rows for k in ((a, b), (b, c), (a, c))):
                    f1, o1 = rows[(a, b)]
                    f2, o2 = rows[(b, c)]
                    f3, o3 = rows[(a, c)]
                    ok = f1 * f2 == f3 and o1 * f2 + o2 == o3
                    res.ob("R14.3", f"temperature triangle {a}->{b}->{c}", "composes to the direct row", ok,
                           f"via {b}: x*{f1 * f2}+{o1 * f2 + o2}; direct: x*{f3}+{o3}",
                           sig="conversion through a third unit differs from the direct conversion")
    fp = json.load(open(os.path.join(VERIF, "oracle", "temperature.json"), encoding="utf-8"))["fixed_points"]
    n_fp = 0
    for pt in fp:
        ks = list(pt)
        for a in ks:
            for b in ks:
                if a != b and (a, b) in rows:
                    f, o = rows[(a, b)]
                    got = Fraction(pt[a]) * f + o
                    n_fp += 1
                    res.ob("R14.3", f"fixed point {pt[a]} {a} -> {b}", "equals reference", got == Fraction(pt[b]),
                           f"table gives {got} {b}, reference {pt[b]} {b}", sig="temperature fixed point violated")
    if len(rows) < 6 or n_fp < 12:
        raise AnalysisError(f"temperature table: {len(rows)} rows, {n_fp} fixed-point checks (6 / 12 confirmed)")

    res.require("R14.1", 21)
    res.require("R14.2", 8)
    res.require("R14.3", 20)
    res.require("R14.4", 7)
    res.require("R14.5", 11)
    return res
