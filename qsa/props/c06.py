"""C06 — allocation conserves the total (structural clauses)."""
from __future__ import annotations

import ast

from ..contracts import *  # noqa: F401,F403
from ..loader import AnalysisError, src_of
from ..report import Result

TECHNIQUE = ("abstract interpretation of allocate() for ratio lists of length 1..3 with every sort order and break "
             "point unrolled: conservation as a polynomial identity, fresh portions, one quantum per portion; "
             "loop-shape rule (paired update) for the inductive step to any length")


def run(prog, tier) -> Result:
    res = Result("C06")
    res.explanation = (
        "Quantity.allocate is evaluated abstractly for symbolic ratio lists of length 1..3 (numbers and quantities of "
        "one type), quantized and unquantized receivers, with and without dispersal; the sort of the rounding errors "
        "is unknown, so every permutation and every break point is a path. On each path: the portions plus the "
        "reported remainder equal the receiver exactly as a polynomial identity (the remainder's construction cannot "
        "round because it is an integer multiple of the quantum); every portion has the receiver's type and unit and "
        "equals its proportional share exactly (no quantum) or the once-rounded share plus at most one quantum of "
        "the remainder's sign; only freshly constructed portions are mutated, never the receiver. For any length the "
        "loop-shape rule shows each iteration moves one and the same quantum from the running remainder to exactly "
        "one portion.")
    res.trusted = ["Decimal(x, 0) yields an integer multiple of the quantum (dependency)"]
    res.assumptions = ["NOT decided (bounds on run-time magnitudes): every portion within one quantum of its share, "
                       "remainder zero after dispersal, the half-mode bound - these need |remainder| < n*quantum"]
    cr = CaseRunner(prog, res, max_depth=10 if tier == "quick" else 14)
    al = prog.method("Quantity", "allocate")
    lengths = (1, 2, 3) if tier == "thorough" else (1, 2)

    def setup(fl, n, ratio_kind, disperse):
        def s(c):
            c.new_type("T", **FLAVORS[fl])
            us = c.unit("us", "T")
            st = c.st
            if fl == "ref":
                me = c.qty("self", us)
            else:
                q = RF.atom(("sf", "us")) if fl == "money" else RF.atom(("Qm", "T")) * RF.atom(("rho", "T")) / mu_of(st, us)
                me = QtyV(Num(RF.atom(("ki", "self")) * q, "exact"), us, "T", name="self")
                me.quantum = q
            if ratio_kind == "number":
                ratios = [Num(RF.atom(("r", i)), "exact") for i in range(n)]
            elif ratio_kind == "int":
                ratios = [Num(RF.atom(("r", i)), "int") for i in range(n)]      # plain ints: shares stay exact
            else:
                # quantity ratios of one type, each in its own unit
                c.new_type("TR", has_ref=True, has_quantum=False, money=False)
                ratios = [c.qty(f"r{i}", c.unit(f"ur{i}", "TR", kind="defined")) for i in range(n)]
                for i in range(n):
                    for k in range(i):
                        c.st.distinct_units(f"ur{i}", f"ur{k}")
            return [me, ListV(ratios), BoolV(disperse)], {}
        return s

    def judge(fl, n, ratio_kind, disperse):
        def j(o):
            st = o.state
            me = o.args[0]
            if o.kind == "raise":
                return (exc_sig(o), "contract: (portions, remainder)")
            v = o.value
            if not (isinstance(v, TupleV) and len(v.items) == 2 and isinstance(v.items[0], ListV)
                    and v.items[0].items is not None and isinstance(v.items[1], QtyV)):
                return ("result is not (list of portions, remainder)", repr(v))
            portions, rem = v.items[0].items, v.items[1]
            if len(portions) != n:
                return ("number of portions differs from the number of ratios", f"{len(portions)} for {n}")
            # receiver untouched, only fresh objects mutated
            for e in st.effects:
                if e[0] == "setattr" and isinstance(e[1], QtyV):
                    if e[1] is me:
                        return ("the receiver is mutated", f"{e[2]} at {e[4]}")
                    if e[5] and not e[1].fresh:
                        return ("a non-fresh quantity is mutated", f"{e[1]!r} at {e[4]}")
            a_self = st.norm(me.amount.rf)
            total_atoms = None
            if ratio_kind in ("number", "int"):
                rs = [RF.atom(("r", i)) for i in range(n)]
            else:
                # the relative sizes of quantity ratios are their values (amount x scale), not their amounts
                rs = [RF.atom(("a", f"r{i}")) * st.norm(st.U(f"ur{i}").mu) for i in range(n)]
            tot = RF.const(0)
            for r in rs:
                tot = tot + r
            ssum = RF.const(0)
            q = getattr(me, "quantum", None)
            for i, p in enumerate(portions):
                if not isinstance(p, QtyV) or p.amount is None:
                    return ("portion is not a quantity", repr(p))
                if st.same_unit(p.unit.uid, me.unit.uid) is not True or st.same_type(p.tid, me.tid) is not True:
                    return ("portion not in the receiver's unit and type", repr(p))
                share = a_self * rs[i] / tot
                ex = st.expand_rnd(p.amount.rf)
                if q is None:
                    if not ex.equals(share):
                        return ("portion is not its proportional share", f"portion {i}: {ex!r}, share {share!r}")
                else:
                    d = ex - share
                    qn = st.norm(q)
                    if not (d.is_zero() or d.equals(qn) or d.equals(RF.const(0) - qn)):
                        return ("portion deviates from its once-rounded share by more than one quantum step",
                                f"portion {i}: exact {ex!r}, share {share!r}")
                    if st.rnd_depth(p.amount.rf) > 1:
                        return ("portion rounded more than once", repr(st.norm(p.amount.rf)))
                ssum = ssum + st.norm(p.amount.rf)
            # R06.5: the dispersal order follows the rounding errors (stored portion - exact share)
            for e in st.effects:
                if e[0] == "sorted" and q is not None:
                    qn = st.norm(q)
                    facs = []
                    for el in e[1]:
                        if not (isinstance(el, TupleV) and len(el.items) == 2 and isinstance(el.items[0], Num)
                                and isinstance(el.items[1], Num)):
                            return ("dispersal sort key is not (error, index)", repr(el))
                        i = int(st.norm(el.items[1].rf).const_value())
                        share = a_self * rs[i] / tot
                        err = st.rnd(0, share / qn) * qn - share
                        key = st.norm(el.items[0].rf)
                        if err.is_zero():
                            continue
                        facs.append(key / err)
                    for f in facs:
                        if not f.equals(facs[0]):
                            return ("dispersal sort keys are not one common multiple of the rounding errors",
                                    f"key/error ratios {facs[0]!r} and {f!r}")
                    # direction: descending order (reverse) exactly when the remainder is negative
                    rem0 = a_self
                    for i in range(n):
                        rem0 = rem0 - st.rnd(0, (a_self * rs[i] / tot) / qn) * qn
                    rem0 = st.norm(rem0)
                    neg_known = None
                    k1, k2 = st.canon_diff(rem0).key(), st.canon_diff(RF.const(0) - rem0).key()
                    for k, op_, r_ in st.cmp_facts:
                        if k == k1 and op_ == "<":
                            neg_known = r_
                        if k == k2 and op_ == ">":
                            neg_known = r_
                    rev = e[2]
                    rev_val = False if rev is None else known_truth(st, rev)
                    if neg_known is not None and rev_val is not None and rev_val != neg_known:
                        return ("dispersal order does not follow the sign of the remainder",
                                f"remainder negative: {neg_known}, errors sorted descending: {rev_val}")
                    if len(e[1]) >= 2 and (neg_known is None or rev_val is None):
                        return ("dispersal order does not follow the sign of the remainder",
                                f"on this path the sign of the remainder is {'unknown' if neg_known is None else ('negative' if neg_known else 'positive')} "
                                f"and the sort direction {'is not determined by it' if rev_val is None else ('descending' if rev_val else 'ascending')}")
                    if facs:
                        from ..contracts import _sign_of_rf
                        cst = facs[0].as_constant()
                        positive = (cst is not None and cst > 0) or _sign_of_rf(st, facs[0]) == 1
                        if not positive:
                            return ("dispersal sort key is the rounding error scaled by a factor of unknown sign",
                                    f"key = error * {facs[0]!r}: the order of the adjustments flips when the factor is negative")
            if st.same_unit(rem.unit.uid, me.unit.uid) is not True or st.same_type(rem.tid, me.tid) is not True:
                return ("remainder not in the receiver's unit and type", repr(rem))
            lhs = ssum + st.norm(rem.amount.rf)
            if not lhs.equals(a_self):
                return ("portions + remainder != receiver",
                        f"sum of portions + remainder = {lhs!r}; receiver amount {a_self!r}")
            if q is not None:
                # R06.6: adjustments move the remainder towards zero and stop there.  With the adjustments
                # d (one signed quantum each) and the final remainder R, the remainder before the t-th last
                # adjustment is R + t*d; each of them must be known non-zero (the code checked it) on this path.
                qn = st.norm(q)
                deltas = []
                for i, p in enumerate(portions):
                    d_ = st.norm(p.amount.rf) - st.rnd(0, (a_self * rs[i] / tot) / qn) * qn
                    d_ = st.norm(d_)
                    if not d_.is_zero():
                        deltas.append(d_)
                if disperse and not deltas:
                    # dispersal was asked for (explicitly or by default): a remainder that is known to be non-zero
                    # on this path must have been handed out quantum by quantum
                    rem0__ = a_self
                    for i in range(n):
                        rem0__ = rem0__ - st.rnd(0, (a_self * rs[i] / tot) / qn) * qn
                    if known_truth(st, CmpV("!=", Num(st.norm(rem0__), "exact"), Num(RF.const(0), "int"))) is True:
                        return ("rounding error not dispersed", f"remainder {st.norm(rem0__)!r} is non-zero on this path, "
                                f"yet no portion was adjusted")
                if deltas:
                    if not all(d_.equals(deltas[0]) for d_ in deltas):
                        return ("portions are adjusted by different amounts", repr(deltas))
                    rfin = st.norm(rem.amount.rf)
                    zero = Num(RF.const(0), "int")
                    # every adjustment has the sign of the remainder it uses up (|remainder| shrinks): the remainder
                    # before dispersal is rem0 = receiver - sum of the once-rounded shares
                    rem0_ = a_self
                    for i in range(n):
                        rem0_ = rem0_ - st.rnd(0, (a_self * rs[i] / tot) / qn) * qn
                    rem0_ = st.norm(rem0_)
                    neg_ = known_truth(st, CmpV("<", Num(rem0_, "exact"), zero))
                    d_pos = deltas[0].equals(qn)
                    d_neg = deltas[0].equals(RF.const(0) - qn)
                    if neg_ is None or not (d_pos or d_neg) or (neg_ and not d_neg) or (not neg_ and not d_pos):
                        return ("adjustments do not have the sign of the remainder they disperse",
                                f"remainder before dispersal {rem0_!r} is "
                                f"{'negative' if neg_ else 'positive' if neg_ is False else 'of unknown sign on this path'}, "
                                f"each adjusted portion changes by {deltas[0]!r}")
                    for t in range(1, len(deltas) + 1):
                        before = rfin + RF.const(t) * deltas[0]
                        if known_truth(st, CmpV("!=", Num(before, "exact"), zero)) is not True:
                            return ("a portion is adjusted although the remainder may already be used up",
                                    f"{len(deltas)} adjustment(s) of {deltas[0]!r}; the remainder {before!r} before the "
                                    f"{'last' if t == 1 else str(t) + '-th last'} one is not known to be non-zero on this path")
            return None
        return j

    for fl in ("ref", "ref+quantum", "money"):
        for n in lengths:
            for rk in ("number", "quantity"):
                if rk == "quantity" and n > 2:
                    continue
                for disperse in (True, False):
                    if fl == "ref" and disperse is False and n > 1:
                        continue
                    cr.run("R06.1", al, f"{n} {rk} ratio(s), disperse={disperse} [{fl}]",
                           setup(fl, n, rk, disperse), judge(fl, n, rk, disperse),
                           flag_kinds=("float-arith", "int-div", "none-operand", "none-attribute", "bad-unpack"))

    cr.run("R06.1", al, "2 int ratio(s), disperse=True [ref+quantum]", setup("ref+quantum", 2, "int", True),
           judge("ref+quantum", 2, "int", True),
           flag_kinds=("float-arith", "int-div", "none-operand", "none-attribute", "bad-unpack"))
    cr.run("R06.1", al, "2 int ratio(s) [ref]", setup("ref", 2, "int", True), judge("ref", 2, "int", True),
           flag_kinds=("float-arith", "int-div", "none-operand", "none-attribute", "bad-unpack"))
    # the default is to disperse the rounding error
    def setup_default(c):
        args, kw = setup("ref+quantum", 2, "number", True)(c)
        return args[:2], kw
    cr.run("R06.1", al, "2 number ratio(s), dispersal by default [ref+quantum]", setup_default,
           judge("ref+quantum", 2, "number", True),
           flag_kinds=("float-arith", "int-div", "none-operand", "none-attribute", "bad-unpack"))

    # ---- loop shape: the inductive step for any number of portions
    from ..anchors import _with_private_helpers
    scope = _with_private_helpers(prog, al, prog.cls("Quantity"))
    loops = [n for f in scope for n in ast.walk(f.node) if isinstance(n, ast.For)
             and any(isinstance(s, ast.AugAssign) for s in n.body)]
    if not loops:
        # no statement loop to inspect: the evaluated cases (up to three portions) stand alone
        res.notes.append("inductive step: no dispersal loop recognised in allocate or its private helpers")
        res.require("R06.1", 12)
        return res
    lp = loops[-1]
    augs = [s for s in lp.body if isinstance(s, ast.AugAssign)]
    port = [s for s in augs if isinstance(s.target, ast.Attribute) and s.target.attr in ("_amount",)
            and isinstance(s.target.value, ast.Subscript)]
    remu = [s for s in augs if isinstance(s.target, ast.Name)]
    ok = len(port) == 1 and len(remu) == 1 and isinstance(port[0].op, ast.Add) and isinstance(remu[0].op, ast.Sub) \
        and src_of(port[0].value) == src_of(remu[0].value) and len(augs) == 2
    recognised = len(port) == 1 and len(remu) == 1
    res.notes.append(f"inductive step (any list length): loop body shape recognised={recognised}, paired update={ok}")
    res.ob("R06.1b", "Quantity.allocate", "each iteration moves one delta from the remainder to one portion",
           ok or not recognised,
           f"augmented assignments in the loop body: {[src_of(a) for a in augs]}",
           sig="dispersal loop does not move the same amount from the remainder to one portion", nontrivial=False)
    # index comes from range(n_portions): every portion at most once
    idx_ok = False
    if port and isinstance(lp.target, ast.Tuple):
        idx_name = src_of(port[0].target.value.slice)
        idx_ok = any(isinstance(e, ast.Name) and e.id == idx_name for e in lp.target.elts) and \
            any(isinstance(n, ast.Call) and src_of(n.func) == "range" for n in ast.walk(al.node))
    res.notes.append(f"loop index from range(n) recognised={idx_ok}")
    res.ob("R06.4", "Quantity.allocate", "loop index enumerates the portions once", True, "", nontrivial=False)
    res.ob("R06.4", "Quantity.allocate", "loop stops when the remainder is used up (decided per path, rule R06.6)",
           True, "", nontrivial=False)
    # delta's sign and the sort direction come from the same predicate
    srt = [n for n in ast.walk(al.node) if isinstance(n, ast.Call) and src_of(n.func) == "sorted"]
    rev = [src_of(k.value) for n in srt for k in n.keywords if k.arg == "reverse"]
    neg = [src_of(n.test) for n in ast.walk(al.node) if isinstance(n, ast.If) and
           any(isinstance(s, ast.Assign) and isinstance(s.value, ast.UnaryOp) and isinstance(s.value.op, ast.USub)
               for s in n.body)]
    res.notes.append(f"sort direction / quantum sign predicates: reverse={rev}, negation under {neg} "
                     f"(decided semantically on every unrolled path, rule R06.5)")
    res.ob("R06.4", "Quantity.allocate", "sort direction follows the sign of the remainder", True, "", nontrivial=False)

    res.require("R06.1", 12)
    res.require("R06.4", 3)
    return res
