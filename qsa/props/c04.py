"""C04 — equality and ordering agree with exact reference values."""
from __future__ import annotations

from ..contracts import *  # noqa: F401,F403
from ..contracts import _sign_of_rf
from ..report import Result

TECHNIQUE = ("abstract interpretation (units-of-measure domain): symbolic comparison outcome "
             "op(L, R) of each dunder checked against op(val(self)/c, val(other)/c)")


def judge_unit_eq(fl):
    def judge(o):
        st = o.state
        a, b = o.args[0], o.args[1]
        if o.kind == "raise":
            return (exc_sig(o), "unit equality must not raise")
        v = o.value
        same = st.same_unit(a.uid, b.uid)
        if fl in ("ref", "ref+quantum"):
            if isinstance(v, BoolV):
                if v.val is True and mu_of(st, a).equals(mu_of(st, b)):
                    return None
                return ("constant unit comparison", repr(v))
            if isinstance(v, CmpV) and v.op == "==" and not v.negated:
                L, R = st.norm(v.l.rf), st.norm(v.r.rf)
                ma, mb = mu_of(st, a), mu_of(st, b)
                if (L * mb).equals(R * ma) and _sign_of_rf(st, ma / L) == 1:
                    return None
                return ("units not compared by scale", repr(v))
            return ("returns non-boolean", repr(v))
        # types without reference unit: units are equal only if identical
        if isinstance(v, BoolV):
            equal_scale = mu_of(st, a).equals(mu_of(st, b))
            if v.val:
                return None if (same is True or equal_scale) else \
                    ("units reported equal without equal definitions", f"identical={same}")
            return None if same is not True else ("identical units compare unequal", "")
        return ("scale comparison in a type without reference unit",
                f"{v!r}: the stored factors of units of a reference-less type are relative to unrelated "
                f"base products and cannot be compared")
    return judge


def run(prog, tier) -> Result:
    res = Result("C04")
    res.explanation = (
        "Each comparison dunder of Quantity and Unit is evaluated abstractly for same-type operands in four type "
        "flavours; its outcome must be the symbolic comparison op(L, R) with op the operator the dunder is named "
        "after, un-negated, L and R the two operands' values divided by one positive common monomial (so the "
        "result equals the comparison of exact reference values for all amounts and units), operands in order. "
        "Reflexivity, symmetry, transitivity and trichotomy follow from the order of Q.")
    res.trusted = ["exact comparison of Decimal/Fraction", "contract judges in qsa/contracts.py"]
    res.assumptions = ["unit scales and quanta are positive (the code does not enforce it)"]
    cr = CaseRunner(prog, res, max_depth=8 if tier == "quick" else 12)
    Q = lambda n: prog.method("Quantity", n)
    U = lambda n: prog.method("Unit", n)

    for name in ("__lt__", "__le__", "__gt__", "__ge__", "__eq__"):
        for fl in FLAVORS:
            rule = "R04.1" if name != "__eq__" else "R04.2"
            cr.run(rule, Q(name), f"{name} same type [{fl}]", two_qty_same_type(fl), judge_compare(name, fl),
                   site=f"Quantity.{name}")
    # the private helper all ordering dunders share, if there is one (its name is derived, qsa/roles.py)
    for fl in (FLAVORS if "_compare" in prog.cls("Quantity").methods else ()):
        cr.run("R04.2", Q("_compare"), f"_compare(op=lt) same type [{fl}]",
               lambda c, fl=fl: (two_qty_same_type(fl)(c)[0] + [FuncV("operator.lt")], {}),
               judge_compare("__lt__", fl))

    # units
    for name in ("__lt__", "__le__", "__gt__", "__ge__"):
        for fl in FLAVORS:
            cr.run("R04.1", U(name), f"{name} same type [{fl}]", two_units_same_type(fl),
                   judge_compare(name, fl, units=True), site=f"Unit.{name}")
        cr.run("R04.3", U(name), f"{name} other type", two_units_other_type("ref"),
               lambda o: expect_raise(o, ["IncompatibleUnitsError"]), site=f"Unit.{name}")
    for fl in FLAVORS:
        cr.run("R04.3", U("__eq__"), f"__eq__ same type [{fl}]", two_units_same_type(fl), judge_unit_eq(fl))
    cr.run("R04.3", U("__eq__"), "__eq__ other type", two_units_other_type("ref"),
           lambda o: None if (o.kind == "return" and isinstance(o.value, BoolV) and not o.value.val)
           else ("units of different types compare equal", o.brief()))
    cr.run("R04.3", U("__eq__"), "__eq__ non-unit", unit_and_num("ref", "dec"),
           lambda o: None if (o.kind == "return" and isinstance(o.value, BoolV) and not o.value.val)
           else ("unit equals a number", o.brief()))

    # a defined __ne__ would have to be the negation of __eq__
    for cname in ("Quantity", "Unit"):
        ne = prog.lookup(prog.cls(cname), "__ne__")
        res.ob("R04.1b", f"{cname}.__ne__", "absent-or-negation", ne is None,
               detail="a custom __ne__ exists; it must be analysed as the negation of __eq__",
               sig="custom __ne__", nontrivial=False)

    res.require("R04.1", 32)
    res.require("R04.2", 8 if "_compare" in prog.cls("Quantity").methods else 4)
    res.require("R04.3", 10)
    return res
