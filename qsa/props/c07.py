"""C07 — term algebra is an exact commutative group with a canonical form."""
from __future__ import annotations

import ast
import itertools
from fractions import Fraction

from ..contracts import *  # noqa: F401,F403
from ..effects import CallGraph, check_ownership, inventory
from ..engine_a import run_body
from ..loader import AnalysisError, src_of
from ..models import HashV
from ..report import Result, Violation
from .c19 import struct_equal

TECHNIQUE = ("abstract interpretation of the Term class itself on small symbolic terms (convertible, unconvertible "
             "and foreign units, numeric elements of every rational kind, all item orders and sort orders): "
             "denotation identities, normal-form shape, equality/hash agreement, group operations, float-freedom")

FLAGS = ("float-arith", "int-div", "int-neg-pow", "float-call", "math-call", "none-operand", "none-attribute")


class World:
    """Symbolic elements: A (reference unit of T), B = k*A (defined unit of T), C, D (unconvertible base units of a
    type N without reference unit), V (reference unit of another type T2)."""

    def __init__(self, prog, interp, c: Ctx):
        self.prog, self.I, self.c = prog, interp, c
        st = c.st
        interp.models.term_objects = True
        c.new_type("T", **FLAVORS["ref"])
        c.new_type("T2", **FLAVORS["ref"])
        c.new_type("N", **FLAVORS["noref"])
        for a, b in itertools.combinations(("T", "T2", "N"), 2):
            st.distinct_types(a, b)
        self.A = UnitV(st.ref_unit("T"))
        st.U(self.A.uid).kind = "ref"
        self.V = UnitV(st.ref_unit("T2"))
        st.U(self.V.uid).kind = "ref"
        self.k = RF.const(1000)      # B = 1000 * A (a concrete factor keeps numeric guards decidable)
        self.B = UnitV(st.new_unit("T", uid="B", mu=self.k * st.norm(st.U(self.A.uid).mu), kind="defined"))
        self.C = c.unit("C", "N", kind="base")
        self.D = c.unit("D", "N", kind="base")
        st.distinct_units("C", "D")
        st.distinct_units(self.A.uid, "B")
        for u in (self.A, self.V, self.C, self.D):
            st.unit_defs[u.uid] = "base"
        self.TERM = TypeV("Term", prog.cls("Term"))
        # B's definition: k * A  (k a Decimal)
        st.unit_defs["B"] = self.term([(Num(self.k, "dec"), 1), (self.A, 1)])

    def num(self, v, kind):
        return Num(RF.const(v), kind)

    def term(self, items, **kw):
        tv = TupleV([TupleV([e, Num(RF.const(x), "int")]) for e, x in items])
        return self.I.models.call(self.TERM, [tv], kw, None)

    def call(self, t, name, *args):
        return self.I.call_function(self.prog.method("Term", name), [t] + list(args), {})

    def prop(self, t, name):
        return self.I.models.get_attr(t, name, None)


def items_of(t):
    return [(it.items[0], it.items[1]) for it in t.fields["_items"].items]


def mag(st, t) -> RF:
    r = RF.const(1)
    for e, x in items_of(t):
        ex = int(st.norm(x.rf).const_value())
        base = st.norm(st.U(e.uid).mu) if isinstance(e, UnitV) else st.norm(e.rf)
        r = r * base.pow_int(ex)
    return r


def mag_items(st, w: World, items) -> RF:
    r = RF.const(1)
    for e, x in items:
        base = st.norm(st.U(e.uid).mu) if isinstance(e, UnitV) else st.norm(e.rf)
        r = r * base.pow_int(x)
    return r


def normal_form_defects(st, w: World, n):
    """Shape of a normal form: at most one numeric factor (first, exponent 1, != 1), then base elements only,
    each once, non-zero exponents, exact numbers only."""
    its = items_of(n)
    seen = []
    for i, (e, x) in enumerate(its):
        ex = st.norm(x.rf)
        if not ex.is_const() or ex.const_value() == 0:
            return f"item {i} has exponent {ex!r}"
        if isinstance(e, Num):
            if i != 0:
                return f"numeric factor at position {i}"
            if ex.const_value() != 1:
                return f"numeric factor with exponent {ex.const_value()}"
            if e.kind == "float":
                return "float numeric factor"
            if st.norm(e.rf).is_one():
                return "numeric factor 1 kept"
        elif isinstance(e, UnitV):
            if st.same_unit(e.uid, "B") is True:
                return "derived element B left unexpanded"
            for s in seen:
                if st.same_unit(s.uid, e.uid) is True:
                    return f"element {st.ufind(e.uid)} occurs twice"
                if st.unit_type(s.uid) == st.unit_type(e.uid) and st.T(st.unit_type(e.uid)).has_ref:
                    return f"convertible elements {st.ufind(s.uid)} and {st.ufind(e.uid)} not merged"
            seen.append(e)
        else:
            return f"unexpected element {e!r}"
    return None


def result_defects(st, w, r, prog):
    """A term returned by an operation: no zero exponents, and its normal form has the normal-form shape
    and the same value (evaluated abstractly on the same path)."""
    for e, x in items_of(r):
        ex = st.norm(x.rf)
        if ex.is_const() and ex.const_value() == 0:
            return f"result carries an item with exponent 0: {r.fields['_items']!r}"
    n = w.call(r, "normalized")
    d = normal_form_defects(st, w, n)
    if d:
        return f"normal form of the result: {d}: {n.fields['_items']!r}"
    if not mag(st, n).equals(mag(st, r)):
        return f"normalising the result changes its value: {mag(st, r)!r} -> {mag(st, n)!r}"
    return None


def run_scenario(prog, res: Result, rule, site, case, body, judge, max_depth=16):
    outs = run_body(prog, body, max_depth=max_depth)
    res.paths += len(outs)
    res.functions.add(site)
    fails = []
    if not outs:
        fails.append(Violation(rule, site, case, "no feasible path", ""))
    for o in outs:
        r = flags_sig(o, FLAGS)
        if r is None:
            if o.kind == "raise":
                r = (exc_sig(o), "term operation raised")
            else:
                r = judge(o)
        if r is not None:
            fails.append(Violation(rule, site, case, r[0], f"{r[1]}", list(o.trace)))
    res.obligations += 1
    res.evaluations += max(1, len(outs))
    res.rules[rule] = res.rules.get(rule, 0) + 1
    res.nontrivial_keys.add((rule, site, case))
    if not fails:
        res.discharged += 1
    res.violations.extend(fails)
    if len(res.samples) < 10 and outs:
        res.samples.append({"scenario": case, "paths": len(outs), "example": outs[-1].brief()[:240],
                            "verdict": "ok" if not fails else fails[0].sig})


def label(items):
    def nm(e):
        if isinstance(e, str):
            return e
        return e
    return "·".join(f"{e}^{x}" for e, x in items)


E = {"A": lambda w: w.A, "B": lambda w: w.B, "C": lambda w: w.C, "D": lambda w: w.D, "V": lambda w: w.V,
     "2": lambda w: w.num(2, "int"), "3": lambda w: w.num(3, "int"),
     "1/2": lambda w: w.num(Fraction(1, 2), "frac"), "2.5": lambda w: w.num(Fraction(5, 2), "dec"),
     "8": lambda w: w.num(8, "int")}

def build(w, spec):
    return [(E[e](w), x) for e, x in spec]



def equality_scenarios(prog, res, rule):
    """Terms denoting the same value compare and hash equal; different values compare unequal."""
    # ---- S3 equality and hash
    equal_pairs = [
        ([("A", 1), ("V", 1)], [("V", 1), ("A", 1)]),
        ([("A", 1), ("A", 1)], [("A", 2)]),
        ([("B", 1)], [("2.5", 0), ("B", 1)]),
        ([("2", 3)], [("8", 1)]),
        ([("2", 1), ("A", 1)], [("A", 1), ("2", 1)]),
        ([("C", 1), ("D", -1)], [("D", -1), ("C", 1)]),
        ([("C", 1), ("D", 1)], [("D", 1), ("C", 1)]),
        ([("A", 1), ("A", -1)], []),
        ([("2", 1), ("1/2", 1), ("V", 1)], [("V", 1)]),
        ([("B", 1), ("A", -1), ("V", 1)], [("V", 1), ("B", 1), ("A", -1)]),
    ]
    unequal_pairs = [
        ([("A", 1)], [("A", 2)]), ([("2", 1), ("A", 1)], [("3", 1), ("A", 1)]), ([("C", 1)], [("D", 1)]),
        ([("A", 1)], [("V", 1)]), ([("A", 1), ("V", -1)], [("A", -1), ("V", 1)]), ([("2", 1)], [("2", -1)]),
        # one normal form is a proper prefix of the other
        ([("A", 1)], [("A", 1), ("V", 1)]), ([("2", 1)], [("2", 1), ("A", 1)]), ([], [("A", 1)]),
        ([("C", 1)], [("C", 1), ("D", -1)]), ([("2", 1), ("A", 1)], [("2", 1), ("A", 1), ("V", -1)]),
    ]

    def eq_body(s1, s2):
        def body(I, c):
            w = World(prog, I, c)
            c.st.world = w
            t1, t2 = w.term(build(w, s1)), w.term(build(w, s2))
            m = I.models
            e12 = m.truth(m.compare(ast.Eq, t1, t2, None), None)
            e21 = m.truth(m.compare(ast.Eq, t2, t1, None), None)
            h1 = m.call_builtin("hash", [t1], {}, None)
            h2 = m.call_builtin("hash", [t2], {}, None)
            return TupleV([BoolV(e12), BoolV(e21), h1, h2, t1, t2])
        return body
    for s1, s2 in equal_pairs:
        def judge(o, s1=s1, s2=s2):
            st = o.state
            w = st.world
            e12, e21, h1, h2, t1, t2 = o.value.items
            v1, v2 = mag_items(st, w, build(w, s1)), mag_items(st, w, build(w, s2))
            if not v1.equals(v2):
                return None     # the two sides denote different values on this path (k-dependent): nothing to claim
            if not (e12.val and e21.val):
                return ("terms denoting the same value compare unequal",
                        f"{t1.fields['_items']!r} vs {t2.fields['_items']!r}; normal forms "
                        f"{t1.fields.get('_normalized', t1).fields['_items']!r} / {t2.fields.get('_normalized', t2).fields['_items']!r}")
            if not struct_equal(st, h1, h2):
                return ("equal terms hash differently", f"{h1!r} vs {h2!r}")
            return None
        run_scenario(prog, res, rule, "Term.__eq__/__hash__", f"{label(s1)} == {label(s2)}", eq_body(s1, s2), judge)
    for s1, s2 in unequal_pairs:
        def judge(o, s1=s1, s2=s2):
            e12, e21 = o.value.items[:2]
            if e12.val or e21.val:
                return ("terms denoting different values compare equal", f"{label(s1)} vs {label(s2)}")
            return None
        run_scenario(prog, res, rule, "Term.__eq__/__hash__", f"{label(s1)} != {label(s2)}", eq_body(s1, s2), judge)



def run(prog, tier) -> Result:
    res = Result("C07")
    res.explanation = (
        "The Term class is evaluated abstractly, method by method, on small terms over symbolic elements: a reference "
        "unit A and a defined unit B = k*A of one type (convertible, B expands to k*A), two unconvertible base units "
        "C, D of a type without reference unit, a unit V of another type, and numeric elements of kind int, Decimal "
        "and Fraction, with exponents in {-2..3}; all item orders are enumerated and unknown sort orders fork. "
        "Checked as identities of rational functions: normalisation preserves the denoted value and yields the normal "
        "form shape (one numeric factor first, base elements once, non-zero exponents), is idempotent; terms denoting "
        "the same value compare equal and hash equal regardless of order, splitting of exponents, unit expansion and "
        "numeric folding, terms denoting different values compare unequal; product, quotient, reciprocal, integer "
        "power and the numeric forms compute the group operation; no path performs float arithmetic or int ** "
        "negative. Memo fields and items have a single writer.")
    res.trusted = ["exact arithmetic of Decimal/Fraction; tuple equality/hash"]
    res.assumptions = ["bounded: terms of at most 3 items over 5 symbolic elements; completeness of the canonical form "
                       "for longer terms and termination of the expansion for arbitrary definition chains are NOT decided"]

    # ---- S1 normalisation: value, shape, idempotence
    norm_specs = [
        [("A", 1)], [("B", 1)], [("B", 2)], [("B", -1)], [("2", 3)], [("2", -1)], [("1/2", -2)], [("2.5", 2)],
        [("A", 1), ("B", 1)], [("B", 1), ("A", -1)], [("A", 2), ("A", -2)], [("C", 1), ("D", -1)], [("D", -1), ("C", 1)],
        [("2", 1), ("A", 1)], [("A", 1), ("2", 1)], [("2", 2), ("3", -1)], [("V", 1), ("A", 1)], [("A", 1), ("V", 1)],
        [("B", 1), ("V", -1), ("A", 1)], [("2", 1), ("B", 2), ("1/2", 1)], [("C", 1), ("D", 1), ("C", -1)],
        [("V", -1), ("B", 1), ("3", 2)],
    ]
    for spec in norm_specs:
        def body(I, c, spec=spec):
            w = World(prog, I, c)
            t = w.term(build(w, spec))
            n = w.call(t, "normalized")
            n2 = w.call(n, "normalized")
            I.world = w
            c.st.world = w
            return TupleV([t, n, n2])

        def judge(o, spec=spec):
            st = o.state
            w = st.world
            t, n, n2 = o.value.items
            want = mag_items(st, w, build(w, spec))
            got_t, got_n = mag(st, t), mag(st, n)
            if not got_t.equals(want):
                return ("construction changes the denoted value", f"items denote {want!r}, term holds {got_t!r}")
            if not got_n.equals(want):
                return ("normalisation changes the denoted value", f"{want!r} -> {got_n!r}: {n.fields['_items']!r}")
            d = normal_form_defects(st, w, n)
            if d:
                return ("result of normalized() is not in normal form", f"{d}: {n.fields['_items']!r}")
            if n2 is not n:
                return ("normalisation is not idempotent", f"{n.fields['_items']!r} -> {n2.fields['_items']!r}")
            return None
        run_scenario(prog, res, "R07.4", "Term.normalized", f"normalize {label(spec)}", body, judge)

    equality_scenarios(prog, res, "R07.2")

    # ---- S4 group operations
    op_specs = [([("A", 1), ("2", 1)], [("V", -1), ("B", 1)]), ([("C", 1)], [("D", 1)]), ([("2", 2)], [("3", -1)]),
                ([("B", 2)], [("A", -1)])]
    for s1, s2 in op_specs:
        for opn, f in (("__mul__", lambda a, b: a * b), ("__truediv__", lambda a, b: a / b)):
            def body(I, c, s1=s1, s2=s2, opn=opn):
                w = World(prog, I, c)
                c.st.world = w
                t1, t2 = w.term(build(w, s1)), w.term(build(w, s2))
                r = w.call(t1, opn, t2)
                c.st.defect = result_defects(c.st, w, r, prog) if isinstance(r, ObjV) else None
                return r

            def judge(o, s1=s1, s2=s2, f=f):
                st = o.state
                w = st.world
                want = f(mag_items(st, w, build(w, s1)), mag_items(st, w, build(w, s2)))
                r = o.value
                if not isinstance(r, ObjV):
                    return ("operation returns no term", repr(r))
                if not mag(st, r).equals(want):
                    return ("wrong product / quotient", f"denotes {mag(st, r)!r}, contract {want!r}")
                if getattr(st, "defect", None):
                    return ("result of the operation is not a well-formed term", st.defect)
                return None
            run_scenario(prog, res, "R07.4", f"Term.{opn}", f"({label(s1)}) {opn} ({label(s2)})", body, judge)
    un_specs = [[("A", 1), ("2", 1)], [("3", 1), ("A", 1)], [("B", 1), ("V", -2)], [("2", -1)], [("C", 1), ("D", -1)],
                [("3", 1)], [("2.5", 1)], [("A", 1)], [("V", 2)], [("B", -1)]]
    for spec in un_specs:
        for n in (2, -1, 0, 3):
            def body(I, c, spec=spec, n=n):
                w = World(prog, I, c)
                c.st.world = w
                r = w.call(w.term(build(w, spec)), "__pow__", Num(RF.const(n), "int"))
                c.st.defect = result_defects(c.st, w, r, prog) if isinstance(r, ObjV) else None
                return r

            def judge(o, spec=spec, n=n):
                st = o.state
                want = mag_items(st, st.world, build(st.world, spec)).pow_int(n)
                if not isinstance(o.value, ObjV) or not mag(st, o.value).equals(want):
                    return ("wrong power", f"denotes {mag(st, o.value)!r}, contract {want!r}")
                if getattr(st, "defect", None):
                    return ("result of the power is not a well-formed term", st.defect)
                return None
            run_scenario(prog, res, "R07.4", "Term.__pow__", f"({label(spec)}) ** {n}", body, judge)

        def body_r(I, c, spec=spec):
            w = World(prog, I, c)
            c.st.world = w
            r = w.call(w.term(build(w, spec)), "reciprocal")
            c.st.defect = result_defects(c.st, w, r, prog) if isinstance(r, ObjV) else None
            return r
        run_scenario(prog, res, "R07.4", "Term.reciprocal", f"1/({label(spec)})", body_r,
                     lambda o, spec=spec: (("wrong reciprocal", repr(mag(o.state, o.value)))
                                           if not mag(o.state, o.value).equals(
                         mag_items(o.state, o.state.world, build(o.state.world, spec)).inv())
                         else (("result of reciprocal() is not a well-formed term", o.state.defect)
                               if getattr(o.state, "defect", None) else None)))
        for kind, val in (("int", 3), ("dec", Fraction(5, 2)), ("frac", Fraction(1, 3))):
            for opn, f in (("__mul__", lambda m, k: m * k), ("__rmul__", lambda m, k: m * k),
                           ("__truediv__", lambda m, k: m / k), ("__rtruediv__", lambda m, k: k / m)):
                def body_n(I, c, spec=spec, opn=opn, kind=kind, val=val):
                    w = World(prog, I, c)
                    c.st.world = w
                    r = w.call(w.term(build(w, spec)), opn, Num(RF.const(val), kind))
                    c.st.defect = result_defects(c.st, w, r, prog) if isinstance(r, ObjV) else None
                    return r

                def judge_n(o, spec=spec, f=f, val=val):
                    st = o.state
                    want = f(mag_items(st, st.world, build(st.world, spec)), RF.const(val))
                    if not isinstance(o.value, ObjV) or not mag(st, o.value).equals(want):
                        return ("wrong numeric product / quotient", f"denotes {mag(st, o.value)!r}, contract {want!r}")
                    if getattr(st, "defect", None):
                        return ("result of the operation is not a well-formed term", st.defect)
                    return None
                run_scenario(prog, res, "R07.4", f"Term.{opn}", f"({label(spec)}) {opn} {kind}", body_n, judge_n)
    # num_elem / split
    for spec in ([("2", -1)], [("2", 3), ("A", 1)], [("A", 1)], [("1/2", 2), ("V", 1)], []):
        def body_s(I, c, spec=spec):
            w = World(prog, I, c)
            c.st.world = w
            t = w.term(build(w, spec))
            ne = w.prop(t, "num_elem")
            sp = w.call(t, "split")
            return TupleV([t, ne, sp])

        def judge_s(o, spec=spec):
            st = o.state
            t, ne, sp = o.value.items
            w = st.world
            nums = [(e, x) for e, x in build(w, spec) if isinstance(e, Num)]
            rest = [(e, x) for e, x in build(w, spec) if not isinstance(e, Num)]
            want = mag_items(st, w, nums)
            if nums:
                if not isinstance(ne, Num) or not st.norm(ne.rf).equals(want) or ne.kind == "float":
                    return ("num_elem is not the exact numeric factor", f"{ne!r}, contract {want!r}")
            elif not isinstance(ne, NoneV):
                return ("num_elem without numeric factor", repr(ne))
            f, r = sp.items
            if not isinstance(f, Num) or not (st.norm(f.rf) * mag(st, r)).equals(mag_items(st, w, build(w, spec))):
                return ("split() does not partition the value", f"{f!r} x {mag(st, r)!r}")
            if any(isinstance(e, Num) for e, _ in items_of(r)):
                return ("numeric element left in the non-numeric part", repr(r.fields["_items"]))
            return None
        run_scenario(prog, res, "R07.4", "Term.num_elem/split", f"num_elem/split of {label(spec) or 'empty'}", body_s, judge_s)

    # ---- structural rules
    writes = inventory(prog, ["quantity.term"])
    cg = CallGraph(prog)
    check_ownership(res, "R07.5", writes, "_items", {"Term.__init__": {"="}}, cg)
    check_ownership(res, "R07.5", writes, "_normalized", {"Term.__init__": {"="}, "Term.normalized": {"="}}, cg)
    check_ownership(res, "R07.5", writes, "_hash", {"Term.__hash__": {"="}}, cg)
    tm = prog.modules["quantity.term"]
    floaty = [src_of(n)[:60] for n in ast.walk(tm.tree)
              if (isinstance(n, ast.Constant) and isinstance(n.value, float)) or
              (isinstance(n, ast.Call) and src_of(n.func) in ("float", "math.pow", "pow")) or
              (isinstance(n, ast.Name) and n.id == "math")]
    # informational only: a float reaching a term's arithmetic is reported by the evaluated rules (float flags of
    # Engine A on every operation path); a float elsewhere in the module (a repr, a message) is harmless
    res.notes.append(f"float primitives spelled in term.py: {floaty or 'none'}")

    res.require("R07.4", 40)
    res.require("R07.2", 16)
    res.require("R07.5", 4)
    return res
