"""C15 — directory coherence: unique symbols, own type, definitions mean what they say."""
from __future__ import annotations

import ast

from ..contracts import *  # noqa: F401,F403
from ..declcases import base_types, cls_definition, create_class, persistent_writes
from ..effects import CallGraph, inventory
from ..engine_a import run_body
from ..loader import AnalysisError, src_of
from ..report import Result, Violation

TECHNIQUE = ("abstract interpretation of unit/type creation with an effect log (registration must-pass-through, "
             "insert-if-absent, validation tables, scale = definition), class creation evaluated through the metaclass protocol")


def run_entry(prog, res, rule, site, case, body, judge, max_depth=12, min_paths=1):
    outs = run_body(prog, body, max_depth=max_depth)
    res.paths += len(outs)
    res.functions.add(site)
    fails = []
    if len(outs) < min_paths:
        fails.append(Violation(rule, site, case, "no feasible path", f"{len(outs)} paths"))
    for o in outs:
        r = judge(o)
        if r is not None:
            fails.append(Violation(rule, site, case, r[0], f"{r[1]}; outcome: {o.brief()}", list(o.trace)))
    res.obligations += 1
    res.evaluations += max(1, len(outs))
    res.rules[rule] = res.rules.get(rule, 0) + 1
    res.nontrivial_keys.add((rule, site, case))
    if not fails:
        res.discharged += 1
    res.violations.extend(fails)
    if len(res.samples) < 10 and outs:
        res.samples.append({"entry": site, "case": case, "paths": len(outs), "example": outs[-1].brief()[:200],
                            "verdict": "ok" if not fails else fails[0].sig})
    return outs


def writes_of(st, name_prefix):
    return [w for w in persistent_writes(st) if w[1].startswith(name_prefix)]


def judge_unit_registered(o, cls_tid="T1", symbol_tag="symbol", want_def_mag=None, want_def_none=False):
    """R15.1: a successful unit creation registers one object coherently in all directories."""
    st = o.state
    if o.kind == "raise":
        if persistent_writes(st):
            return (f"{exc_sig(o)} after a persistent write", "")
        return None
    u = o.value
    if not isinstance(u, ObjV) or u.ci is None or not any(c.name == "Unit" for c in [u.ci] + st_mro(o, u.ci)):
        return ("unit creation does not return a unit", repr(u))
    sym = writes_of(st, "_SYMBOL_UNIT_MAP")
    per = writes_of(st, "_unit_map(")
    term = [w for w in persistent_writes(st) if w[0] == "mapcall" and w[1] == "_TERM_UNIT_MAP"]
    if len(sym) != 1 or sym[0][3] is not u:
        return ("unit not stored exactly once in the symbol directory", repr(sym))
    # insert-if-absent: on this path the same key was looked up in the *symbol directory* and found absent
    probed = False
    for e in st.effects:
        if e[0] == "mapread" and isinstance(e[1], GlobalMapV) and e[1].name == sym[0][1] and e[2] is sym[0][2]:
            probed = True
        if e[0] == "contains" and isinstance(e[1], GlobalMapV) and e[1].name == sym[0][1] and e[2] is sym[0][2] \
                and e[3] is False:
            probed = True
    if not probed:
        return ("symbol stored in the global directory without checking that it is free there",
                "no failed lookup / negative membership test of this key in the symbol directory on this path")
    if len(per) != 1 or per[0][3] is not u or per[0][1] != f"_unit_map({st.tfind(cls_tid)})":
        return ("unit not stored in the map of exactly its own type", repr(per))
    if sym[0][2] is not per[0][2]:
        return ("symbol directory and per-type map use different keys", f"{sym[0][2]!r} vs {per[0][2]!r}")
    if len(term) != 1 or term[0][3][0] is not u:
        return ("unit not registered by its definition", repr(term))
    f = u.fields
    qc = f.get("_qty_cls")
    if not isinstance(qc, ClsV) or st.same_type(qc.tid, cls_tid) is not True:
        return ("unit's type is not the declaring type", repr(qc))
    if f.get("_symbol") is not sym[0][2]:
        return ("unit's symbol differs from its directory key", repr(f.get("_symbol")))
    d = f.get("_definition")
    if want_def_none:
        if not isinstance(d, NoneV) or not isinstance(f.get("_equiv"), NoneV):
            return ("undefined unit carries a definition or scale", f"{d!r}, {f.get('_equiv')!r}")
    if want_def_mag is not None:
        if not isinstance(d, TermV) or not st.norm(d.mag).equals(st.norm(want_def_mag(o))):
            return ("stored definition does not denote the declared value",
                    f"definition {d!r}, declared value {st.norm(want_def_mag(o))!r}")
    return None


def st_mro(o, ci):
    return o.ctx.m.prog.mro(ci)


def run(prog, tier) -> Result:
    res = Result("C15")
    res.explanation = (
        "Unit and type creation are evaluated abstractly with an effect log. R15.1: every successful creation "
        "stores the identical unit object under one symbol key in the global symbol directory and in the map of "
        "exactly the declaring type, registers it by its definition and sets its type; R15.2: the symbol directory "
        "is insert-if-absent, duplicate / empty / non-str symbols are rejected without a write; R15.3: Unit(symbol) "
        "and the per-type queries read these maps; R15.4: the factory dispatches to the unit's type; R15.5: the "
        "definition handed to unit creation denotes exactly the declared value (quantity: amount x unit; term; "
        "product of the given base-type units with the type definition's exponents) and definitions of another type "
        "or dimension are rejected; R15.7: class creation is evaluated through the metaclass protocol: the reference "
        "unit of a derived type is defined as the product of the base types' reference units with scale 1, the new "
        "type's own unit map lists exactly its reference unit and no other type's map is written (so no map is "
        "mutated before it exists); R15.8: one type per dimension.")
    res.trusted = ["CPython metaclass protocol (__new__ then __init__)", "C01 rule R01.3 (scale from the normalised definition)"]
    res.assumptions = ["NOT decided: that the registry's term equality identifies 'another dimension' for every catalogue (C07)"]

    from ..anchors import unit_creator
    mk = unit_creator(prog)
    from ..anchors import unit_creator_args
    MKARGS = unit_creator_args(prog)
    nu = prog.method("QuantityMeta", "new_unit")
    du = prog.method("QuantityMeta", "derive_unit_from")

    # ---- R15.1 / R15.2 _make_unit
    def mk_body(defn):
        def body(I, c):
            base_types(c)
            d = NONE if defn == "none" else TermV(RF.atom(("defmag",)), {"T1": (1, 0)})
            sym = StrV(None, "symbol")
            a_, k_ = MKARGS(c.cls("T1"), sym, StrV(None, "name"), d)
            return I.call_function(mk, a_, k_)
        return body
    run_entry(prog, res, "R15.1", "QuantityMeta._make_unit", "definition term", mk_body("term"),
              lambda o: judge_unit_registered(o, want_def_mag=lambda o: RF.atom(("defmag",))), min_paths=3)
    run_entry(prog, res, "R15.1", "QuantityMeta._make_unit", "no definition", mk_body("none"),
              lambda o: judge_unit_registered(o, want_def_none=True), min_paths=3)

    def judge_dup(o):
        found = any("_SYMBOL_UNIT_MAP[" in t and t.endswith("=found") for t in o.trace)
        empty = any(t.startswith("str-nonempty") and t.endswith("=empty") for t in o.trace)
        if found or empty:
            if o.kind != "raise" or o.exc.name not in ("ValueError", "AssertionError"):
                return ("duplicate or empty symbol accepted", o.brief())
            if persistent_writes(o.state):
                return ("rejected after a write", "")
        return None
    run_entry(prog, res, "R15.2", "QuantityMeta._make_unit", "duplicate / empty symbol", mk_body("term"), judge_dup)

    # ---- R15.5 new_unit
    def nu_body(kind):
        def body(I, c):
            base_types(c)
            sym = StrV(None, "symbol")
            sym.nonempty = True
            if kind == "quantity same type":
                d = c.qty("d", c.unit("ud", "T1"))
            elif kind == "quantity other type":
                d = c.qty("d", c.unit("ud", "T2"))
            elif kind == "term same type":
                u1 = c.unit("u1", "T1")
                d = TermV(RF.atom(("k", "f")) * mu_of(c.st, u1), {"T1": (1, 0)})
            elif kind == "term other dimension":
                u1, u2 = c.unit("u1", "T1"), c.unit("u2", "T2")
                d = TermV(mu_of(c.st, u1) * mu_of(c.st, u2), {"T1": (1, 0), "T2": (1, 0)})
            elif kind == "none":
                d = NONE
            elif kind == "number":
                d = c.num("k", "dec")
            if kind == "symbol not str":
                sym, d = c.num("k", "int"), NONE
            if kind == "symbol empty":
                sym, d = StrV(""), NONE
            if kind.startswith("symbol ") and kind.endswith(" with a definition"):
                # an invalid symbol stays invalid whatever the definition is
                u1 = c.unit("u1", "T1")
                d = TermV(RF.atom(("k", "f")) * mu_of(c.st, u1), {"T1": (1, 0)}) if "term" in kind else c.qty("d", u1)
                sym = StrV("") if "empty" in kind else (Num(RF.const(0), "int") if "zero" in kind else NONE)
            return I.call_function(nu, [c.cls("T1"), sym, StrV(None, "name"), d], {})
        return body

    def reject(names):
        def judge(o):
            if o.kind != "raise":
                return ("invalid declaration accepted", o.brief())
            if o.exc.name not in names:
                return (exc_sig(o), f"contract: {names}")
            if persistent_writes(o.state):
                return ("rejected after a write", "")
            return None
        return judge
    run_entry(prog, res, "R15.5", "QuantityMeta.new_unit", "multiple of a unit of the type", nu_body("quantity same type"),
              lambda o: judge_unit_registered(
                  o, want_def_mag=lambda o: RF.atom(("a", "d")) * RF.atom(("mu", "ud"))), min_paths=2)
    run_entry(prog, res, "R15.5", "QuantityMeta.new_unit", "quantity of another type", nu_body("quantity other type"),
              reject(["TypeError"]))

    def judge_term(o):
        st = o.state
        found_other = any(t.startswith("type(") and t.endswith("=different") for t in o.trace)
        if o.kind == "return":
            if found_other:
                return ("term resolving to a unit of another type accepted", "")
            return judge_unit_registered(o, want_def_mag=lambda o: RF.atom(("k", "f")) * RF.atom(("mu", "u1")))
        return None if o.exc.name in ("ValueError", "AssertionError") and not persistent_writes(st) else \
            (exc_sig(o), "contract: ValueError without write")
    run_entry(prog, res, "R15.5", "QuantityMeta.new_unit", "term of the type", nu_body("term same type"), judge_term,
              min_paths=3)
    run_entry(prog, res, "R15.5", "QuantityMeta.new_unit", "term of another dimension", nu_body("term other dimension"),
              reject(["ValueError"]))
    run_entry(prog, res, "R15.5", "QuantityMeta.new_unit", "no definition", nu_body("none"),
              lambda o: judge_unit_registered(o, want_def_none=True))
    run_entry(prog, res, "R15.5", "QuantityMeta.new_unit", "definition is a number", nu_body("number"), reject(["TypeError"]))
    run_entry(prog, res, "R15.5", "QuantityMeta.new_unit", "symbol not str", nu_body("symbol not str"), reject(["TypeError"]))
    run_entry(prog, res, "R15.5", "QuantityMeta.new_unit", "symbol empty", nu_body("symbol empty"), reject(["ValueError"]))
    for k_, exc_ in (("symbol empty, term with a definition", ["ValueError"]), ("symbol empty, quantity with a definition", ["ValueError"]),
                     ("symbol zero, term with a definition", ["TypeError"])):
        run_entry(prog, res, "R15.5", "QuantityMeta.new_unit", k_, nu_body(k_), reject(exc_))

    # ---- R15.5 derive_unit_from
    def du_body(kind):
        def body(I, c):
            base_types(c)
            c.new_type("D", has_ref=True, has_quantum=False, money=False)
            c.st.type_defs["D"] = cls_definition(c)
            u1, u2 = c.unit("u1", "T1"), c.unit("u2", "T2")
            args = {"matching": [u1, u2], "swapped": [u2, u1], "arity": [u1], "non-unit": [u1, c.num("k", "int")],
                    "symbol empty": [u1, u2], "symbol not str": [u1, u2], "matching-nosym": [u1, u2]}[kind]
            kw = {"symbol": StrV(None, "symbol")} if kind != "matching-nosym" else {}
            if kind == "symbol empty":
                kw = {"symbol": StrV("")}
            if kind == "symbol not str":
                kw = {"symbol": c.num("k", "int")}
            return I.call_function(du, [c.cls("D")] + args, kw)
        return body
    run_entry(prog, res, "R15.5", "QuantityMeta.derive_unit_from", "matching base units", du_body("matching"),
              lambda o: judge_unit_registered(o, cls_tid="D", want_def_mag=lambda o: RF.atom(("mu", "u1")) / RF.atom(("mu", "u2"))),
              min_paths=2)
    run_entry(prog, res, "R15.5", "QuantityMeta.derive_unit_from", "base units in the wrong order", du_body("swapped"),
              reject(["ValueError"]))
    run_entry(prog, res, "R15.5", "QuantityMeta.derive_unit_from", "wrong number of base units", du_body("arity"),
              reject(["ValueError"]))
    run_entry(prog, res, "R15.5", "QuantityMeta.derive_unit_from", "non-unit argument", du_body("non-unit"),
              reject(["TypeError"]))
    run_entry(prog, res, "R15.5", "QuantityMeta.derive_unit_from", "symbol empty", du_body("symbol empty"),
              reject(["ValueError"]))
    run_entry(prog, res, "R15.5", "QuantityMeta.derive_unit_from", "symbol not str", du_body("symbol not str"),
              reject(["TypeError"]))
    outs_ns = run_entry(prog, res, "R15.5", "QuantityMeta.derive_unit_from", "matching base units, generated symbol",
                        du_body("matching-nosym"),
                        lambda o: None if o.kind == "raise" and o.exc.name in ("ValueError",) and not persistent_writes(o.state)
                        else judge_unit_registered(o, cls_tid="D", symbol_tag=None,
                                                   want_def_mag=lambda o: RF.atom(("mu", "u1")) / RF.atom(("mu", "u2"))))
    res.ob("R15.5", "QuantityMeta.derive_unit_from", "a unit can be derived without giving a symbol",
           any(o.kind == "return" for o in outs_ns), f"{[o.brief()[:60] for o in outs_ns][:4]}",
           sig="derive_unit_from without symbol never succeeds")

    def du_base(I, c):
        base_types(c)
        return I.call_function(du, [c.cls("T1"), c.unit("u1", "T1")], {})
    run_entry(prog, res, "R15.5", "QuantityMeta.derive_unit_from", "called on a base type", du_base, reject(["TypeError"]))

    # ---- R15.3 lookups read the directories
    un = prog.method("Unit", "__new__")

    def un_body(I, c):
        return I.call_function(un, [TypeV("Unit", prog.cls("Unit")), StrV(None, "symbol")], {})

    def judge_un(o):
        if o.kind == "raise":
            return None if o.exc.name == "ValueError" else (exc_sig(o), "contract: ValueError for unknown symbols")
        v = o.value
        if not isinstance(v, UnitV) or getattr(v, "from_symbol", None) is None:
            return ("Unit(symbol) does not return the directory entry", repr(v))
        return None
    run_entry(prog, res, "R15.3", "Unit.__new__", "lookup by symbol", un_body, judge_un, min_paths=2)
    # the per-type queries, evaluated on a type created through the metaclass protocol that then declares one more
    # unit: units(), len(), `symbol in cls`, iter(), get_unit_by_symbol() answer from exactly that type's units
    from ..declcases import create_class as _create_class
    nu_ = prog.method("QuantityMeta", "new_unit")

    def q_body(I, c):
        base_types(c)
        try:
            cls = _create_class(prog, I, c, derived=False, ref_symbol=True, ref_name=True)
        except AbsRaise:
            raise Infeasible        # (rejected class declarations are R15.7's subject)
        tid = c.st.tfind(cls.tid)
        ru = c.st.cls_fields.get((tid, "_ref_unit"))
        m = I.models
        try:
            ref_sym = m.get_attr(ru, "symbol", None)
            nu = I.call_function(nu_, [cls, StrV("xx"), StrV("the new unit")], {})
        except AbsRaise:
            raise Infeasible        # declarations rejected on this path (symbol taken, ...): nothing to query
        QM = lambda n: prog.method("QuantityMeta", n)
        out = {"ru": ru, "nu": nu}
        out["units"] = I.call_function(QM("units"), [cls], {})
        out["len"] = I.call_function(QM("__len__"), [cls], {})
        out["has_new"] = m.truth(I.call_function(QM("__contains__"), [cls, StrV("xx")], {}), None)
        out["has_ref"] = m.truth(I.call_function(QM("__contains__"), [cls, ref_sym], {}), None)
        out["has_other"] = m.truth(I.call_function(QM("__contains__"), [cls, StrV("zz")], {}), None)
        out["iter"] = m.iterate(I.call_function(QM("__iter__"), [cls], {}), None)
        out["get_new"] = I.call_function(QM("get_unit_by_symbol"), [cls, StrV("xx")], {})
        out["get_ref"] = I.call_function(QM("get_unit_by_symbol"), [cls, ref_sym], {})
        try:
            out["get_other"] = I.call_function(QM("get_unit_by_symbol"), [cls, StrV("zz")], {})
        except AbsRaise as ar:
            out["get_other"] = ar.exc.name
        c.st.q15 = out
        c.st.q15_refsym = ref_sym
        return NONE

    def q_judge(o):
        if o.kind == "raise":
            return (exc_sig(o), "a query on the type's units raises")
        r = o.state.q15
        ru, nu = r["ru"], r["nu"]
        us = r["units"]
        items = getattr(us, "items", None)
        if items is None or len(items) != 2 or not ((items[0] is ru and items[1] is nu) or (items[0] is nu and items[1] is ru)):
            return ("units() does not list exactly the type's units", repr(us))
        if not (isinstance(r["len"], Num) and o.state.norm(r["len"].rf).equals(RF.const(2))):
            return ("len(type) is not the number of its units", repr(r["len"]))
        if not (r["has_new"] and r["has_ref"]) or r["has_other"]:
            return ("`symbol in type` does not answer for exactly the type's symbols",
                    f"new unit's symbol: {r['has_new']}, reference unit's symbol: {r['has_ref']}, foreign symbol: {r['has_other']}")
        it = r["iter"]
        if it is None or len(it) != 2 or not any(isinstance(x, StrV) and x.const == "xx" for x in it) or \
                not any(x is o.state.q15_refsym or (isinstance(x, StrV) and x.tag == getattr(o.state.q15_refsym, "tag", None)) for x in it):
            return ("iter(type) does not yield exactly the type's symbols", repr(it))
        if r["get_new"] is not nu or r["get_ref"] is not ru:
            return ("get_unit_by_symbol does not return the unit declared under the symbol", f"{r['get_new']!r}, {r['get_ref']!r}")
        if r["get_other"] != "ValueError":
            return ("get_unit_by_symbol does not raise ValueError for a symbol of another type", repr(r["get_other"]))
        return None
    run_entry(prog, res, "R15.3", "QuantityMeta queries", "units / len / in / iter / get_unit_by_symbol on a new type with two units",
              q_body, q_judge, max_depth=14)

    # ---- R15.4 factory dispatch
    new = prog.method("Quantity", "__new__")

    def f_body(kind):
        def body(I, c):
            base_types(c)
            u = c.unit("us", "T1")
            cls = {"generic": ClsV(c.m.special_type("Quantity")), "own": c.cls("T1"), "other": c.cls("T2")}[kind]
            I.models.inline_ctor = True
            return I.call_function(new, [cls, c.num("x", "dec"), u], {})
        return body
    run_entry(prog, res, "R15.4", "Quantity.__new__", "generic factory", f_body("generic"),
              lambda o: None if (o.kind == "return" and isinstance(o.value, QtyV) and o.state.same_type(o.value.tid, "T1") is True)
              else ("generic factory does not yield the unit's type", o.brief()))
    run_entry(prog, res, "R15.4", "Quantity.__new__", "own type", f_body("own"),
              lambda o: None if (o.kind == "return" and isinstance(o.value, QtyV) and o.state.same_type(o.value.tid, "T1") is True)
              else ("own type rejected", o.brief()))
    run_entry(prog, res, "R15.4", "Quantity.__new__", "unit of another type", f_body("other"),
              lambda o: expect_raise(o, ["QuantityError"]))

    # string factory: an amount-and-symbol string yields an instance of the symbol's unit's type
    from .c18 import string_cases
    string_cases(prog, CaseRunner(prog, res, max_depth=12), rule="R15.4")

    # ---- R15.7 / class creation coherence
    def cls_body(derived, ref):
        def body(I, c):
            base_types(c)
            return create_class(prog, I, c, derived=derived, ref_symbol=ref, ref_name=ref)
        return body

    def judge_cls(derived, ref):
        def judge(o):
            st = o.state
            if o.kind == "raise":
                return None if not persistent_writes(st) else (f"{exc_sig(o)} after a persistent write", "")
            cls = o.value
            if not isinstance(cls, ClsV):
                return ("class creation returns no class", repr(cls))
            tid = st.tfind(cls.tid)
            regs = [w for w in persistent_writes(st) if w[0] == "mapcall" and w[1].endswith("_registry")]
            if len(regs) != 1 or regs[0][3][0] is not cls and not (isinstance(regs[0][3][0], ClsV) and st.same_type(regs[0][3][0].tid, tid)):
                return ("type not registered exactly once", repr(regs))
            ru = st.cls_fields.get((tid, "_ref_unit"))
            um = st.cls_fields.get((tid, "_unit_map"))
            has_ref_unit = isinstance(ru, ObjV)
            expects_ref = ref or derived    # derived over types with reference units: symbol synthesised
            if expects_ref and not has_ref_unit:
                return ("reference unit missing", f"{ru!r}: a type declared with a reference unit symbol, or derived from "
                        f"types that have reference units, has a reference unit")
            if has_ref_unit and ref:
                sy, nm_ = ru.fields.get("_symbol"), ru.fields.get("_name")
                if not (isinstance(sy, StrV) and sy.tag == "refsym"):
                    return ("reference unit does not carry the given symbol", f"symbol {sy!r}, name {nm_!r}")
                if not (isinstance(nm_, StrV) and nm_.tag == "refname"):
                    return ("reference unit does not carry the given name", f"symbol {sy!r}, name {nm_!r}")
            if has_ref_unit:
                eq = ru.fields.get("_equiv")
                if not isinstance(eq, Num) or not st.norm(eq.rf).is_one():
                    return ("reference unit scale is not 1", repr(eq))
                qc = ru.fields.get("_qty_cls")
                if not isinstance(qc, ClsV) or st.same_type(qc.tid, tid) is not True:
                    return ("reference unit belongs to another type", repr(qc))
                d = ru.fields.get("_definition")
                if derived:
                    want = RF.atom(("rho", "T1")) / RF.atom(("rho", "T2"))
                    if not isinstance(d, TermV) or not st.norm(d.mag).equals(want):
                        return ("reference unit of the derived type is not the product of the base reference units",
                                f"{d!r}; contract {want!r}")
                # the type's own map lists exactly its reference unit
                from ..models import DictV
                if not isinstance(um, DictV) or len(um.items) != 1 or um.items[0][1] is not ru:
                    return ("new type's unit map does not list exactly its reference unit", repr(getattr(um, 'items', um)))
                per = writes_of(st, "_unit_map(")
                foreign = [w for w in per if w[1] != f"_unit_map({tid})"]
                if foreign:
                    return ("reference unit written into another type's unit map", repr(foreign))
            return None
        return judge
    for derived in (False, True):
        for ref in (False, True):
            run_entry(prog, res, "R15.7", "QuantityMeta.__new__/__init__", f"derived={derived} ref_unit_symbol={ref}",
                      cls_body(derived, ref), judge_cls(derived, ref))

    # ... and over a base type that has no reference unit there is no such product: a reference unit given by symbol
    # is a unit of its own (no definition), none is synthesised
    def cls_body_noref(ref):
        def body(I, c):
            base_types(c, second_has_ref=False)
            return create_class(prog, I, c, derived=True, ref_symbol=ref, ref_name=ref)
        return body

    def judge_cls_noref(ref):
        def judge(o):
            st = o.state
            if o.kind == "raise":
                return None if not persistent_writes(st) else (f"{exc_sig(o)} after a persistent write", "")
            cls = o.value
            if not isinstance(cls, ClsV):
                return ("class creation returns no class", repr(cls))
            ru = st.cls_fields.get((st.tfind(cls.tid), "_ref_unit"))
            if isinstance(ru, ObjV):
                d = ru.fields.get("_definition")
                if d is not None and not isinstance(d, NoneV):
                    return ("reference unit defined as a product of base reference units although a base type has none",
                            f"definition {d!r}")
                if not ref:
                    return ("reference unit synthesised although a base type has none", repr(ru))
            return None
        return judge
    for ref in (False, True):
        run_entry(prog, res, "R15.7", "QuantityMeta.__new__/__init__", f"derived over a type without reference unit, ref_unit_symbol={ref}",
                  cls_body_noref(ref), judge_cls_noref(ref))

    # (R15.6, the initialisation-order rule over the call graph, became redundant: R15.7 evaluates class creation and
    # requires the new type's own unit map to list exactly its reference unit, with no write to any other map)

    # ---- R15.8 the algebra of type definitions: `Length / Duration`, `Mass * Length ** 2 / Duration ** 2` are built
    # by the metaclass's operators; the term they give has exactly the exponents written, whatever the operand kinds
    # (class op class, class op term, term op class), and a class's own definition is itself / the given term
    def alg_body(expr):
        def body(I, c):
            I.models.term_objects = True
            for t in ("T1", "T2", "T3"):
                c.new_type(t, has_ref=True, has_quantum=False, money=False)
                c.st.type_defs[t] = "base"
            for a_, b_ in (("T1", "T2"), ("T1", "T3"), ("T2", "T3")):
                c.st.distinct_types(a_, b_)
            env = {"A": ClsV("T1"), "B": ClsV("T2"), "C": ClsV("T3")}
            m = I.models

            def ev(n):
                if isinstance(n, ast.Name):
                    return env[n.id]
                if isinstance(n, ast.Constant):
                    return Num(RF.const(n.value), "int")
                if isinstance(n, ast.UnaryOp) and isinstance(n.op, ast.USub):
                    return Num(RF.const(-n.operand.value), "int")
                if isinstance(n, ast.BinOp):
                    return m.binop(type(n.op), ev(n.left), ev(n.right), None)
                raise AnalysisError("class algebra scenario")
            return ev(ast.parse(expr, mode="eval").body)
        return body

    def alg_judge(want):
        def judge(o):
            if o.kind == "raise":
                return (exc_sig(o), "the definition term cannot be built")
            v = o.value
            if not (isinstance(v, ObjV) and v.ci is not None and v.ci.name == "Term"):
                return ("class algebra does not give a term", repr(v))
            items = v.fields.get("_items")
            got = {}
            for it in getattr(items, "items", []):
                e, x = it.items
                if not isinstance(e, ClsV) or not isinstance(x, Num) or not o.state.norm(x.rf).is_const():
                    return ("definition term holds something else than (class, integer exponent) items", repr(items))
                k = o.state.tfind(e.tid)
                got[k] = got.get(k, 0) + int(o.state.norm(x.rf).const_value())
            got = {k: e for k, e in got.items() if e}
            if got != want:
                return ("definition term does not have the exponents written",
                        f"term {items!r} denotes {got}, the expression denotes {want}")
            return None
        return judge
    ALG = [("A * B", {"T1": 1, "T2": 1}), ("A / B", {"T1": 1, "T2": -1}), ("A ** 2", {"T1": 2}), ("A ** -1", {"T1": -1}),
           ("(A / B) * C", {"T1": 1, "T2": -1, "T3": 1}), ("C * (A / B)", {"T1": 1, "T2": -1, "T3": 1}),
           ("(A * B) / C", {"T1": 1, "T2": 1, "T3": -1}), ("C / (A * B)", {"T1": -1, "T2": -1, "T3": 1}),
           ("A / B ** 2", {"T1": 1, "T2": -2}), ("A * B ** 2 / C ** 3", {"T1": 1, "T2": 2, "T3": -3}),
           ("A / A", {}), ("A * A", {"T1": 2}), ("(A / B) / (C / B)", {"T1": 1, "T3": -1})]
    for expr, want in ALG:
        run_entry(prog, res, "R15.8", "ClassWithDefinitionMeta operators", f"definition {expr}", alg_body(expr), alg_judge(want),
                  max_depth=14)

    def defn_body(derived, what):
        def body(I, c):
            I.models.term_objects = True
            for t in ("T1", "T2"):
                c.new_type(t, has_ref=True, has_quantum=False, money=False)
                c.st.type_defs[t] = "base"
            c.st.distinct_types("T1", "T2")
            c.new_type("D", has_ref=True, has_quantum=False, money=False)
            if derived == "power":
                c.st.type_defs["D"] = I.models.binop(ast.Pow, ClsV("T1"), Num(RF.const(2), "int"), None)
            elif derived:
                c.st.type_defs["D"] = I.models.binop(ast.Div, ClsV("T1"), ClsV("T2"), None)
            else:
                c.st.type_defs["D"] = "base"
            v = I.models.get_attr(ClsV("D"), what, None)
            if what in ("is_base_cls", "is_derived_cls"):
                v = I.models.call(v, [], {}, None)
                return BoolV(I.models.truth(v, None))
            return v
        return body
    def dname(derived):
        return "derived (power of one type)" if derived == "power" else ("derived" if derived else "base")
    for derived in (False, True, "power"):
        want = {"T1": 2} if derived == "power" else ({"T1": 1, "T2": -1} if derived else {"D": 1})
        for what in ("definition", "normalized_definition"):
            run_entry(prog, res, "R15.8", f"ClassWithDefinitionMeta.{what}", f"{what} of a {dname(derived)} type",
                      defn_body(derived, what), alg_judge(want), max_depth=14)
        for what, val in (("is_base_cls", not derived), ("is_derived_cls", bool(derived))):
            run_entry(prog, res, "R15.8", f"ClassWithDefinitionMeta.{what}", f"{what} of a {dname(derived)} type",
                      defn_body(derived, what),
                      lambda o, val=val: (exc_sig(o), "") if o.kind == "raise" else
                      (None if isinstance(o.value, BoolV) and o.value.val == val else ("wrong answer", repr(o.value))), max_depth=14)

    # ---- R15.9 the public accessors of a unit answer from what was declared (evaluated on the accessors' own code)
    def acc_body(name, kind):
        def body(I, c):
            base_types(c)
            u = c.unit("us", "T1", kind=kind)
            fi = prog.method("Unit", name)
            v = I.call_function(fi, [u], {})
            c.st.acc = u
            if isinstance(v, (CmpV,)):
                return BoolV(I.models.truth(v, None))
            return v
        return body

    def acc_judge(name, kind):
        def judge(o):
            st = o.state
            if o.kind == "raise":
                return (exc_sig(o), f"Unit.{name} raises")
            v, u = o.value, st.acc
            uid = st.ufind(u.uid)
            if name == "symbol":
                ok = isinstance(v, StrV) and v.tag == f"symbol({uid})"
            elif name == "name":
                # the given name if there is one (the path found it non-empty), the symbol otherwise
                has_name = any(t.startswith("str-nonempty@") and t.endswith("=nonempty") for t in o.trace)
                no_name = any(t.startswith("str-nonempty@") and t.endswith("=empty") for t in o.trace)
                want_tag = f"name({uid})" if has_name and not no_name else (f"symbol({uid})" if no_name and not has_name else None)
                ok = isinstance(v, StrV) and (v.tag == want_tag if want_tag else v.tag in (f"name({uid})", f"symbol({uid})"))
            elif name == "qty_cls":
                ok = isinstance(v, ClsV) and st.same_type(v.tid, "T1") is True
            elif name in ("is_base_unit", "is_derived_unit"):
                want = (kind == "base") == (name == "is_base_unit")
                ok = isinstance(v, BoolV) and v.val == want
            elif name == "is_ref_unit":
                isref = st.same_unit(uid, st.ref_unit("T1")) is True
                ok = isinstance(v, BoolV) and v.val == isref
            elif name in ("definition", "normalized_definition"):
                # the term that denotes the unit: its own scale, its own dimension (a base unit: itself to the power 1)
                ok = isinstance(v, TermV) and st.norm(v.mag).equals(st.norm(mu_of(st, u))) and \
                    {st.tfind(k): e for k, e in v.dims.items() if e != (0, 0)} == {st.tfind("T1"): (1, 0)}
                if ok and kind == "base" and v.items is not None:
                    ok = len(v.items) == 1 and isinstance(v.items[0][0], UnitV) and \
                        st.same_unit(v.items[0][0].uid, uid) is True and st.norm(v.items[0][1].rf).equals(RF.const(1))
            else:
                ok = True
            return None if ok else (f"Unit.{name} does not answer from the declaration", repr(v))
        return judge
    for name in ("symbol", "name", "qty_cls", "is_base_unit", "is_derived_unit", "is_ref_unit", "definition",
                 "normalized_definition"):
        for kind in ("base", "defined"):
            if prog.lookup(prog.cls("Unit"), name) is not None:
                run_entry(prog, res, "R15.9", f"Unit.{name}", f"{name} of a {kind} unit", acc_body(name, kind), acc_judge(name, kind))

    res.require("R15.1", 2)
    res.require("R15.8", 25)
    res.require("R15.5", 13)
    res.require("R15.7", 6)
    return res
