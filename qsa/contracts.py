"""Oracle side of Engine A: operand-kind cases and contract judges.

The contracts are written from the property statements (value = amount x scale,
result unit/type, error classes), not from the code.  A judge gets one explored
path (Outcome) and returns None (conforms) or (signature, detail)."""
from __future__ import annotations

from typing import Callable, List, Optional, Tuple

from .engine_a import FLAVORS, Ctx, run_case
from .interp import Outcome
from .loader import FuncInfo, Program
from .poly import RF
from .report import Result, Violation
from .values import *  # noqa: F401,F403

ERR_HIERARCHY = {
    "IncompatibleUnitsError": ["QuantityError", "ValueError"],
    "UnitConversionError": ["QuantityError", "ValueError"],
    "UndefinedResultError": ["QuantityError", "ValueError"],
    "QuantityError": ["ValueError"],
}


def exc_sig(o: Outcome) -> str:
    e = o.exc
    fn = (e.where or "?").split(":")[0]
    tag = getattr(e, "tag", None)
    return f"raise {e.name} in {fn}" + (f" [{tag}]" if tag else "")


def flags_sig(o: Outcome, kinds=None) -> Optional[Tuple[str, str]]:
    for f in o.state.flags:
        if kinds is None or f[0] in kinds:
            return (f"flag:{f[0]} in {f[1]}", f"{f[0]} at `{f[2]}` {f[3]}")
    return None


def val_of(st: State, q: QtyV) -> RF:
    return st.expand_rnd(q.amount.rf) * st.norm(st.U(q.unit.uid).mu)


def mu_of(st: State, u: UnitV) -> RF:
    return st.norm(st.U(u.uid).mu)


def judge_qty(o: Outcome, *, unit: Optional[UnitV] = None, tid: Optional[str] = None,
              value: Optional[RF] = None, amount: Optional[RF] = None,
              max_depth=1, allow_operand: Optional[QtyV] = None) -> Optional[Tuple[str, str]]:
    """Check a returned quantity: identical unit, type, exact value, rounding depth."""
    st = o.state
    v = o.value
    if not isinstance(v, QtyV):
        return ("returns non-quantity", f"got {v!r}")
    if v.amount is None or v.unit is None:
        return ("returns raw quantity", "fields unset")
    if allow_operand is not None and v is allow_operand:
        return None
    if unit is not None and st.same_unit(v.unit.uid, unit.uid) is not True:
        return ("wrong result unit", f"unit {st.ufind(v.unit.uid)} is not {st.ufind(unit.uid)}")
    if tid is not None and st.same_type(v.tid, tid) is not True:
        return ("wrong result type", f"type {st.tfind(v.tid)} is not {st.tfind(tid)}")
    if st.same_type(v.tid, st.unit_type(v.unit.uid)) is not True:
        return ("unit of another type", f"quantity type {v.tid}, unit type {st.unit_type(v.unit.uid)}")
    if value is not None:
        got = val_of(st, v)
        want = st.expand_rnd(value)
        if not got.equals(want):
            return ("wrong value", f"exact value {got!r}, contract {want!r}")
    if amount is not None:
        got = st.expand_rnd(v.amount.rf)
        want = st.expand_rnd(amount)
        if not got.equals(want):
            return ("wrong amount", f"exact amount {got!r}, contract {want!r}")
    d = st.rnd_depth(v.amount.rf)
    if d > max_depth:
        return ("rounded more than once", f"rounding depth {d}: amount {st.norm(v.amount.rf)!r} "
                f"with inner argument(s) {[repr(st.rnd_args[a[2]]) for a in st.norm(v.amount.rf).atoms() if a[0]=='rnd']}")
    # a quantized result must carry exactly one rounding of a rounding-free argument (or be a stored operand)
    t = st.T(v.tid)
    quantized = bool(t.has_quantum) or bool(t.money)
    if quantized and v.fresh and d == 0:
        if _multiple_by_invariant(o, v):
            return None     # no rounding needed: an integer combination of operands that are multiples already
        return ("not rounded to quantum", f"amount {st.norm(v.amount.rf)!r} of a quantized type built without rounding")
    if quantized and v.fresh and d == 1:
        rf = st.norm(v.amount.rf)
        rs = [a for a in rf.atoms() if a[0] == "rnd"]
        q = st.norm(RF.atom(("sf", st.ufind(v.unit.uid)))) if t.money else \
            st.norm(RF.atom(("Qm", st.tfind(v.tid)))) * st.norm(RF.atom(("rho", st.tfind(v.tid)))) / mu_of(st, v.unit)
        ok = len(rs) == 1 and rs[0][1] == 0 and rf.equals(RF.atom(rs[0]) * q)
        if not ok:
            return ("not a multiple of the unit's quantum", f"amount {rf!r}, quantum {q!r}")
    return None


def _unit_quantum(st: State, tid, unit: UnitV) -> RF:
    t = st.T(tid)
    if t.money:
        return st.norm(RF.atom(("sf", st.ufind(unit.uid))))
    return st.norm(RF.atom(("Qm", st.tfind(tid)))) * st.norm(RF.atom(("rho", st.tfind(tid)))) / mu_of(st, unit)


def _multiple_by_invariant(o: Outcome, v: QtyV) -> bool:
    """Class invariant of quantized types: every existing instance holds an integer multiple of its unit's quantum.
    Under it (operand amounts a(x) = k_x * quantum(unit of x), k_x an integer) - is the result's amount an integer
    multiple of the result unit's quantum?  (Negation, absolute value, sums of same-unit operands: yes.)"""
    st = o.state
    try:
        q_res = _unit_quantum(st, v.tid, v.unit)
        sub = {}
        for a in list(getattr(o, "args", ()) or ()):
            if isinstance(a, QtyV) and a.amount is not None and a.unit is not None:
                t = st.T(a.tid)
                if not (t.has_quantum or t.money):
                    continue
                ra = st.norm(a.amount.rf)
                atoms = list(ra.atoms())
                if len(atoms) == 1 and ra.equals(RF.atom(atoms[0])) and atoms[0][0] == "a":
                    sub[atoms[0]] = RF.atom(("ki", "inv:" + str(atoms[0][1]))) * _unit_quantum(st, a.tid, a.unit)
        if not sub:
            return False
        rf = st.norm(v.amount.rf)
        # |x| of a multiple is a multiple (quanta are positive)
        for at in list(rf.atoms()):
            if at[0] == "fn" and at[1] == "abs":
                arg = st.norm(st.rnd_args[at[2]]).subst(sub)
                if st.integer_valued(st.norm(arg / q_res)):
                    sub[at] = RF.atom(("ki", "invabs:" + str(at[2]))) * q_res
        return st.integer_valued(st.norm(rf.subst(sub) / q_res))
    except Exception:       # noqa: BLE001 - anything outside the polynomial domain: not provable
        return False


def judge_num(o: Outcome, value: RF) -> Optional[Tuple[str, str]]:
    st = o.state
    v = o.value
    if not isinstance(v, Num):
        return ("returns non-number", f"got {v!r}")
    got = st.expand_rnd(v.rf)
    want = st.expand_rnd(value)
    if not got.equals(want):
        return ("wrong value", f"value {got!r}, contract {want!r}")
    if v.kind == "float":
        return ("float result", f"{v!r}")
    if st.rnd_depth(v.rf) > 0:
        return ("rounded plain number", f"{st.norm(v.rf)!r}")
    return None


_PROG = None        # set by CaseRunner: the exception hierarchy is read from the analysed program


def exc_is_a(name: str, parents) -> bool:
    """Is exception class `name` one of `parents` or (by the program's own class statements / the builtin
    hierarchy) a subclass of one?"""
    import builtins
    seen = set()
    stack = [name]
    while stack:
        n = stack.pop()
        if n in parents:
            return True
        if n in seen:
            continue
        seen.add(n)
        ci = _PROG.classes.get(n) if _PROG is not None else None
        if ci is not None:
            stack.extend(b.split(".")[-1] for b in ci.base_names)
        else:
            b = getattr(builtins, n, None)
            if isinstance(b, type) and issubclass(b, BaseException):
                stack.extend(x.__name__ for x in b.__mro__[1:] if x is not object)
    return False


def expect_raise(o: Outcome, names, tags=None) -> Optional[Tuple[str, str]]:
    if o.kind != "raise":
        return ("returns instead of raising", f"{o.value!r}; contract: raise {names}")
    if not exc_is_a(o.exc.name, set(names)):
        return (exc_sig(o), f"contract: raise {names}")
    if tags is not None and getattr(o.exc, "tag", None) not in tags:
        return (exc_sig(o), f"contract: raise {names} with origin in {tags}")
    return None


def _unit_ids_in(st: State, v, acc: set, depth=0):
    """Parameter-level unit ids a value mentions (directly, or through the scale polynomial of a looked-up unit)."""
    if depth > 6:
        return
    if isinstance(v, UnitV):
        u = st.U(v.uid)
        acc.add(st.ufind(v.uid))
        for a in st.norm(u.mu).atoms():
            if a[0] in ("mu", "sf", "beta") and a[1] in st.uparent:
                acc.add(st.ufind(a[1]))
    elif isinstance(v, Num):
        for a in st.norm(v.rf).atoms():
            if a[0] in ("mu", "sf", "beta") and a[1] in st.uparent:
                acc.add(st.ufind(a[1]))
    elif isinstance(v, (TupleV, ListV)) and getattr(v, "items", None) is not None:
        for x in v.items:
            _unit_ids_in(st, x, acc, depth + 1)
    elif isinstance(v, QtyV):
        if v.unit is not None:
            _unit_ids_in(st, v.unit, acc, depth + 1)
    elif isinstance(v, RateV):
        _unit_ids_in(st, v.unit, acc, depth + 1)
        _unit_ids_in(st, v.term, acc, depth + 1)


def memo_key_defect(o: Outcome) -> Optional[Tuple[str, str]]:
    """A value memoised in a process-global mapping must be keyed by every input it was computed from:
    otherwise a later call with another input replays a stale result (history dependence)."""
    st = o.state
    for e in st.effects:
        if e[0] != "setitem" or not isinstance(e[1], GlobalMapV):
            continue
        g = e[1]
        if getattr(g, "registry", False) or getattr(g, "unit_values", False) or getattr(g, "owner", None) is not None:
            continue
        key, val = e[2], e[3]
        if isinstance(key, (StrV, OpaqueV)):
            continue
        kids, vids = set(), set()
        _unit_ids_in(st, key, kids)
        direct = {st.ufind(x.uid) for x in (key.items if isinstance(key, TupleV) else [key]) if isinstance(x, UnitV)}
        # a unit's symbol identifies the unit (symbols are unique in the directory, C15): keying by it is keying by the unit
        import re as _re
        for x in (key.items if isinstance(key, TupleV) else [key]):
            m_ = _re.fullmatch(r"symbol\((.+)\)", getattr(x, "tag", "") or "") if isinstance(x, StrV) else None
            if m_ and m_.group(1) in st.uparent:
                direct.add(st.ufind(m_.group(1)))
        _unit_ids_in(st, val, vids)
        params = set()
        for a in list(o.args) + list(o.kwargs.values()):
            _unit_ids_in(st, a, params)
        missing = sorted((vids & params) - direct)
        if missing:
            # a unit is keyed as well when everything of it that the value mentions (its scale, its quantum) is in
            # the key as a number: the value is then computed from the key
            def unit_atoms(v, acc, depth=0):
                if depth > 6:
                    return
                if isinstance(v, Num):
                    acc.update(a for a in st.norm(v.rf).atoms() if a[0] in ("mu", "sf", "beta") and a[1] in st.uparent)
                elif isinstance(v, UnitV):
                    acc.update(a for a in st.norm(st.U(v.uid).mu).atoms() if a[0] in ("mu", "sf", "beta") and a[1] in st.uparent)
                elif isinstance(v, QtyV):
                    for x in (v.amount, v.unit):
                        if x is not None:
                            unit_atoms(x, acc, depth + 1)
                elif isinstance(v, (TupleV, ListV)) and getattr(v, "items", None) is not None:
                    for x in v.items:
                        unit_atoms(x, acc, depth + 1)
            va, ka = set(), set()
            unit_atoms(val, va)
            for x in (key.items if isinstance(key, TupleV) else [key]):
                if isinstance(x, Num):
                    unit_atoms(x, ka)
            missing = [u for u in missing if not all(a in ka for a in va if st.ufind(a[1]) == u)]
        if missing:
            return ("memoised result is not keyed by all the inputs it depends on",
                    f"{g.name}[{key!r}] = {val!r} depends on {missing}, which the key does not contain: a later call "
                    f"with another such input would replay this entry")
        # numeric inputs (amounts, plain numbers, exponents): every symbolic input the stored value mentions must be
        # determined by the key
        def num_atoms(v, acc, depth=0):
            if depth > 6:
                return
            if isinstance(v, Num):
                for a_ in st.norm(v.rf).atoms():
                    if a_[0] in ("a", "k", "ki", "ta", "um", "parsed", "sym", "n"):
                        acc.add(a_)
            elif isinstance(v, QtyV):
                if v.amount is not None:
                    num_atoms(v.amount, acc, depth + 1)
            elif isinstance(v, RateV):
                num_atoms(v.ta, acc, depth + 1)
                num_atoms(v.um, acc, depth + 1)
            elif isinstance(v, (TupleV, ListV)) and getattr(v, "items", None) is not None:
                for x in v.items:
                    num_atoms(x, acc, depth + 1)
        vat, kat, pat = set(), set(), set()
        num_atoms(val, vat)
        num_atoms(key, kat)
        for a in list(o.args) + list(o.kwargs.values()):
            num_atoms(a, pat)
        # a quantity / rate in the key stands for all of its components
        for x in (key.items if isinstance(key, TupleV) else [key]):
            if isinstance(x, (QtyV, RateV)):
                num_atoms(x, kat)
        missing_n = sorted((vat & pat) - kat, key=repr)
        if missing_n:
            return ("memoised result is not keyed by all the inputs it depends on",
                    f"{g.name}[{key!r}] = {val!r} depends on the numeric input(s) {missing_n}, which the key does not "
                    f"contain: a later call with another value would replay this entry")
    return None


def replay_judge(judge):
    """The contract of a case, for the second of two calls: the same contract, and - a repetition in the same state
    gives an equal result and leaves the result handed out before as it was; after a change of the ambient state the
    result equals what a recomputation with nothing memoised gives in that state."""
    def wrapped(o: Outcome):
        how = getattr(o, "replay", None)
        if how is None:
            return judge(o)
        if o.first[0] == "return" and o.first_after != o.first_was:
            return ("a later call changes the result an earlier call handed out",
                    f"first result {o.first_was!r}; after the call was repeated it is {o.first_after!r}")
        if how == "same" and o.second != o.first_was:
            return ("repeating the call in the same state gives another result",
                    f"first {o.first!r}, second {o.second!r}")
        if how == "epoch" and o.second != o.cold:
            return ("a memoised result is replayed although the state it was computed in has changed",
                    f"the repeated call gives {o.second!r}; computed anew in the current state it is {o.cold!r}")
        # (the contract itself was decided on the single call of the case, for every state: a result equal to that
        # call's - or to a recomputation's - needs no second verdict, and the judges' look at how a result came
        # about would not fit a call that found it memoised)
        return None
    return wrapped


class CaseRunner:
    """Runs a function on a case and files obligations/violations in a Result."""

    def __init__(self, prog: Program, res: Result, max_depth=10):
        global _PROG
        _PROG = prog
        self.prog = prog
        self.res = res
        self.max_depth = max_depth

    # entry points whose contract is to change the state: calling them twice is another scenario, not a repetition
    MUTATORS = {"new_unit", "derive_unit_from", "register_converter", "remove_converter", "update", "register_currency",
                "register_item", "__init__", "__enter__", "__exit__", "__init_subclass__", "__set_name__"}

    def _declares(self, fi: FuncInfo, cg) -> bool:
        """Does the function (through what it calls) enter something into a directory of units / types?  Then
        calling it twice is a second declaration, not a repetition."""
        if getattr(self, "_declaring", None) is None:
            from .anchors import symbol_directories
            try:
                dirs = set(symbol_directories(self.prog))
            except AnalysisError:
                dirs = set()
            decl = set()
            for w in self._writes:
                if w.fi is None:
                    continue
                if (w.state in dirs and w.kind in ("item-store", "mutcall")) or w.op == "register_item":
                    decl.add(w.fi.qualname)
            self._declaring = decl
        # (calls resolved by name, through self / cls and module.function: a method called on some other object is
        # not taken to be every method of that name)
        from .anchors import _direct_callees
        seen, todo = [], [fi]
        while todo:
            f = todo.pop()
            if any(f is g for g in seen):
                continue
            seen.append(f)
            if f.qualname in self._declaring:
                return True
            todo.extend(_direct_callees(self.prog, f))
        return False

    def replayable(self, fi: FuncInfo) -> bool:
        """Does the function (or anything it reaches) keep something from one call to the next - a memoising
        decorator, or a store outside construction time?  Then its cases are also evaluated as repeated calls."""
        memo = getattr(self, "_replay_memo", None)
        if memo is None:
            memo = self._replay_memo = {}
        if fi.qualname in memo:
            return memo[fi.qualname]
        ok = False
        try:
            from .effects import CallGraph, inventory
            from .purity import _construction_time
            from .interp import _memoised
            if getattr(self, "_cg", None) is None:
                self._cg = CallGraph(self.prog)
                self._writes = inventory(self.prog, sorted(self.prog.modules))
            cg = self._cg
            metas = ("QuantityMeta", "MoneyMeta", "ClassWithDefinitionMeta")
            if fi.name in self.MUTATORS or (fi.cls is not None and fi.cls.name in metas and fi.name in ("__new__", "__call__")) \
                    or fi.qualname not in cg.funcs or self._declares(fi, cg):
                ok = False
            else:
                # (operators are dispatched dynamically, so "what it reaches" is the whole package: any function
                # that keeps something between calls may be behind any operation)
                if getattr(self, "_pkg_keeps", None) is None:
                    self._pkg_keeps = any(_memoised(f) for f in cg.funcs.values()) or \
                        any(w.fi is not None and not _construction_time(w.fi.qualname, cg) and
                            w.fi.name not in self.MUTATORS for w in self._writes)
                ok = self._pkg_keeps
        except AnalysisError:
            ok = False
        memo[fi.qualname] = ok
        return ok

    def fn(self, cls, name) -> FuncInfo:
        return self.prog.method(cls, name) if cls else self.prog.function("quantity", name)

    def run(self, rule: str, fi: FuncInfo, case: str, setup: Callable, judge: Callable,
            flag_kinds=("float-arith", "int-div", "int-neg-pow", "none-operand", "none-attribute",
                        "bad-unpack", "bad-amount", "float-call", "math-call", "int-truncation",
                        "missing-attribute", "unbound-name", "bad-isinstance"),
            min_paths=1, site=None, no_replay=False, **kw) -> List[Outcome]:
        # a subclass elsewhere in the package that overrides the analysed method is held to the same contract
        # (Money / Currency / MoneyMeta are reached by dynamic dispatch on the money flavour instead)
        if fi.cls is not None and not getattr(self, "_in_override", False):
            for ci in list(self.prog.classes.values()):
                if ci is fi.cls or ci.name in ("Money", "Currency", "MoneyMeta") or fi.name not in ci.methods:
                    continue
                over = ci.methods[fi.name]
                if over.node is fi.node or not self.prog.is_subclass(ci, fi.cls.name):
                    continue
                self._in_override = True
                try:
                    self.run(rule, over, f"{case} [as overridden in {ci.name}]", setup, judge, flag_kinds=flag_kinds,
                             min_paths=min_paths, site=f"{ci.name}.{fi.name}", **kw)
                finally:
                    self._in_override = False
        outs = run_case(self.prog, fi, setup, max_depth=self.max_depth, **kw)
        if not no_replay and not kw.get("replay") and not kw.get("cache_hits") and not getattr(self, "_in_replay", False) \
                and self.replayable(fi):
            self._in_replay = True
            try:
                import os as _os
                cap = 120 if _os.environ.get("QSA_TIER", "quick") == "quick" else None
                for how, label in (("same", "repeated"), ("epoch", "repeated after the ambient state changed")):
                    self.run(rule, fi, f"{case} [{label}]", setup, replay_judge(judge), flag_kinds=flag_kinds,
                             min_paths=min_paths, site=site, replay=how, path_cap=cap, **kw)
            finally:
                self._in_replay = False
        res = self.res
        site = site or fi.qualname
        res.functions.add(fi.qualname)
        res.paths += len(outs)
        fails = []
        if len(outs) < min_paths:
            fails.append(Violation(rule, site, case, "no feasible path", f"{len(outs)} paths"))
        for o in outs:
            r = None
            # programming errors no contract ever licenses are reported whatever flags a case asks for
            r = flags_sig(o, tuple(flag_kinds or ()) + ("unbound-name", "bad-isinstance", "bad-hash"))
            if o.kind == "setup-verdict":
                r = o.verdict
            if r is None:
                try:
                    r = judge(o)
                except Infeasible:
                    r = None
            if r is None:
                r = memo_key_defect(o)
            if r is not None:
                fails.append(Violation(rule, site, case, r[0], f"{r[1]}; outcome: {o.brief()}", list(o.trace)))
        res.obligations += 1
        res.evaluations += max(1, len(outs))
        res.rules[rule] = res.rules.get(rule, 0) + 1
        res.nontrivial_keys.add((rule, site, case))
        if not fails:
            res.discharged += 1
        res.violations.extend(fails)
        if len(res.samples) < 10 and outs:
            o = outs[min(len(outs) - 1, len(res.samples) % max(1, len(outs)))]
            res.samples.append({"rule": rule, "function": fi.qualname, "case": case, "paths": len(outs),
                                "one_path": "; ".join(o.trace)[:300], "outcome": o.brief()[:300],
                                "verdict": "ok" if not fails else fails[0].sig})
        return outs


# ------------------------------------------------------------------ operand builders
def two_units_same_type(flavor):
    def setup(c: Ctx):
        c.new_type("T", **FLAVORS[flavor])
        return [c.unit("us", "T"), c.unit("uo", "T")], {}
    return setup


def qty_and_unit_same_type(flavor):
    def setup(c: Ctx):
        c.new_type("T", **FLAVORS[flavor])
        return [c.qty("self", c.unit("us", "T")), c.unit("uo", "T")], {}
    return setup


def two_qty_same_type(flavor):
    def setup(c: Ctx):
        c.new_type("T", **FLAVORS[flavor])
        return [c.qty("self", c.unit("us", "T")), c.qty("other", c.unit("uo", "T"))], {}
    return setup


def two_qty_other_type(flavor, flavor2=None):
    def setup(c: Ctx):
        c.new_type("T", **FLAVORS[flavor])
        c.new_type("T2", **(FLAVORS[flavor2] if flavor2 else {}))
        c.st.distinct_types("T", "T2")
        return [c.qty("self", c.unit("us", "T")), c.qty("other", c.unit("uo", "T2"))], {}
    return setup


def qty_and_unit_other_type(flavor, flavor2=None):
    def setup(c: Ctx):
        c.new_type("T", **FLAVORS[flavor])
        c.new_type("T2", **(FLAVORS[flavor2] if flavor2 else {}))
        c.st.distinct_types("T", "T2")
        return [c.qty("self", c.unit("us", "T")), c.unit("uo", "T2")], {}
    return setup


def two_units_other_type(flavor, flavor2=None):
    def setup(c: Ctx):
        c.new_type("T", **FLAVORS[flavor])
        c.new_type("T2", **(FLAVORS[flavor2] if flavor2 else {}))
        c.st.distinct_types("T", "T2")
        return [c.unit("us", "T"), c.unit("uo", "T2")], {}
    return setup


def qty_and_num(flavor, kind):
    def setup(c: Ctx):
        c.new_type("T", **FLAVORS[flavor])
        return [c.qty("self", c.unit("us", "T")), c.num("k", kind)], {}
    return setup


def unit_and_num(flavor, kind):
    def setup(c: Ctx):
        c.new_type("T", **FLAVORS[flavor])
        return [c.unit("us", "T"), c.num("k", kind)], {}
    return setup


def qty_and_value(flavor, mk):
    def setup(c: Ctx):
        c.new_type("T", **FLAVORS[flavor])
        return [c.qty("self", c.unit("us", "T")), mk(c)], {}
    return setup


def unit_and_value(flavor, mk):
    def setup(c: Ctx):
        c.new_type("T", **FLAVORS[flavor])
        return [c.unit("us", "T"), mk(c)], {}
    return setup


A_SELF = RF.atom(("a", "self"))
A_OTHER = RF.atom(("a", "other"))
K = RF.atom(("k", "k"))


def arg_qty(o: Outcome, i) -> QtyV:
    return o.args[i]


def VAL(o: Outcome, i) -> RF:
    """val of the i-th argument (stored amount x scale) under the path's facts."""
    st = o.state
    q = o.args[i]
    if isinstance(q, QtyV):
        return st.norm(q.amount.rf) * mu_of(st, q.unit)
    if isinstance(q, UnitV):
        return mu_of(st, q)
    if isinstance(q, Num):
        return st.norm(q.rf)
    raise TypeError(q)


# ------------------------------------------------------------------ shared judges
def conv_atoms(rf: RF):
    return [a for a in rf.atoms() if a[0] == "conv"]


def converters_tried(o: Outcome) -> bool:
    """Giving up on a conversion of a *quantity* is legitimate only after the converters registered for its type
    were looked at: the path iterated (or measured) the converter list, or called a converter (which returned
    None, or the path would not have given up)."""
    for e in o.state.effects:
        if e[0] == "convcall":
            return True
        if e[0] == "loop-iter" and "converters(" in str(getattr(e[1], "tag", "")):
            return True
    return any("converters(" in t for t in o.trace)


NOT_TRIED = ("gives up converting without consulting the registered converters",
             "UnitConversionError on a path that never looked at the type's converters")


def judge_addsub(sign: int, fl: str):
    """K4: same-type sum/difference in the left operand's unit and type."""
    def judge(o: Outcome):
        st = o.state
        s, other = o.args[0], o.args[1]
        linear = fl in ("ref", "ref+quantum")
        if o.kind == "raise":
            if o.exc.name == "UnitConversionError" and not linear:
                if st.same_unit(s.unit.uid, other.unit.uid) is True:
                    return (exc_sig(o), "identical units cannot fail to convert")
                return None if converters_tried(o) else NOT_TRIED
            return (exc_sig(o), "contract: sum/difference in the left operand's unit")
        v = o.value
        if isinstance(v, QtyV) and v.amount is not None:
            ex = st.expand_rnd(v.amount.rf)
            ca = conv_atoms(ex)
            if ca:
                if linear:
                    return ("converter consulted for a linear type", repr(ex))
                want = st.norm(s.amount.rf) + RF.const(sign) * RF.atom(ca[0])
                return judge_qty(o, unit=s.unit, tid=s.tid, amount=want)
        want = VAL(o, 0) + RF.const(sign) * VAL(o, 1)
        return judge_qty(o, unit=s.unit, tid=s.tid, value=want)
    return judge


CMP_OPS = {"__lt__": "<", "__le__": "<=", "__gt__": ">", "__ge__": ">=", "__eq__": "=="}


def judge_compare(opname: str, fl: str, units=False):
    """K10: op(L, R) with L*c = val(self), R*c = val(other), c a positive monomial, in this order."""
    want_op = CMP_OPS[opname]

    def judge(o: Outcome):
        st = o.state
        s, other = o.args[0], o.args[1]
        linear = fl in ("ref", "ref+quantum")
        if o.kind == "raise":
            if opname == "__eq__":
                return (exc_sig(o), "equality must not raise")
            if o.exc.name == "UnitConversionError" and not linear:
                su = s if units else s.unit
                ou = other if units else other.unit
                if st.same_unit(su.uid, ou.uid) is True:
                    return (exc_sig(o), "identical units cannot fail to convert")
                return None if (units or converters_tried(o)) else NOT_TRIED
            return (exc_sig(o), "contract: boolean result")
        v = o.value
        if isinstance(v, BoolV):
            if opname == "__eq__" and not linear and v.val is False:
                su = s if units else s.unit
                ou = other if units else other.unit
                if st.same_unit(su.uid, ou.uid) is True:
                    return ("identical units compare unequal", "")
                return None      # not convertible => unequal
            if units and opname == "__eq__" and not linear:
                su, ou = s, other
                same = st.same_unit(su.uid, ou.uid)
                if v.val == (same is True) and same is not None:
                    return None
            exp = known_truth(st, CmpV(want_op, Num(VAL(o, 0)), Num(VAL(o, 1))))
            if exp is not None:
                return None if exp == v.val else \
                    ("comparison result contradicts the values", f"{v!r}, but {want_op}(val(self), val(other)) is {exp} on this path")
            return ("constant comparison result", f"{v!r} for symbolic operands")
        if not isinstance(v, CmpV):
            return ("returns non-boolean", repr(v))
        L, R = st.norm(v.l.rf), st.norm(v.r.rf)
        if v.negated or v.op != want_op:
            # another operator (or a negation / swapped operands) is fine when, under the facts established on
            # this path, it has the same truth table over the possible signs of val(self) - val(other)
            vs_, vo_ = VAL(o, 0), VAL(o, 1)
            swapped = False
            if (L * vo_).equals(R * vs_) and not vs_.is_zero() and _sign_of_rf(st, vs_ / L) == 1:
                pass
            elif (L * vs_).equals(R * vo_) and not vo_.is_zero() and _sign_of_rf(st, vo_ / L) == 1:
                swapped = True
            else:
                return ("wrong comparison operator", f"{v!r}; contract operator {want_op}")
            holds = lambda o_, s_: {"==": s_ == 0, "!=": s_ != 0, "<": s_ < 0, "<=": s_ <= 0, ">": s_ > 0, ">=": s_ >= 0}[o_]
            dconst = st.norm(vs_ - vo_)
            if dconst.is_const():
                allowed = [(dconst.const_value() > 0) - (dconst.const_value() < 0)]
            else:
                allowed = [s_ for s_ in (-1, 0, 1)
                           if all(known_truth_sign(st, vs_ - vo_, s_))]
            for s_ in allowed:
                got = holds(v.op, -s_ if swapped else s_)
                if v.negated:
                    got = not got
                if got != holds(want_op, s_):
                    return ("wrong comparison operator",
                            f"{v!r}; contract operator {want_op} (differs when val(self) - val(other) has sign {s_})")
            return None
        ca = conv_atoms(R) + conv_atoms(L)
        if ca:
            if linear:
                return ("converter consulted for a linear type", repr(v))
            if L.equals(st.norm(s.amount.rf)) and R.equals(RF.atom(ca[0])):
                return None
            return ("converter result misplaced", repr(v))
        vs, vo = VAL(o, 0), VAL(o, 1)
        if units:
            # units compare by scale: op(mu(self)/mu(other), 1) or op(scale(self), scale(other))
            pass
        # L/vs == R/vo == 1/c with c positive monomial
        if (L * vo).equals(R * vs):
            c = None
            if not vs.is_zero() and not L.is_zero():
                c = vs / L
            if c is not None:
                from .models2 import FullModels
                sg = _sign_of_rf(st, c)
                if sg == 1:
                    return None
                return ("operands scaled by a factor of unknown sign", f"{v!r}, common factor {c!r}")
            return None
        return ("operands are not the two values in one unit, in order",
                f"{v!r}; contract {want_op}(val(self)/c, val(other)/c): val(self)={vs!r}, val(other)={vo!r}")
    return judge


def _sign_of_rf(st: State, rf: RF):
    rf = st.norm(rf)
    if not (rf.d.is_const() or rf.d.is_monomial()):
        return None
    signs = set()
    for m, c in rf.n.t.items():
        for a, e in m:
            if a[0] not in ("mu", "rho", "Qm", "sf", "pw10", "beta", "const"):
                return None
        signs.add(1 if c / rf.d.const_value() > 0 else -1)
    return signs.pop() if len(signs) == 1 else None


def other_values():
    """Non-quantity right operands: (label, maker)."""
    return [
        ("int", lambda c: c.num("k", "int")),
        ("Decimal", lambda c: c.num("k", "dec")),
        ("Fraction", lambda c: c.num("k", "frac")),
        ("float", lambda c: c.num("k", "float")),
        ("str", lambda c: StrV(None, "text")),
        ("None", lambda c: NONE),
    ]


def offset_signs(st: State, q: RF) -> set:
    """Signs `q` can have, derived from facts about expressions that differ from +-q by a quantity of known sign:
    q = s*f + d with d >= 0 and s*f >= 0 gives q >= 0, and so on.  For integer-valued q and f with a constant d the
    bounds are sharpened (s*f > 0 means s*f >= 1)."""
    holds = lambda o_, s_: {"==": s_ == 0, "!=": s_ != 0, "<": s_ < 0, "<=": s_ <= 0, ">": s_ > 0, ">=": s_ >= 0}[o_]
    allowed = {-1, 0, 1}
    qc = st.canon_diff(q)
    q_int = st.integer_valued(qc)
    seen = {}
    for f, op, res in getattr(st, "cmp_raw", []):
        fc = st.canon_diff(f)
        key = fc.key()
        sf = seen.setdefault(key, [fc, {-1, 0, 1}])
        sf[1] = {s_ for s_ in sf[1] if holds(op, s_) == res}
    for fc, fsigns in seen.values():
        if fsigns == {-1, 0, 1}:
            continue
        for s in (1, -1):
            d = st.norm(qc - (fc if s == 1 else RF.const(0) - fc))
            if d.is_zero():
                continue        # the exact-match case is handled by the caller
            dsign = None
            if d.is_const():
                dv = d.const_value()
                dsign = (dv > 0) - (dv < 0)
            else:
                dsign = _sign_of_rf(st, d)
            if dsign is None:
                continue
            sfs = {s * x for x in fsigns}            # signs of s*f
            if q_int and st.integer_valued(fc) and d.is_const() and d.const_value().denominator == 1:
                dv = int(d.const_value())
                lo = 1 if sfs == {1} else (0 if sfs <= {0, 1} else None)
                hi = -1 if sfs == {-1} else (0 if sfs <= {-1, 0} else None)
                if sfs == {0}:
                    lo = hi = 0
                poss = set()
                for sg in (-1, 0, 1):
                    # is there an integer x in [lo, hi] (None = unbounded) with sign(x + dv) == sg ?
                    cands = []
                    lo_q = None if lo is None else lo + dv
                    hi_q = None if hi is None else hi + dv
                    if sg == 0:
                        ok = (lo_q is None or lo_q <= 0) and (hi_q is None or hi_q >= 0)
                    elif sg > 0:
                        ok = hi_q is None or hi_q >= 1
                    else:
                        ok = lo_q is None or lo_q <= -1
                    if ok:
                        poss.add(sg)
                allowed &= poss
            elif dsign > 0 and sfs <= {0, 1}:
                allowed &= {1}
            elif dsign < 0 and sfs <= {-1, 0}:
                allowed &= {-1}
    return allowed


def known_truth(st: State, v):
    """Truth value of a (possibly symbolic) condition under the comparison facts of the path, or None."""
    if isinstance(v, BoolV):
        return v.val
    if not isinstance(v, CmpV):
        return None
    diff = st.norm(v.l.rf) - st.norm(v.r.rf)
    holds = lambda o_, s_: {"==": s_ == 0, "!=": s_ != 0, "<": s_ < 0, "<=": s_ <= 0, ">": s_ > 0, ">=": s_ >= 0}[o_]
    flip = {"==": "==", "!=": "!=", "<": ">", "<=": ">=", ">": "<", ">=": "<="}
    if diff.is_const():
        r = holds(v.op, (diff.const_value() > 0) - (diff.const_value() < 0))
        return (not r) if v.negated else r
    k1, k2 = st.canon_diff(diff).key(), st.canon_diff(RF.const(0) - diff).key()
    allowed = {-1, 0, 1}
    for k, o_, r_ in st.cmp_facts:
        if k == k2 and k2 != k1:
            k, o_ = k1, flip[o_]
        if k == k1:
            allowed = {s_ for s_ in allowed if holds(o_, s_) == r_}
    if len({holds(v.op, s_) for s_ in allowed}) != 1:
        allowed &= offset_signs(st, diff)
    vals = {holds(v.op, s_) for s_ in allowed}
    if len(vals) != 1:
        return None
    r = vals.pop()
    return (not r) if v.negated else r


def known_truth_sign(st: State, diff: RF, sign: int):
    """Yield True/False for every comparison fact of the path about `diff`: is `sign` consistent with it?"""
    holds = lambda o_, s_: {"==": s_ == 0, "!=": s_ != 0, "<": s_ < 0, "<=": s_ <= 0, ">": s_ > 0, ">=": s_ >= 0}[o_]
    flip = {"==": "==", "!=": "!=", "<": ">", "<=": ">=", ">": "<", ">=": "<="}
    k1, k2 = st.canon_diff(diff).key(), st.canon_diff(RF.const(0) - diff).key()
    out = []
    for k, o_, r_ in st.cmp_facts:
        if k == k2 and k2 != k1:
            k, o_ = k1, flip[o_]
        if k == k1:
            out.append(holds(o_, sign) == r_)
    return out
