"""Loader and resolver: parses every module the build covers, builds the class
table (bases, metaclasses, MRO, methods after alias resolution, properties)
and resolves module-level names.  Nothing under /repo is imported or run."""
from __future__ import annotations

import ast
import re
import os
import sys
from typing import Dict, List, Optional, Tuple


class AnalysisError(Exception):
    """Anchor vanished / construct outside the analysed subset -> exit 2."""


def repo_root() -> str:
    return os.environ.get("QSA_REPO", "/repo")


MODULE_FILES = {
    "quantity": "src/quantity/__init__.py",
    "quantity.term": "src/quantity/term.py",
    "quantity.registry": "src/quantity/registry.py",
    "quantity.cwdmeta": "src/quantity/cwdmeta.py",
    "quantity.converter": "src/quantity/converter.py",
    "quantity.predefined": "src/quantity/predefined.py",
    "quantity.si_prefixes": "src/quantity/si_prefixes.py",
    "quantity.utils": "src/quantity/utils.py",
    "quantity.exceptions": "src/quantity/exceptions.py",
    "quantity.money": "src/quantity/money/__init__.py",
    "quantity.money.currencies": "src/quantity/money/currencies.py",
    "utils.make_predef_units_doc": "utils/make_predef_units_doc.py",
}


class FuncInfo:
    def __init__(self, name, module, cls, node, kind="method"):
        self.name = name
        self.module = module        # Module
        self.cls = cls              # ClassInfo or None
        self.node = node            # ast.FunctionDef / ast.Lambda
        self.kind = kind            # method | property | static | classmethod | function
        self.alias_of = None

    @property
    def qualname(self):
        if self.cls is not None:
            return f"{self.cls.name}.{self.name}"
        return f"{self.module.short}.{self.name}"

    def __repr__(self):
        return f"<Func {self.qualname}>"


class ClassInfo:
    def __init__(self, name, module, node):
        self.name = name
        self.module = module
        self.node = node
        self.base_names: List[str] = []
        self.metaclass_name: Optional[str] = None
        self.class_kwds: Dict[str, ast.expr] = {}
        self.methods: Dict[str, FuncInfo] = {}
        self.setters: Dict[str, FuncInfo] = {}      # property setters, by property name
        self.attrs: Dict[str, ast.expr] = {}     # class-level simple assignments
        self.slots: Optional[List[str]] = None

    def __repr__(self):
        return f"<Class {self.name}>"


class Module:
    def __init__(self, name, path, source, tree):
        self.name = name
        self.short = name.split(".")[-1] if name != "quantity" else "quantity"
        self.path = path
        self.source = source
        self.tree = tree
        self.classes: Dict[str, ClassInfo] = {}
        self.functions: Dict[str, FuncInfo] = {}
        self.globals: Dict[str, ast.expr] = {}     # NAME = expr (last simple assignment)
        self.imports: Dict[str, Tuple[str, Optional[str]]] = {}  # local -> (module, name)
        self.global_ann: Dict[str, str] = {}
        self.sd_impls: Dict[str, list] = {}        # singledispatch function -> [(type names, implementation)]

    def rel(self):
        return os.path.relpath(self.path, repo_root())


def _decorator_names(node) -> List[str]:
    out = []
    for d in node.decorator_list:
        if isinstance(d, ast.Name):
            out.append(d.id)
        elif isinstance(d, ast.Attribute):
            out.append(d.attr)
        elif isinstance(d, ast.Call):
            f = d.func
            out.append(f.id if isinstance(f, ast.Name) else getattr(f, "attr", "?"))
    return out


class Program:
    def __init__(self, root: Optional[str] = None, only: Optional[List[str]] = None, _renaming: Optional[Dict[str, str]] = None):
        self.root = root or repo_root()
        self.renamed: Dict[str, str] = dict(_renaming or {})
        self._load(only)
        if _renaming is None and not only:
            # private names are not behaviour: if the tree names the private state of its value classes differently
            # from the models' vocabulary, the consistently renamed program is analysed (qsa/roles.py)
            from . import roles
            mapping = roles.derive(self)
            if mapping:
                # a vocabulary name that the tree still uses - necessarily for something else, since the role is played
                # by another name - is moved out of the way first (TableConverter._unit_map when QuantityMeta's unit map
                # was renamed, say)
                for c in sorted(set(mapping.values()) - set(mapping)):
                    pat = re.compile(r"(?<![A-Za-z0-9_])" + re.escape(c) + r"(?![A-Za-z0-9_])")
                    if any(pat.search(m.source) for m in self.modules.values()):
                        mapping[c] = c + "__other_use"
                self.renamed = mapping
                self._load(only)

    def _load(self, only):
        for cached in ("_symbol_dirs", "_conv_attr", "_conv_list_cls"):       # derived facts of an earlier load
            self.__dict__.pop(cached, None)
        self.modules: Dict[str, Module] = {}
        self.classes: Dict[str, ClassInfo] = {}
        self.parsed_files: List[str] = []
        files = dict(MODULE_FILES)
        # every other module of the package is covered as well (new modules, moved helpers)
        src_root = os.path.join(self.root, "src")
        if os.path.isdir(src_root):
            for dirpath, dirs, fnames in os.walk(os.path.join(src_root, "quantity")):
                for fn in sorted(fnames):
                    if not fn.endswith(".py") or fn == "version.py":
                        continue
                    rel = os.path.relpath(os.path.join(dirpath, fn), self.root)
                    if rel in files.values():
                        continue
                    mod = os.path.relpath(os.path.join(dirpath, fn), src_root)[:-3].replace(os.sep, ".")
                    if mod.endswith(".__init__"):
                        mod = mod[: -len(".__init__")]
                    files[mod] = rel
        for name, rel in files.items():
            if only and name not in only:
                continue
            path = os.path.join(self.root, rel)
            if not os.path.exists(path):
                raise AnalysisError(f"module file missing: {rel}")
            with open(path, encoding="utf-8") as fh:
                src = fh.read()
            if self.renamed:
                from .roles import substitute
                src = substitute(src, self.renamed)
            try:
                tree = ast.parse(src, filename=path)
            except SyntaxError as e:
                raise AnalysisError(f"cannot parse {rel}: {e}")
            m = Module(name, path, src, tree)
            self.modules[name] = m
            self.parsed_files.append(rel)
            self._index(m)

    # ------------------------------------------------------------------ index
    def _index(self, m: Module):
        for st in m.tree.body:
            self._index_stmt(m, st)

    def _index_stmt(self, m: Module, st):
        if isinstance(st, ast.ClassDef):
            ci = self._index_class(m, st)
            m.classes[ci.name] = ci
            # first definition wins for the global table only if unique
            self.classes.setdefault(ci.name, ci)
        elif isinstance(st, (ast.FunctionDef,)):
            if "overload" in _decorator_names(st):
                return
            # functools.singledispatch: `@f.register` / `@f.register(T)` implementations
            for d in st.decorator_list:
                tgt = d.func if isinstance(d, ast.Call) else d
                if isinstance(tgt, ast.Attribute) and tgt.attr == "register" and isinstance(tgt.value, ast.Name) \
                        and tgt.value.id in m.functions:
                    types = []
                    if isinstance(d, ast.Call) and d.args:
                        types = [ast.unparse(a).split(".")[-1] for a in d.args]
                    elif st.args.args and st.args.args[0].annotation is not None:
                        ann = st.args.args[0].annotation
                        parts = ann.elts if isinstance(ann, ast.Tuple) else [ann]
                        if isinstance(ann, ast.BinOp):     # X | Y
                            parts = []
                            stack = [ann]
                            while stack:
                                x = stack.pop()
                                if isinstance(x, ast.BinOp):
                                    stack += [x.left, x.right]
                                else:
                                    parts.append(x)
                        types = [ast.unparse(a).strip("'\"").split(".")[-1] for a in parts]
                    impl = FuncInfo(f"{tgt.value.id}.register[{','.join(types)}]", m, None, st, "function")
                    m.sd_impls.setdefault(tgt.value.id, []).append((types, impl))
                    return
            m.functions[st.name] = FuncInfo(st.name, m, None, st, "function")
        elif isinstance(st, ast.Assign):
            for t in st.targets:
                if isinstance(t, ast.Name):
                    m.globals[t.id] = st.value
        elif isinstance(st, ast.AnnAssign):
            if isinstance(st.target, ast.Name) and st.value is not None:
                m.globals[st.target.id] = st.value
                m.global_ann[st.target.id] = ast.unparse(st.annotation)
        elif isinstance(st, ast.ImportFrom):
            base = self._abs_module(m, st.module, st.level)
            for a in st.names:
                m.imports[a.asname or a.name] = (base, a.name)
        elif isinstance(st, ast.Import):
            for a in st.names:
                # `import a.b` binds the top-level package `a`; `import a.b as c` binds the submodule
                m.imports[a.asname or a.name.split(".")[0]] = (a.name if a.asname else a.name.split(".")[0], None)
        elif isinstance(st, ast.If):
            # `if sys.version_info ...` / `if TYPE_CHECKING` / `if not TYPE_CHECKING`
            test_src = ast.unparse(st.test)
            if test_src == "not TYPE_CHECKING":
                return      # runtime re-definitions of type aliases only
            for s in st.body:
                self._index_stmt(m, s)
            if "version_info" in test_src:
                return
            for s in st.orelse:
                self._index_stmt(m, s)

    def _abs_module(self, m: Module, mod: Optional[str], level: int) -> str:
        if level == 0:
            return mod or ""
        pkg = m.name.split(".")
        is_pkg = m.path.endswith("__init__.py")
        if not is_pkg:
            pkg = pkg[:-1]
        if level > 1:
            pkg = pkg[: len(pkg) - (level - 1)]
        base = ".".join(pkg)
        if mod:
            return f"{base}.{mod}" if base else mod
        return base

    # functools.total_ordering: the comparison methods it derives from the one the class defines
    _TOTAL_ORDERING = {
        "__lt__": {"__gt__": "not r and self != other", "__le__": "r or self == other", "__ge__": "not r"},
        "__le__": {"__ge__": "not r or self == other", "__lt__": "r and self != other", "__gt__": "not r"},
        "__gt__": {"__lt__": "not r and self != other", "__ge__": "r or self == other", "__le__": "not r"},
        "__ge__": {"__le__": "not r or self == other", "__gt__": "r and self != other", "__lt__": "not r"},
    }

    def _synthesize_total_ordering(self, ci: ClassInfo, m: Module):
        roots = [r for r in ("__lt__", "__le__", "__gt__", "__ge__") if r in ci.methods]
        if not roots:
            return
        root = roots[0]
        for name, expr in self._TOTAL_ORDERING[root].items():
            if name in ci.methods:
                continue
            src = (f"def {name}(self, other):\n"
                   f"    r = self.{root}(other)\n"
                   f"    if r is NotImplemented:\n"
                   f"        return r\n"
                   f"    return {expr}\n")
            fn = ast.parse(src).body[0]
            for n in ast.walk(fn):
                if hasattr(n, "lineno"):
                    n.lineno = ci.node.lineno
            fi = FuncInfo(name, m, ci, fn, "method")
            fi.synthetic = "functools.total_ordering"
            ci.methods[name] = fi

    def _index_class(self, m: Module, node: ast.ClassDef) -> ClassInfo:
        ci = ClassInfo(node.name, m, node)
        ci.decorators = _decorator_names(node)
        for b in node.bases:
            if isinstance(b, ast.Name):
                ci.base_names.append(b.id)
            elif isinstance(b, ast.Subscript) and isinstance(b.value, ast.Name):
                ci.base_names.append(b.value.id)
            elif isinstance(b, ast.Attribute):
                ci.base_names.append(b.attr)
        for kw in node.keywords:
            if kw.arg == "metaclass":
                ci.metaclass_name = ast.unparse(kw.value)
            elif kw.arg:
                ci.class_kwds[kw.arg] = kw.value
        for st in node.body:
            if isinstance(st, ast.FunctionDef):
                decs = _decorator_names(st)
                if "overload" in decs:
                    continue
                kind = "method"
                if "property" in decs or "cached_property" in decs:
                    kind = "property"
                elif "staticmethod" in decs:
                    kind = "static"
                elif "classmethod" in decs:
                    kind = "classmethod"
                elif "setter" in decs:
                    ci.setters[st.name] = FuncInfo(st.name, m, ci, st, "setter")
                    continue
                ci.methods[st.name] = FuncInfo(st.name, m, ci, st, kind)
            elif isinstance(st, ast.Assign):
                for t in st.targets:
                    if isinstance(t, ast.Name):
                        if isinstance(st.value, ast.Name) and st.value.id in ci.methods:
                            src = ci.methods[st.value.id]
                            fi = FuncInfo(t.id, m, ci, src.node, src.kind)
                            fi.alias_of = src.name
                            ci.methods[t.id] = fi
                        elif isinstance(st.value, ast.Call) and ast.unparse(st.value.func).split(".")[-1] == "partialmethod" \
                                and st.value.args and isinstance(st.value.args[0], ast.Name) \
                                and st.value.args[0].id in ci.methods:
                            # name = partialmethod(method, *bound, **kwbound): a method that forwards to `method`
                            tgt = st.value.args[0].id
                            bound = [ast.unparse(a) for a in st.value.args[1:]]
                            kwb = [f"{k.arg}={ast.unparse(k.value)}" for k in st.value.keywords if k.arg]
                            call_args = ", ".join(bound + ["*args"] + kwb + ["**kwargs"])
                            code = f"def {t.id}(self, *args, **kwargs):\n    return self.{tgt}({call_args})\n"
                            fnode = ast.parse(code).body[0]
                            for n_ in ast.walk(fnode):
                                if hasattr(n_, "lineno"):
                                    n_.lineno = st.lineno
                                    n_.end_lineno = getattr(st, "end_lineno", st.lineno)
                            ci.methods[t.id] = FuncInfo(t.id, m, ci, fnode, "method")
                        else:
                            ci.attrs[t.id] = st.value
                            if t.id == "__slots__":
                                try:
                                    ci.slots = list(ast.literal_eval(st.value))
                                except Exception:
                                    ci.slots = None
            elif isinstance(st, ast.AnnAssign):
                if isinstance(st.target, ast.Name) and st.value is not None:
                    ci.attrs[st.target.id] = st.value
        ci.fields = [st.target.id for st in node.body
                     if isinstance(st, ast.AnnAssign) and isinstance(st.target, ast.Name)]
        if "total_ordering" in ci.decorators:
            self._synthesize_total_ordering(ci, m)
        return ci

    # ------------------------------------------------------------- resolution
    def cls(self, name: str) -> ClassInfo:
        ci = self.classes.get(name)
        if ci is None:
            raise AnalysisError(f"anchor vanished: class {name}")
        return ci

    def has_cls(self, name):
        return name in self.classes

    def bases(self, ci: ClassInfo) -> List[ClassInfo]:
        return [self.classes[b] for b in ci.base_names if b in self.classes]

    def mro(self, ci: ClassInfo) -> List[ClassInfo]:
        # single inheritance chains only in this code base (plus typing generics)
        out = [ci]
        for b in self.bases(ci):
            for c in self.mro(b):
                if c not in out:
                    out.append(c)
        return out

    def metaclass_of(self, ci: ClassInfo) -> Optional[ClassInfo]:
        for c in self.mro(ci):
            if c.metaclass_name and c.metaclass_name in self.classes:
                return self.classes[c.metaclass_name]
        return None

    def lookup(self, ci: ClassInfo, name: str) -> Optional[FuncInfo]:
        for c in self.mro(ci):
            if name in c.methods:
                return c.methods[name]
        return None

    def lookup_setter(self, ci: ClassInfo, name: str) -> Optional[FuncInfo]:
        for c in self.mro(ci):
            if name in c.setters:
                return c.setters[name]
            if name in c.methods:
                return None     # a plain attribute / read-only property of a nearer class shadows it
        return None

    def lookup_attr(self, ci: ClassInfo, name: str) -> Optional[ast.expr]:
        for c in self.mro(ci):
            if name in c.attrs:
                return c.attrs[name]
        return None

    def method(self, clsname: str, name: str) -> FuncInfo:
        fi = self.lookup(self.cls(clsname), name)
        if fi is None:
            raise AnalysisError(f"anchor vanished: {clsname}.{name}")
        return fi

    def function(self, modname: str, name: str) -> FuncInfo:
        m = self.modules.get(modname)
        if m is None or name not in m.functions:
            raise AnalysisError(f"anchor vanished: {modname}.{name}")
        return m.functions[name]

    def is_subclass(self, ci: ClassInfo, other_name: str) -> bool:
        return any(c.name == other_name for c in self.mro(ci))

    def resolve_global(self, m: Module, name: str, _depth=0):
        """-> ('class', ClassInfo) | ('func', FuncInfo) | ('expr', Module, ast.expr)
             | ('ext', modname, name) | None"""
        if _depth > 6:
            return None
        if name in m.classes:
            return ("class", m.classes[name])
        if name in m.functions:
            return ("func", m.functions[name])
        if name in m.globals:
            return ("expr", m, m.globals[name])
        if name in m.imports:
            mod, nm = m.imports[name]
            if nm is not None and f"{mod}.{nm}" in self.modules:
                return ("module", f"{mod}.{nm}", None)      # `from . import submodule`
            if mod in self.modules:
                if nm is None:
                    return ("module", mod, None)
                return self.resolve_global(self.modules[mod], nm, _depth + 1) or ("ext", mod, nm)
            return ("ext", mod, nm)
        return None

    def all_functions(self):
        for m in self.modules.values():
            for f in m.functions.values():
                yield f
            for c in m.classes.values():
                for f in c.methods.values():
                    if f.alias_of is None:
                        yield f


def src_of(node) -> str:
    try:
        return ast.unparse(node)
    except Exception:
        return "<?>"


def site(fi: FuncInfo, node=None) -> str:
    line = getattr(node, "lineno", None) or fi.node.lineno
    return f"{fi.module.rel()}:{line} {fi.qualname}"
