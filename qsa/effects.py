"""Engine B: write-site inventory, ownership (who-may-write), name-resolved call
graph, and validate-before-mutate path rules over a small statement CFG."""
from __future__ import annotations

import ast
from typing import Dict, Iterable, List, Optional, Set, Tuple

from .loader import FuncInfo, Program, src_of

MUTATORS = {"append", "pop", "remove", "update", "insert", "clear", "extend", "setdefault",
            "popitem", "sort", "reverse", "add", "discard", "__setitem__", "__delitem__",
            "appendleft", "popleft"}


class Write:
    def __init__(self, fi: Optional[FuncInfo], module, node, kind, state, op, base_src, value=None):
        self.fi = fi
        self.module = module
        self.node = node
        self.kind = kind          # attr-store | item-store | aug-store | mutcall | del
        self.state = state        # attribute name or global name written
        self.op = op              # '=', '+=', method name, 'del'
        self.base_src = base_src
        self.value = value

    @property
    def func(self) -> str:
        return self.fi.qualname if self.fi else f"<module {self.module.short}>"

    def __repr__(self):
        return f"<Write {self.state} {self.op} in {self.func}:{getattr(self.node, 'lineno', '?')}>"


def _base_state(expr, aliases: Dict[str, str], module_globals: Set[str]) -> Optional[str]:
    """Name of the persistent state an expression denotes: attribute name of x.attr,
    a module global, or what a local alias was bound to."""
    if isinstance(expr, ast.Attribute):
        return expr.attr
    if isinstance(expr, ast.Name):
        if expr.id in aliases:
            return aliases[expr.id]
        if expr.id in module_globals:
            return expr.id
        return None
    if isinstance(expr, ast.Subscript):
        return _base_state(expr.value, aliases, module_globals)
    return None


def _local_aliases(module, body, default_aliases=None) -> Dict[str, str]:
    module_globals = set(module.globals) | set(module.imports)
    aliases: Dict[str, str] = dict(default_aliases or {})
    # flow-insensitive local aliases: name = <x>.attr | GLOBAL | self._a = {} chains
    for n in _walk_no_nested(body):
        if isinstance(n, ast.NamedExpr) and isinstance(n.target, ast.Name):
            # (alias := obj.attr) / (alias := GLOBAL)
            val = n.value
            s_ = _base_state(val, {}, module_globals) if isinstance(val, (ast.Attribute, ast.Name)) else None
            if s_ is not None and (isinstance(val, ast.Attribute) or val.id in module.globals):
                aliases[n.target.id] = s_
            continue
        if isinstance(n, ast.Assign):
            tgts = n.targets
            val = n.value
            # chain `a = self._b = {}`: a aliases _b
            attr_t = [t for t in tgts if isinstance(t, ast.Attribute)]
            for t in tgts:
                if isinstance(t, ast.Name):
                    if attr_t:
                        aliases[t.id] = attr_t[0].attr
                    else:
                        s = _base_state(val, {}, module_globals) if isinstance(val, (ast.Attribute, ast.Name)) else None
                        if s is not None and (isinstance(val, ast.Attribute) or val.id in module.globals):
                            aliases[t.id] = s
    return aliases


def _scan_function(fi: Optional[FuncInfo], module, body, out: List[Write], default_aliases=None):
    module_globals = set(module.globals) | set(module.imports)
    aliases = _local_aliases(module, body, default_aliases)
    for n in _walk_no_nested(body):
        if isinstance(n, (ast.Assign, ast.AnnAssign, ast.AugAssign)):
            tgts = n.targets if isinstance(n, ast.Assign) else [n.target]
            if isinstance(n, ast.AnnAssign) and n.value is None:
                continue
            op = "=" if not isinstance(n, ast.AugAssign) else "aug"
            flat = []
            for t in tgts:
                flat.extend(t.elts if isinstance(t, (ast.Tuple, ast.List)) else [t])
            for t in flat:
                if isinstance(t, ast.Attribute):
                    out.append(Write(fi, module, n, "attr-store" if op == "=" else "aug-store",
                                     t.attr, op, src_of(t.value), n.value))
                elif isinstance(t, ast.Subscript):
                    s = _base_state(t.value, aliases, module_globals)
                    if s is not None:
                        out.append(Write(fi, module, n, "item-store", s, "[]=" if op == "=" else "[]aug",
                                         src_of(t.value), n.value))
        elif isinstance(n, ast.Delete):
            for t in n.targets:
                s = _base_state(t, aliases, module_globals) if not isinstance(t, ast.Name) else None
                if s is not None:
                    out.append(Write(fi, module, n, "del", s, "del", src_of(t)))
        elif isinstance(n, ast.Call) and isinstance(n.func, ast.Attribute) and n.func.attr in MUTATORS:
            s = _base_state(n.func.value, aliases, module_globals)
            if s is not None:
                out.append(Write(fi, module, n, "mutcall", s, n.func.attr, src_of(n.func.value), n))
            elif isinstance(n.func.value, ast.Name):
                # mutation of a parameter or a local: recorded under the local's name for escape rules
                out.append(Write(fi, module, n, "mutcall", "local:" + n.func.value.id, n.func.attr,
                                 src_of(n.func.value), n))


def _walk_no_nested(body):
    """Walk statements/expressions, descending into lambdas/comprehensions but not nested defs/classes."""
    stack = list(body) if isinstance(body, list) else [body]
    while stack:
        n = stack.pop()
        yield n
        for c in ast.iter_child_nodes(n):
            if isinstance(c, (ast.FunctionDef, ast.ClassDef, ast.AsyncFunctionDef)):
                continue
            stack.append(c)


def _param_aliases(prog: Program) -> Dict[str, Dict[str, str]]:
    """Interprocedural part of the alias analysis: a parameter of a private helper aliases the persistent state
    every caller passes for it (`self._helper(op, other, _op_cache)` with `_op_cache = _UNIT_OP_CACHE`)."""
    funcs = []
    for m in prog.modules.values():
        for fi in m.functions.values():
            funcs.append((fi, m, None))
        for ci in m.classes.values():
            for fi in ci.methods.values():
                if fi.alias_of is None:
                    funcs.append((fi, m, ci))
    pal: Dict[str, Dict[str, str]] = {fi.qualname: dict(_default_aliases(fi, m)) for fi, m, _ in funcs}
    for _round in range(4):
        changed = False
        for fi, m, ci in funcs:
            al = _local_aliases(m, fi.node.body, pal[fi.qualname])
            mg = set(m.globals)
            for n in _walk_no_nested(fi.node.body):
                if not isinstance(n, ast.Call):
                    continue
                callee = None
                f = n.func
                if isinstance(f, ast.Attribute) and isinstance(f.value, ast.Name) and f.value.id in ("self", "cls") \
                        and ci is not None:
                    callee = prog.lookup(ci, f.attr)
                    skip = 1
                elif isinstance(f, ast.Name) and f.id in m.functions:
                    callee = m.functions[f.id]
                    skip = 0
                if callee is None or callee.node is None or not callee.name.startswith("_") or \
                        callee.name.startswith("__"):
                    continue
                a = callee.node.args
                params = [p.arg for p in a.posonlyargs + a.args]
                if skip and callee.kind == "staticmethod":
                    skip = 0
                bound = dict(zip(params[skip:], n.args))
                for kw in n.keywords:
                    if kw.arg:
                        bound[kw.arg] = kw.value
                for pname, arg in bound.items():
                    st_ = None
                    if isinstance(arg, ast.Name):
                        st_ = al.get(arg.id) or (arg.id if arg.id in mg and arg.id not in m.functions
                                                 and arg.id not in m.classes else None)
                    if st_ is not None and pal[callee.qualname].get(pname) != st_:
                        pal[callee.qualname][pname] = st_
                        changed = True
        if not changed:
            break
    return pal


def inventory(prog: Program, modules: Optional[Iterable[str]] = None) -> List[Write]:
    out: List[Write] = []
    pal = _param_aliases(prog)
    for name, m in prog.modules.items():
        if modules is not None and name not in modules:
            continue
        top = [s for s in m.tree.body if not isinstance(s, (ast.FunctionDef, ast.ClassDef))]
        _scan_function(None, m, top, out)
        for fi in m.functions.values():
            _scan_function(fi, m, fi.node.body, out, pal.get(fi.qualname) or _default_aliases(fi, m))
        for ci in m.classes.values():
            for fi in ci.methods.values():
                if fi.alias_of is None:
                    _scan_function(fi, m, fi.node.body, out, pal.get(fi.qualname) or _default_aliases(fi, m))
            # nested function definitions inside methods are scanned as part of nothing; none exist today
    return out


def _default_aliases(fi: FuncInfo, m) -> Dict[str, str]:
    """Default-argument aliases of module globals (`_op_cache = _UNIT_OP_CACHE`)."""
    al = {}
    a = fi.node.args
    params = a.posonlyargs + a.args
    defaults = [None] * (len(params) - len(a.defaults)) + list(a.defaults)
    for p, d in zip(params, defaults):
        if isinstance(d, ast.Name) and d.id in m.globals:
            al[p.arg] = d.id
    for p, d in zip(a.kwonlyargs, a.kw_defaults):
        if isinstance(d, ast.Name) and d.id in m.globals:
            al[p.arg] = d.id
    return al


# ---------------------------------------------------------------- call graph
class CallGraph:
    """Name-resolved call graph (over-approximate: a call `x.f()` may reach every
    repo function named f; dunder dispatch of operators is added for the operator
    methods of Unit/Quantity/Term/ExchangeRate)."""

    def __init__(self, prog: Program):
        self.prog = prog
        self.by_name: Dict[str, List[FuncInfo]] = {}
        self.funcs: Dict[str, FuncInfo] = {}
        for fi in prog.all_functions():
            self.funcs[fi.qualname] = fi
            self.by_name.setdefault(fi.name, []).append(fi)
        # aliases (e.g. __radd__ = __add__)
        for ci in prog.classes.values():
            for nm, fi in ci.methods.items():
                if fi.alias_of:
                    tgt = ci.methods.get(fi.alias_of)
                    if tgt:
                        self.by_name.setdefault(nm, []).append(tgt)
        self.callees: Dict[str, Set[str]] = {q: set() for q in self.funcs}
        self.callers: Dict[str, Set[str]] = {q: set() for q in self.funcs}
        for q, fi in self.funcs.items():
            for n in ast.walk(fi.node):
                names = []
                if isinstance(n, ast.Call):
                    f = n.func
                    if isinstance(f, ast.Attribute):
                        names.append(f.attr)
                    elif isinstance(f, ast.Name):
                        names.append(f.id)
                        # calling a class: __new__/__init__/__call__
                    if isinstance(f, ast.Call) and isinstance(f.func, ast.Name) and f.func.id == "super":
                        pass
                elif isinstance(n, ast.Attribute):
                    # property access
                    for c in self.by_name.get(n.attr, []):
                        if c.kind == "property":
                            names.append(n.attr)
                            break
                for nm in names:
                    for c in self.by_name.get(nm, []):
                        self.callees[q].add(c.qualname)
                        self.callers[c.qualname].add(q)

    def reachable_from(self, roots: Iterable[str]) -> Set[str]:
        seen = set()
        stack = [r for r in roots if r in self.funcs]
        while stack:
            q = stack.pop()
            if q in seen:
                continue
            seen.add(q)
            stack.extend(self.callees.get(q, ()))
        return seen

    def all_callers(self, q: str) -> Set[str]:
        seen = set()
        stack = list(self.callers.get(q, ()))
        while stack:
            c = stack.pop()
            if c in seen:
                continue
            seen.add(c)
            stack.extend(self.callers.get(c, ()))
        return seen


def _is_public(name: str) -> bool:
    return not name.startswith("_") or (name.startswith("__") and name.endswith("__"))


def _declaring_classes(prog, attr):
    """Classes that declare an instance attribute of that name: in __slots__, by a class-level annotation, or by a
    `self.<attr> = ...` store in one of their methods."""
    out = []
    for ci in prog.classes.values():
        declared = False
        sl = ci.attrs.get("__slots__")
        if isinstance(sl, (ast.List, ast.Tuple)) and any(isinstance(x, ast.Constant) and x.value == attr for x in sl.elts):
            declared = True
        node = getattr(ci, "node", None)
        if not declared and node is not None:
            for st in node.body:
                if isinstance(st, ast.AnnAssign) and isinstance(st.target, ast.Name) and st.target.id == attr:
                    declared = True
        if not declared:
            for f in ci.methods.values():
                if f.node is None or not hasattr(f.node, "args") or not f.node.args.args:
                    continue
                me = f.node.args.args[0].arg
                for n in ast.walk(f.node):
                    if isinstance(n, ast.Attribute) and isinstance(n.ctx, ast.Store) and n.attr == attr and \
                            isinstance(n.value, ast.Name) and n.value.id == me:
                        declared = True
                        break
                if declared:
                    break
        if declared:
            out.append(ci)
    return out


def check_ownership(res, rule: str, writes: List[Write], state: str, owners: Dict[str, Set[str]],
                    cg: Optional[CallGraph] = None, case_prefix=""):
    """Who-may-write: every write of `state` is in an owner function with a whitelisted
    operation, or in a private helper reachable only from owner functions.
    owners: qualname -> allowed ops ('=' , 'aug', '[]=', method names)."""
    found = [w for w in writes if w.state == state]
    # an attribute of the same name on an unrelated class is other state: `self.<state>` stores are attributed to
    # the class of the method they occur in, and only classes related to the owners' classes count
    owner_classes = {q.split(".")[0] for q in owners if "." in q}
    if owner_classes and cg is not None:
        prog = cg.prog

        def related(cname):
            ci = prog.classes.get(cname)
            if ci is None:
                return True
            for oc in owner_classes:
                oci = prog.classes.get(oc)
                if oci is None:
                    return True
                if prog.is_subclass(ci, oc) or prog.is_subclass(oci, cname):
                    return True
                # metaclass methods write the attributes of the classes they create
                mc = prog.metaclass_of(ci)
                if mc is not None and (mc is oci or prog.is_subclass(mc, oc)):
                    return True
                omc = prog.metaclass_of(oci)
                if omc is not None and (omc is ci or prog.is_subclass(omc, cname)):
                    return True
            return False
        found = [w for w in found if not (w.base_src in ("self", "cls") and w.fi is not None and w.fi.cls is not None
                                          and not related(w.fi.cls.name))]
        # a store through another name (`unit.<state> = ...`): when several classes declare an attribute of that
        # name, the store belongs to the declaring class defined in the module of the store, if there is exactly one
        decl = _declaring_classes(prog, state)
        if len(decl) > 1:
            def foreign(w):
                if w.base_src in ("self", "cls") or w.fi is None:
                    return False
                here = [c for c in decl if c.module is w.fi.module]
                return len(here) == 1 and not related(here[0].name)
            found = [w for w in found if not foreign(w)]
    for w in found:
        q = w.func
        ok = False
        why = ""
        if q in owners:
            ok = w.op in owners[q] or "*" in owners[q]
            why = f"operation {w.op!r} is not among the owner's operations {sorted(owners[q])}"
        else:
            name = q.split(".")[-1]

            def private(qn):
                """A private helper: a private name, or a function of a private module of the package (a module
                whose own name starts with an underscore is not part of the public interface)."""
                nm = qn.split(".")[-1]
                if nm.startswith("_") and not nm.startswith("__"):
                    return True
                f_ = cg.funcs.get(qn) if cg is not None else None
                mod_ = getattr(getattr(f_, "module", None), "name", "") or ""
                return f_ is not None and f_.cls is None and mod_.split(".")[-1].startswith("_") and \
                    not mod_.split(".")[-1].startswith("__")
            if cg is not None and private(q) and q in cg.funcs:
                # climb through private helpers only: an owner above is a legitimate entry point, a public
                # non-owner above is a foreign writer
                callers, pub, stack = set(), set(), list(cg.callers.get(q, ()))
                while stack:
                    c = stack.pop()
                    if c in callers:
                        continue
                    callers.add(c)
                    if c in owners:
                        continue
                    if not private(c):
                        pub.add(c)
                    else:
                        stack.extend(cg.callers.get(c, ()))
                allowed_ops = set().union(*owners.values()) if owners else set()
                ok = bool(callers) and not pub and (w.op in allowed_ops or "*" in allowed_ops)
                why = f"helper reachable from non-owner(s) {sorted(pub)[:3]}" if pub else "operation not whitelisted"
            else:
                why = "function is not an owner of this state"
        res.ob(rule, q, f"{case_prefix}{state}:{w.op}", ok,
               detail=f"{w.module.rel()}:{getattr(w.node, 'lineno', '?')} `{src_of(w.node)[:100]}` — {why}",
               sig=f"foreign write of {state} ({w.op})", nontrivial=False)
    return found
