"""Declaration scenarios (type creation, new_unit, derive_unit_from, currencies) evaluated by
Engine A, with extraction of the persistent writes of a path.  Shared by C15, C16, C17."""
from __future__ import annotations

from typing import List

from .contracts import *  # noqa: F401,F403
from .engine_a import run_body
from .models import DictV

DIRECTORIES = ("_SYMBOL_UNIT_MAP", "_TERM_UNIT_MAP", "QuantityMeta._registry", "_registry")


def persistent_writes(st: State, preexisting=()) -> List[tuple]:
    """Writes of a path that outlive the call: stores into the global directories and per-type maps,
    mutations of converter lists, field stores on objects that existed before the call."""
    out = []

    def transparent_memo(e):
        """A store into a process-global memo whose value is computed from the key alone (a number from a number):
        nothing a later call could observe - not a declaration."""
        g, key, val = e[1], e[2], e[3]
        if getattr(g, "registry", False) or getattr(g, "convtable", False) or getattr(g, "unit_values", False) \
                or getattr(g, "owner", None) is not None or g.name.startswith("_unit_map(") or getattr(g, "record_types", None):
            return False
        if not isinstance(val, Num):
            return False
        keys = key.items if isinstance(key, TupleV) else [key]
        if not all(isinstance(k, (Num, StrV, EnumV, NoneV, BoolV)) for k in keys):
            return False
        katoms = set()
        for k in keys:
            if isinstance(k, Num):
                katoms |= set(st.norm(k.rf).atoms())
        vat = set(st.norm(st.expand_rnd(val.rf)).atoms())
        # (a symbolic exponent is the symbolic integer of the case: covered when the key holds a symbolic number)
        sym_key = any(isinstance(k, Num) and not st.norm(k.rf).is_const() for k in keys)
        return all(a in katoms or a[0] in ("fn", "rnd", "const") or (a[0] == "n" and sym_key) for a in vat)
    for e in st.effects:
        if e[0] == "setitem" and isinstance(e[1], GlobalMapV):
            if transparent_memo(e):
                continue
            out.append(("setitem", e[1].name, e[2], e[3], e[-1]))
        elif e[0] == "mapcall" and isinstance(e[1], GlobalMapV) and e[2] in (
                "register_item", "update", "pop", "clear", "setdefault", "popitem"):
            out.append(("mapcall", e[1].name, e[2], e[3], e[-1]))
        elif e[0] == "listop" and getattr(e[1], "tag", "").startswith("converters("):
            out.append(("listop", e[1].tag, e[2], e[3], e[-1]))
        elif e[0] == "setattr" and any(e[1] is p for p in preexisting):
            out.append(("setattr", repr(e[1]), e[2], e[3], e[4]))
        elif e[0] == "dictcall" and e[2] in ("update", "pop", "clear", "setdefault", "popitem") and \
                any(e[1] is p for p in preexisting):
            out.append(("dictcall", getattr(e[1], "tag", "dict"), e[2], e[3], e[-1]))
    return out


def base_types(c: Ctx, second_has_ref=True):
    c.new_type("T1", has_ref=True, has_quantum=False, money=False)
    c.new_type("T2", has_ref=second_has_ref, has_quantum=False, money=False)
    c.st.distinct_types("T1", "T2")
    c.st.type_defs["T1"] = "base"
    c.st.type_defs["T2"] = "base"


def cls_definition(c: Ctx, e2=-1) -> TermV:
    items = [(ClsV("T1"), Num(RF.const(1), "int")), (ClsV("T2"), Num(RF.const(e2), "int"))]
    mag = RF.atom(("rho", "T1")) * RF.atom(("rho", "T2")).pow_int(e2)
    return TermV(mag, {"T1": (1, 0), "T2": (e2, 0)}, items=items)


def create_class(prog, interp, c: Ctx, *, derived: bool, ref_symbol: bool, ref_name=False, quantum=False,
                 money=False):
    """Run the metaclass protocol: __new__ followed by __init__.  Returns the class value."""
    meta = "MoneyMeta" if money else "QuantityMeta"
    mnew = prog.method(meta, "__new__")
    minit = prog.method(meta, "__init__")
    kw = {}
    if derived:
        kw["define_as"] = cls_definition(c)
    if ref_symbol:
        s = StrV(None, "refsym")
        s.nonempty = True
        kw["ref_unit_symbol"] = s
    if ref_name:
        kw["ref_unit_name"] = StrV(None, "refname")
    if quantum:
        kw["quantum"] = Num(RF.atom(("k", "quantum")), "frac")
    mcs = TypeV(meta, prog.cls(meta))
    clsdict = DictV()
    bases = TupleV([ClsV(c.m.special_type("Quantity"))])
    cls = interp.call_function(mnew, [mcs, StrV("NewType"), bases, clsdict], dict(kw))
    interp.st_marker = len(c.st.effects)
    interp.call_function(minit, [cls, StrV("NewType"), bases, clsdict], dict(kw))
    return cls
