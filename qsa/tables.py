"""Engine C: exhaustive decision table of the integer rounding helper.

The helper reached from Quantity.quantize's Fraction branch touches its inputs
only through sign tests of the floor quotient, comparisons of multiples of the
remainder with multiples of the divisor, and residues of the quotient.  It is
abstractly evaluated over the finite case space

    mode (8) x quotient class {<=-2 (10 residues), -1, 0, 1, >=2 (10 residues)}
             x cmp(2*rem, y) in {<, =, >}

under the facts y > 0 and 0 < rem < y (divmod on a Fraction's numerator and
positive denominator, after the rem == 0 early return).  No repo code is run:
expressions are mapped into a small abstract domain (quotient+offset, linear
forms in rem and y, constants) and anything outside it is an AnalysisError."""
from __future__ import annotations

import ast
import os
from fractions import Fraction
from typing import Dict, List, Optional, Tuple

from .loader import AnalysisError, FuncInfo, src_of


# ---------------------------------------------------------------- reference (from the definitions)
def reference_add_one(mode: str, qclass: Tuple[str, int], cmp2: int) -> int:
    """1 if the correctly rounded value of quot + rem/y (0 < rem/y < 1) is quot + 1, else 0.
    qclass = (sign class, residue mod 10); cmp2 = sign(2*rem - y)."""
    sign, res = qclass
    nonneg = sign in ("0", "1", ">=2")          # value = quot + frac > 0  <=> quot >= 0
    if mode == "ROUND_FLOOR":
        return 0
    if mode == "ROUND_CEILING":
        return 1
    if mode == "ROUND_DOWN":                    # towards zero
        return 0 if nonneg else 1
    if mode == "ROUND_UP":                      # away from zero
        return 1 if nonneg else 0
    if mode in ("ROUND_HALF_UP", "ROUND_HALF_DOWN", "ROUND_HALF_EVEN"):
        if cmp2 > 0:
            return 1
        if cmp2 < 0:
            return 0
        if mode == "ROUND_HALF_UP":             # tie away from zero
            return 1 if nonneg else 0
        if mode == "ROUND_HALF_DOWN":           # tie towards zero
            return 0 if nonneg else 1
        return 0 if res % 2 == 0 else 1         # tie to even
    if mode == "ROUND_05UP":
        # truncate towards zero; if the last digit of the truncated value is 0 or 5 go away from zero
        if nonneg:
            trunc_res = res                     # truncated = quot
            return 1 if trunc_res % 5 == 0 else 0
        trunc_res = (res + 1) % 10              # truncated = quot + 1 (<= 0); |t| % 5 == 0 <=> t % 5 == 0
        return 0 if trunc_res % 5 == 0 else 1
    raise KeyError(mode)


def quotient_classes(modulus: int = 10) -> List[Tuple[str, int]]:
    """Sign class x residue of the quotient; the residues are taken modulo `modulus` (a multiple of 10: the modes
    look at parity and at the last digit; a helper that tests other residues needs a finer partition)."""
    out = [("<=-2", r) for r in range(modulus)]
    out += [("-1", modulus - 1), ("0", 0), ("1", 1)]
    out += [(">=2", r) for r in range(modulus)]
    return out


def residue_modulus(fi: FuncInfo, prog=None) -> int:
    """lcm of 10 and every integer constant used as a modulus (or bit mask + 1) in the helper's module functions
    it may call: the partition of the quotients the table is enumerated over."""
    from math import gcd
    L = 10
    nodes = [fi.node]
    mod = getattr(fi, "module", None)
    if mod is not None:
        nodes += [f.node for f in mod.functions.values() if f.node is not fi.node and hasattr(f.node, "body")]
        nodes += [e for e in mod.globals.values()]
    for root in nodes:
        for n in ast.walk(root):
            if isinstance(n, ast.BinOp) and isinstance(n.op, ast.Mod) and isinstance(n.right, ast.Constant) \
                    and isinstance(n.right.value, int) and not isinstance(n.right.value, bool) and 0 < n.right.value <= 60:
                m = n.right.value
                L = L * m // gcd(L, m)
            if isinstance(n, ast.Call) and isinstance(n.func, ast.Name) and n.func.id == "divmod" and len(n.args) == 2 \
                    and isinstance(n.args[1], ast.Constant) and isinstance(n.args[1].value, int) and 0 < n.args[1].value <= 60:
                m = n.args[1].value
                L = L * m // gcd(L, m)
    return L if L <= 420 else 10


def rounding_modes_from_dependency() -> List[str]:
    """Members of decimalfp.ROUNDING, read from the dependency's source (AST, not imported)."""
    cands = []
    for base in ("/venv/lib",):
        for root, dirs, files in os.walk(base):
            if root.endswith("decimalfp") and "rounding.py" in files:
                cands.append(os.path.join(root, "rounding.py"))
    if not cands:
        raise AnalysisError("decimalfp/rounding.py not found in the repository's environment")
    tree = ast.parse(open(cands[0], encoding="utf-8").read())
    for n in tree.body:
        if isinstance(n, ast.ClassDef) and n.name == "ROUNDING":
            names = []
            for st in n.body:
                if isinstance(st, ast.Assign) and isinstance(st.targets[0], ast.Name) \
                        and st.targets[0].id.startswith("ROUND_"):
                    names.append(st.targets[0].id)
            return names
    raise AnalysisError("ROUNDING enum not found in decimalfp/rounding.py")


# ---------------------------------------------------------------- abstract domain
class AQ:           # s*quot + c   (s = +1 / -1; quot is the floor quotient of x by y)
    def __init__(self, c=0, s=1):
        self.c = c
        self.s = s

    def __repr__(self):
        q = "quot" if self.s == 1 else "-quot"
        return f"{q}{self.c:+d}" if self.c else q


class Lin:          # kr*rem + ky*y
    def __init__(self, kr, ky):
        self.kr, self.ky = Fraction(kr), Fraction(ky)

    def __repr__(self):
        return f"{self.kr}*rem+{self.ky}*y"


class AX:           # kq*quot*y + kr*rem + ky*y   (x itself is AX(1, 1, 0))
    def __init__(self, kq, kr, ky):
        self.kq, self.kr, self.ky = Fraction(kq), Fraction(kr), Fraction(ky)

    def __repr__(self):
        return f"{self.kq}*quot*y+{self.kr}*rem+{self.ky}*y"


def _as_ax(v):
    if v == "X":
        return AX(1, 1, 0)
    if v == "NX":
        return AX(-1, -1, 0)
    if isinstance(v, AX):
        return v
    if isinstance(v, Lin):
        return AX(0, v.kr, v.ky)
    return None


class Mode:
    def __init__(self, name):
        self.name = name


class ResQ:         # (quot + c) % m
    def __init__(self, val):
        self.val = val


class FuncRef:
    def __init__(self, fi):
        self.fi = fi


def _lambda_as_def(lam: ast.Lambda):
    fn = ast.parse("def _lambda(): pass").body[0]
    fn.args = lam.args
    fn.body = [ast.Return(value=lam.body)]
    ast.fix_missing_locations(fn)
    return fn


class PairTable:
    """A module-level sequence of (mode, rule) pairs."""

    def __init__(self, rows):
        self.rows = rows


class LoopBreak(Exception):
    pass


class Unk:
    """An integer the cell says nothing about."""

    def __repr__(self):
        return "Unk"


class Ret(Exception):
    def __init__(self, v):
        self.v = v


class Rz(Exception):
    def __init__(self, name):
        self.name = name


class TableEval:
    def __init__(self, fi: FuncInfo, mode: Optional[str], default_mode: Optional[str],
                 qclass: Tuple[str, int], cmp2: int, rem_zero=False, prog=None, modulus: int = 10):
        self.prog = prog
        self.fi = fi
        self.mode = mode
        self.default_mode = default_mode
        self.qclass = qclass
        self.modulus = modulus
        self.forced: List[int] = []     # outcomes prescribed for comparisons the cell does not decide
        self.taken: List[int] = []
        self.cmp2 = cmp2
        self.rem_zero = rem_zero
        self.env: Dict[str, object] = {}

    def bad(self, node, why=""):
        raise AnalysisError(f"{self.fi.module.rel()}:{getattr(node, 'lineno', '?')} {self.fi.qualname}: "
                            f"outside the predicate language of Engine C {why}: {src_of(node)[:100]}")

    # -- run
    def run(self):
        a = self.fi.node.args
        params = [p.arg for p in a.args]
        if len(params) < 2:
            self.bad(self.fi.node, "signature")
        self.env[params[0]] = "X"
        self.env[params[1]] = Lin(0, 1)
        if len(params) > 2:
            self.env[params[2]] = Mode(self.mode) if self.mode else None
        try:
            self.block(self.fi.node.body)
        except Ret as r:
            return ("return", r.v)
        except Rz as r:
            return ("raise", r.name)
        return ("return", None)

    def block(self, stmts):
        for st in stmts:
            self.stmt(st)

    def stmt(self, st):
        if isinstance(st, ast.Expr) and isinstance(st.value, ast.Constant):
            return
        if isinstance(st, ast.Assign):
            v = self.ev(st.value)
            for t in st.targets:
                self.assign(t, v)
            return
        if isinstance(st, ast.AnnAssign):
            if st.value is not None:
                self.assign(st.target, self.ev(st.value))
            return
        if isinstance(st, ast.AugAssign) and isinstance(st.target, ast.Name):
            cur = self.ev(ast.Name(id=st.target.id, ctx=ast.Load()))
            self.assign(st.target, self.binop(st.op, cur, self.ev(st.value), st))
            return
        if isinstance(st, ast.If):
            if self.truth(self.ev(st.test), st.test):
                self.block(st.body)
            else:
                self.block(st.orelse)
            return
        if isinstance(st, ast.Return):
            raise Ret(self.ev(st.value) if st.value is not None else None)
        if isinstance(st, ast.Raise):
            name = src_of(st.exc.func if isinstance(st.exc, ast.Call) else st.exc)
            raise Rz(name)
        if isinstance(st, ast.Try):
            try:
                self.block(st.body)
            except Rz as r:
                for h in st.handlers:
                    names = [src_of(h.type)] if h.type is not None and not isinstance(h.type, ast.Tuple) else \
                        ([src_of(e) for e in h.type.elts] if h.type is not None else [r.name])
                    if r.name in names or h.type is None:
                        self.block(h.body)
                        break
                else:
                    raise
            else:
                self.block(st.orelse)
            self.block(st.finalbody)
            return
        if isinstance(st, ast.For):
            seq = self.ev(st.iter)
            rows = seq.rows if isinstance(seq, PairTable) else (list(seq) if isinstance(seq, tuple) else None)
            if rows is None:
                self.bad(st, "loop over something else than a table of the module")
            broke = False
            for row in rows:
                self.assign(st.target, tuple(row) if isinstance(row, (tuple, list)) else row)
                try:
                    self.block(st.body)
                except LoopBreak:
                    broke = True
                    break
            if not broke:
                self.block(st.orelse)
            return
        if isinstance(st, ast.Break):
            raise LoopBreak()
        if isinstance(st, ast.Pass):
            return
        if isinstance(st, ast.Assert):
            if not self.truth(self.ev(st.test), st.test):
                raise Rz("AssertionError")
            return
        if isinstance(st, ast.Match):
            subject = self.ev(st.subject)
            for case in st.cases:
                saved = dict(self.env)
                if self.match(case.pattern, subject, st) and \
                        (case.guard is None or self.truth(self.ev(case.guard), case.guard)):
                    self.block(case.body)
                    return
                self.env = saved
            return
        self.bad(st, "statement")

    def match(self, pat, v, node) -> bool:
        if isinstance(pat, ast.MatchValue):
            return self.cmp(ast.Eq(), v, self.ev(pat.value), node)
        if isinstance(pat, ast.MatchSingleton):
            return v is pat.value
        if isinstance(pat, ast.MatchOr):
            return any(self.match(p, v, node) for p in pat.patterns)
        if isinstance(pat, ast.MatchAs):
            if pat.pattern is not None and not self.match(pat.pattern, v, node):
                return False
            if pat.name is not None:
                self.env[pat.name] = v
            return True
        if isinstance(pat, ast.MatchSequence) and isinstance(v, tuple):
            if any(isinstance(p, ast.MatchStar) for p in pat.patterns) or len(v) != len(pat.patterns):
                return False if len(v) != len(pat.patterns) else self.bad(pat, "star pattern")
            return all(self.match(p, x, node) for p, x in zip(pat.patterns, v))
        self.bad(pat, "match pattern")

    def assign(self, t, v):
        if isinstance(t, ast.Name):
            self.env[t.id] = v
        elif isinstance(t, ast.Tuple):
            if not isinstance(v, tuple) or len(v) != len(t.elts):
                self.bad(t, "unpack")
            for tt, vv in zip(t.elts, v):
                self.assign(tt, vv)
        else:
            self.bad(t, "target")

    # -- expressions
    def ev(self, n):
        if isinstance(n, ast.Constant):
            if isinstance(n.value, bool) or n.value is None:
                return n.value
            if isinstance(n.value, int):
                return Fraction(n.value)
            self.bad(n, "constant")
        if isinstance(n, ast.Name):
            if n.id in self.env:
                return self.env[n.id]
            if n.id in ("True", "False"):
                return n.id == "True"
            if n.id == "ROUNDING":
                return "ROUNDING-class"
            tbl = self.module_table(n.id)
            if tbl is not None:
                return tbl
            f = self.resolve_func(n)
            if f is not None:
                return FuncRef(f)
            self.bad(n, "name")
        if isinstance(n, ast.Subscript):
            base = self.ev(n.value)
            key = self.ev(n.slice)
            if isinstance(base, dict) and isinstance(key, Mode):
                if key.name in base:
                    return base[key.name]
                raise Rz("KeyError")
            self.bad(n, "subscript")
        if isinstance(n, (ast.Tuple, ast.List, ast.Set)):
            return tuple(self.ev(e) for e in n.elts)
        if isinstance(n, ast.Attribute):
            s = src_of(n)
            if s.startswith("ROUNDING."):
                return Mode(n.attr)
            if n.attr == "__class__":
                v = self.ev(n.value)
                if isinstance(v, Mode):
                    # a value that is no member of the enumeration is an object of some other class
                    return "ROUNDING-class" if v.name in self.member_names() else "foreign-class"
                if v is None:
                    return "NoneType-class"
            self.bad(n, "attribute")
        if isinstance(n, ast.Call) and isinstance(n.func, ast.Attribute) and n.func.attr == "get":
            base = self.ev(n.func.value)
            if isinstance(base, dict) and n.args:
                key = self.ev(n.args[0])
                if isinstance(key, Mode):
                    return base.get(key.name, self.ev(n.args[1]) if len(n.args) > 1 else None)
        if isinstance(n, ast.Call):
            f = src_of(n.func)
            if f == "divmod" and len(n.args) == 2:
                a, b = self.ev(n.args[0]), self.ev(n.args[1])
                if a == "X" and isinstance(b, Lin) and (b.kr, b.ky) == (0, 1):
                    return (AQ(0), Fraction(0) if self.rem_zero else Lin(1, 0))
                if a == "NX" and isinstance(b, Lin) and (b.kr, b.ky) == (0, 1):
                    # -x = (-quot - 1)*y + (y - rem)  for 0 < rem < y;   -x = (-quot)*y  for rem == 0
                    return (AQ(0, -1), Fraction(0)) if self.rem_zero else (AQ(-1, -1), Lin(-1, 1))
                self.bad(n, "divmod operands")
            if f == "abs" and len(n.args) == 1:
                v = self.ev(n.args[0])
                if v in ("X", "NX"):
                    neg = self.x_sign() < 0
                    return ("NX" if neg else "X") if v == "X" else ("X" if neg else "NX")
                if isinstance(v, Fraction):
                    return abs(v)
                if isinstance(v, Lin):
                    s = self.lin_sign(v, n)
                    return v if s >= 0 else Lin(-v.kr, -v.ky)
                self.bad(n, "abs operand")
            if f == "get_dflt_rounding_mode" and not n.args:
                return Mode(self.default_mode)
            if f == "type" and len(n.args) == 1:
                v = self.ev(n.args[0])
                if isinstance(v, Mode):
                    return "ROUNDING-class" if v.name in self.member_names() else "foreign-class"
                if v is None:
                    return "NoneType-class"
            if f == "isinstance" and len(n.args) == 2 and src_of(n.args[1]) == "ROUNDING":
                v = self.ev(n.args[0])
                return isinstance(v, Mode) and v.name in self.member_names()
            callee = self.resolve_func(n.func)
            if callee is not None and self.depth < 3:
                return self.inline(callee, [self.ev(a) for a in n.args],
                                   {k.arg: self.ev(k.value) for k in n.keywords}, n)
            if f in ("int", "bool") and len(n.args) == 1:
                v = self.ev(n.args[0])
                if isinstance(v, bool):
                    return Fraction(int(v)) if f == "int" else v
                if isinstance(v, Fraction) and v.denominator == 1:
                    return v if f == "int" else (v != 0)
            self.bad(n, "call")
        if isinstance(n, ast.BinOp):
            l, r = self.ev(n.left), self.ev(n.right)
            return self.binop(n.op, l, r, n)
        if isinstance(n, ast.UnaryOp):
            v = self.ev(n.operand)
            if isinstance(n.op, ast.Not):
                return not self.truth(v, n)
            if isinstance(n.op, ast.USub):
                if isinstance(v, Fraction):
                    return -v
                if isinstance(v, Lin):
                    return Lin(-v.kr, -v.ky)
                if isinstance(v, AQ):
                    return AQ(-v.c, -v.s)
                if v in ("X", "NX"):
                    return "NX" if v == "X" else "X"
                if isinstance(v, AX):
                    return AX(-v.kq, -v.kr, -v.ky)
            self.bad(n, "unary")
        if isinstance(n, ast.BoolOp):
            if isinstance(n.op, ast.And):
                return all(self.truth(self.ev(e), e) for e in n.values)
            return any(self.truth(self.ev(e), e) for e in n.values)
        if isinstance(n, ast.Compare):
            left = self.ev(n.left)
            for op, c in zip(n.ops, n.comparators):
                right = self.ev(c)
                if not self.cmp(op, left, right, n):
                    return False
                left = right
            return True
        if isinstance(n, ast.IfExp):
            return self.ev(n.body) if self.truth(self.ev(n.test), n.test) else self.ev(n.orelse)
        if isinstance(n, ast.NamedExpr) and isinstance(n.target, ast.Name):
            v = self.ev(n.value)
            self.env[n.target.id] = v
            return v
        self.bad(n, "expression")

    depth = 0
    prog = None

    def resolve_func(self, fnode):
        """A called expression that denotes a repo function: a name (possibly imported), or an entry of a
        module-level dispatch table indexed by the rounding mode."""
        if isinstance(fnode, ast.Name):
            if fnode.id in self.env and isinstance(self.env[fnode.id], FuncRef):
                return self.env[fnode.id].fi
            if fnode.id in self.fi.module.functions:
                return self.fi.module.functions[fnode.id]
            # NAME = lru_cache(...)(function) / cache(function): the function (a memo of a pure function of its
            # arguments is that function; that it is pure is R13.6's / R00.memo's subject)
            e = self.fi.module.globals.get(fnode.id)
            if isinstance(e, ast.Call) and len(e.args) == 1 and isinstance(e.args[0], ast.Name) and not e.keywords:
                deco = e.func.func if isinstance(e.func, ast.Call) else e.func
                dn = deco.attr if isinstance(deco, ast.Attribute) else (deco.id if isinstance(deco, ast.Name) else "")
                if dn in ("lru_cache", "cache") and e.args[0].id in self.fi.module.functions:
                    return self.fi.module.functions[e.args[0].id]
            if self.prog is not None:
                r = self.prog.resolve_global(self.fi.module, fnode.id)
                if r and r[0] == "func":
                    return r[1]
            return None
        if isinstance(fnode, ast.Subscript):
            v = self.ev(fnode)
            return v.fi if isinstance(v, FuncRef) else None
        return None

    _members = None

    def member_names(self):
        if TableEval._members is None:
            TableEval._members = set(rounding_modes_from_dependency())
        return TableEval._members

    def _func_value(self, v, label):
        if isinstance(v, ast.Name):
            f = self.resolve_func(v)
            return FuncRef(f) if f is not None else None
        if isinstance(v, ast.Lambda):
            from .loader import FuncInfo
            return FuncRef(FuncInfo(f"<lambda {label}>", self.fi.module, None, _lambda_as_def(v), "function"))
        return None

    def module_table(self, name):
        """NAME = {ROUNDING.X: func | lambda, ...} at module level -> {mode name: FuncRef};
        NAME = ((ROUNDING.X, func | lambda), ...) -> [(Mode, FuncRef), ...]; NAME = dict(OTHER) -> as a dict."""
        e = self.fi.module.globals.get(name)
        if isinstance(e, ast.Call) and isinstance(e.func, ast.Name) and e.func.id == "dict" and len(e.args) == 1 \
                and isinstance(e.args[0], ast.Name) and not e.keywords:
            pairs = self.module_table(e.args[0].id)
            if isinstance(pairs, PairTable):
                return {m.name: f for m, f in pairs.rows}
            return pairs if isinstance(pairs, dict) else None
        if isinstance(e, (ast.Tuple, ast.List)) and e.elts and all(isinstance(x, ast.Tuple) and len(x.elts) == 2 for x in e.elts):
            rows = []
            for x in e.elts:
                ks = src_of(x.elts[0])
                fv = self._func_value(x.elts[1], ks)
                if not ks.startswith("ROUNDING.") or fv is None:
                    return None
                rows.append((Mode(ks.split(".")[1]), fv))
            return PairTable(rows)
        if not isinstance(e, ast.Dict):
            return None
        out = {}
        for k, v in zip(e.keys, e.values):
            ks = src_of(k) if k is not None else ""
            if not ks.startswith("ROUNDING."):
                return None
            if isinstance(v, ast.Name):
                f = self.resolve_func(v)
                if f is None:
                    return None
                out[ks.split(".")[1]] = FuncRef(f)
            elif isinstance(v, ast.Lambda):
                from .loader import FuncInfo
                out[ks.split(".")[1]] = FuncRef(FuncInfo(f"<lambda {ks}>", self.fi.module, None, _lambda_as_def(v), "function"))
            else:
                return None
        return out

    def inline(self, callee, args, kwargs, node):
        """Evaluate a module-level helper in the same abstract domain (extracted sub-expressions)."""
        a = callee.node.args
        params = [p.arg for p in a.args]
        defaults = [None] * (len(params) - len(a.defaults)) + list(a.defaults)
        saved_env, saved_fi = self.env, self.fi
        env = {}
        for i, p in enumerate(params):
            if i < len(args):
                env[p] = args[i]
            elif p in kwargs:
                env[p] = kwargs[p]
            elif defaults[i] is not None:
                env[p] = self.ev(defaults[i])
            else:
                self.bad(node, "helper call arity")
        self.env, self.fi = env, callee
        self.depth += 1
        try:
            try:
                self.block(callee.node.body)
            except Ret as r:
                return r.v
            return None
        finally:
            self.depth -= 1
            self.env, self.fi = saved_env, saved_fi

    def binop(self, op, l, r, n):
        if isinstance(l, bool):
            l = Fraction(int(l))
        if isinstance(r, bool):
            r = Fraction(int(r))
        if isinstance(l, Fraction) and isinstance(r, Fraction):
            if isinstance(op, ast.Add):
                return l + r
            if isinstance(op, ast.Sub):
                return l - r
            if isinstance(op, ast.Mult):
                return l * r
            if isinstance(op, ast.Mod) and r != 0:
                return Fraction(int(l) % int(r)) if l.denominator == 1 and r.denominator == 1 else self.bad(n)
            self.bad(n, "constant arithmetic")
        if isinstance(op, ast.Mult):
            if isinstance(l, Fraction) and isinstance(r, Lin):
                return Lin(l * r.kr, l * r.ky)
            if isinstance(r, Fraction) and isinstance(l, Lin):
                return Lin(r * l.kr, r * l.ky)
        if isinstance(op, (ast.Add, ast.Sub)):
            sg = 1 if isinstance(op, ast.Add) else -1
            if isinstance(l, Lin) and isinstance(r, Lin):
                return Lin(l.kr + sg * r.kr, l.ky + sg * r.ky)
            if isinstance(l, AQ) and isinstance(r, Fraction) and r.denominator == 1:
                return AQ(l.c + sg * int(r), l.s)
            if isinstance(r, AQ) and isinstance(l, Fraction) and l.denominator == 1:
                return AQ(int(l) + sg * r.c, sg * r.s)
        if isinstance(op, ast.Mult) and isinstance(l, AQ) and r == Fraction(-1):
            return AQ(-l.c, -l.s)
        if isinstance(op, ast.Mult) and isinstance(r, AQ) and l == Fraction(-1):
            return AQ(-r.c, -r.s)
        if isinstance(op, ast.Mod) and isinstance(l, AQ) and isinstance(r, Fraction) and r.denominator == 1:
            m = int(r)
            if m > 0 and self.modulus % m == 0:
                return Fraction((l.s * self.qclass[1] + l.c) % m)
        # x // y and x % y of the two parameters are the quotient and the remainder divmod would give
        if l == "X" and isinstance(r, Lin) and (r.kr, r.ky) == (0, 1):
            if isinstance(op, ast.FloorDiv):
                return AQ(0)
            if isinstance(op, ast.Mod):
                return Fraction(0) if self.rem_zero else Lin(1, 0)
        # x - quot * y is the remainder as well
        if isinstance(op, ast.Sub) and l == "X" and isinstance(r, tuple) and r[:1] == ("quot*y",):
            return Fraction(0) if self.rem_zero else Lin(1, 0)
        if isinstance(op, ast.Mult) and ((isinstance(l, AQ) and l.c == 0 and isinstance(r, Lin) and (r.kr, r.ky) == (0, 1)) or
                                         (isinstance(r, AQ) and r.c == 0 and isinstance(l, Lin) and (l.kr, l.ky) == (0, 1))):
            return ("quot*y",)
        # affine expressions in x (= quot*y + rem), rem and y, and their floor quotient by a multiple of y:
        # (kq*quot*y + kr*rem + ky*y) // (c*y) = (kq/c)*quot + floor((kr*t + ky)/c) with t = rem/y, which the cell
        # bounds (0 < t < 1/2, t = 1/2, 1/2 < t < 1; t = 0 for an exact quotient)
        if (l in ("X", "NX") or isinstance(l, AX) or r in ("X", "NX") or isinstance(r, AX)):
            la, ra = _as_ax(l), _as_ax(r)
            if isinstance(op, ast.Mult):
                if isinstance(l, Fraction) and ra is not None:
                    return AX(l * ra.kq, l * ra.kr, l * ra.ky)
                if isinstance(r, Fraction) and la is not None:
                    return AX(r * la.kq, r * la.kr, r * la.ky)
            if isinstance(op, (ast.Add, ast.Sub)) and la is not None and ra is not None:
                sg = 1 if isinstance(op, ast.Add) else -1
                return AX(la.kq + sg * ra.kq, la.kr + sg * ra.kr, la.ky + sg * ra.ky)
            if isinstance(op, ast.FloorDiv) and la is not None and isinstance(r, Lin) and r.kr == 0 and r.ky != 0:
                c = r.ky
                if c < 0:       # a // (-c*y) = (-a) // (c*y)
                    la, c = AX(-la.kq, -la.kr, -la.ky), -c
                kq = la.kq / c
                if kq.denominator == 1 and kq in (1, -1, 0):
                    fl = self.floor_of_affine(la.kr / c, la.ky / c, n)
                    if fl is not None:
                        return AQ(fl, int(kq)) if kq != 0 else Fraction(fl)
        # quot // m: how many times m goes into the quotient is nothing the modes are defined by, and nothing a cell
        # determines; comparisons of it are followed both ways (a result that then differs makes the cell ambiguous)
        if isinstance(op, ast.FloorDiv) and isinstance(l, AQ) and isinstance(r, Fraction) and r.denominator == 1 and r > 1:
            return Unk()
        # (quot + c) compared / combined with small integers is handled in cmp(); bit test of the parity
        if isinstance(op, ast.BitAnd) and isinstance(l, AQ) and r == Fraction(1):
            return Fraction((l.s * self.qclass[1] + l.c) % 2)
        self.bad(n, "arithmetic")

    def floor_of_affine(self, a: Fraction, b: Fraction, node):
        """floor(a*t + b) for t = rem/y in the cell, when the cell determines it (else None)."""
        import math
        if self.rem_zero:
            return math.floor(b)
        if self.cmp2 == 0:
            return math.floor(a / 2 + b)
        lo, hi = (Fraction(0), Fraction(1, 2)) if self.cmp2 < 0 else (Fraction(1, 2), Fraction(1))
        g0, g1 = a * lo + b, a * hi + b
        mn, mx = min(g0, g1), max(g0, g1)
        if mn == mx:
            return math.floor(mn)
        # constant on the open interval iff no integer lies strictly inside (mn, mx)
        first_int_above = math.floor(mn) + 1
        if first_int_above < mx:
            return None
        return math.floor((mn + mx) / 2)

    def x_sign(self) -> int:
        """Sign of x = quot*y + rem under y > 0, 0 <= rem < y."""
        sign = self.qclass[0]
        if sign in ("<=-2", "-1"):
            return -1
        if sign == "0":
            return 0 if self.rem_zero else 1
        return 1

    def quot_value_class(self, c: int):
        """Possible integer values of quot + c as (lo, hi) inclusive bounds (None = unbounded)."""
        sign = self.qclass[0]
        lo, hi = {"<=-2": (None, -2), "-1": (-1, -1), "0": (0, 0), "1": (1, 1), ">=2": (2, None)}[sign]
        return (None if lo is None else lo + c, None if hi is None else hi + c)

    def lin_sign(self, v: Lin, node) -> int:
        """Sign of kr*rem + ky*y under y > 0, 0 < rem < y and the case's cmp(2 rem, y)."""
        kr, ky = v.kr, v.ky
        if kr == 0 and ky == 0:
            return 0
        if self.cmp2 == 0:
            f = kr / 2 + ky
            return (f > 0) - (f < 0)
        lo, hi = (Fraction(0), Fraction(1, 2)) if self.cmp2 < 0 else (Fraction(1, 2), Fraction(1))
        a, b = kr * lo + ky, kr * hi + ky
        if a >= 0 and b >= 0 and (a > 0 or b > 0):
            return 1
        if a <= 0 and b <= 0 and (a < 0 or b < 0):
            return -1
        # not decided by the cell: the helper looks at something the definitions of the modes do not depend on.
        # Both outcomes are followed (decision_table runs the cell once per combination); if they end differently
        # the helper is not a function of the cell and cannot equal the reference on all of it.
        return self.undecided()

    def undecided(self) -> int:
        k = len(self.taken)
        choice = self.forced[k] if k < len(self.forced) else 0
        self.taken.append(choice)
        return (-1, 1)[choice]

    def cmp(self, op, l, r, node) -> bool:
        opn = type(op).__name__
        if opn in ("In", "NotIn") and isinstance(r, tuple):
            hit = any(self.cmp(ast.Eq(), l, x, node) for x in r)
            return hit if opn == "In" else not hit
        if isinstance(l, str) and l.endswith("-class") and isinstance(r, str) and r.endswith("-class"):
            if opn in ("Eq", "Is"):
                return l == r
            if opn in ("NotEq", "IsNot"):
                return l != r
        if isinstance(l, FuncRef) or isinstance(r, FuncRef):
            same = (l is r) or (isinstance(l, FuncRef) and isinstance(r, FuncRef) and l.fi is r.fi)
            if opn in ("Eq", "Is"):
                return same
            if opn in ("NotEq", "IsNot"):
                return not same
        if isinstance(l, Mode) or isinstance(r, Mode) or l is None or r is None:
            if opn in ("Eq", "Is"):
                return self.same_mode(l, r)
            if opn in ("NotEq", "IsNot"):
                return not self.same_mode(l, r)
            self.bad(node, "mode comparison")
        d = None
        if isinstance(l, Unk) or isinstance(r, Unk):
            if not isinstance(l if isinstance(r, Unk) else r, (Fraction, Unk)):
                self.bad(node, "comparison operands")
            s = self.undecided()
        elif isinstance(l, Fraction) and isinstance(r, Fraction):
            d = l - r
            s = (d > 0) - (d < 0)
        elif isinstance(l, (Lin, Fraction)) and isinstance(r, (Lin, Fraction)) and \
                (isinstance(l, Lin) or isinstance(r, Lin)):
            if isinstance(l, Fraction):
                if l != 0:
                    self.bad(node, "rem/y against a non-zero constant")
                l = Lin(0, 0)
            if isinstance(r, Fraction):
                if r != 0:
                    self.bad(node, "rem/y against a non-zero constant")
                r = Lin(0, 0)
            s = self.lin_sign(Lin(l.kr - r.kr, l.ky - r.ky), node)
        elif isinstance(l, AQ) and isinstance(r, Fraction) and r.denominator == 1:
            s = self.aq_sign(l.c - int(r), node, l.s)
        elif isinstance(r, AQ) and isinstance(l, Fraction) and l.denominator == 1:
            s = -self.aq_sign(r.c - int(l), node, r.s)
        elif l in ("X", "NX") and r == Fraction(0):
            s = self.x_sign() * (1 if l == "X" else -1)
        elif r in ("X", "NX") and l == Fraction(0):
            s = -self.x_sign() * (1 if r == "X" else -1)
        elif isinstance(l, bool) and isinstance(r, bool):
            s = int(l) - int(r)
        else:
            self.bad(node, "comparison operands")
        return {"Eq": s == 0, "NotEq": s != 0, "Lt": s < 0, "LtE": s <= 0, "Gt": s > 0, "GtE": s >= 0}.get(opn) \
            if opn in ("Eq", "NotEq", "Lt", "LtE", "Gt", "GtE") else self.bad(node, "operator")

    def aq_sign(self, c: int, node, sgn: int = 1) -> int:
        """Sign of sgn*quot + c."""
        if sgn == -1:
            lo0, hi0 = self.quot_value_class(0)
            lo = None if hi0 is None else -hi0 + c
            hi = None if lo0 is None else -lo0 + c
        else:
            lo, hi = self.quot_value_class(c)
        if lo is not None and lo > 0:
            return 1
        if hi is not None and hi < 0:
            return -1
        if lo == 0 and hi == 0:
            return 0
        self.bad(node, "sign of the shifted quotient is not determined by the quotient class")

    def same_mode(self, a, b) -> bool:
        if a is None or b is None:
            return a is None and b is None
        if isinstance(a, Mode) and isinstance(b, Mode):
            return a.name == b.name
        return False

    def truth(self, v, node) -> bool:
        if isinstance(v, bool):
            return v
        if v is None:
            return False
        if isinstance(v, Fraction):
            return v != 0
        if isinstance(v, (Mode, FuncRef)):
            return True
        if isinstance(v, dict):
            return bool(v)
        self.bad(node, "truth value")


def decision_table(fi: FuncInfo, modes: List[str], prog=None):
    """Yield (mode, how, qclass, cmp2, outcome) for every cell."""
    L = residue_modulus(fi, prog)
    for mode in modes:
        for how in ("explicit", "default"):
            for qc in quotient_classes(L):
                for cmp2 in (-1, 0, 1):
                    outs, todo = [], [[]]
                    while todo and len(outs) < 16:
                        forced = todo.pop()
                        ev = TableEval(fi, mode if how == "explicit" else None,
                                       mode if how == "default" else "ROUND_HALF_EVEN", qc, cmp2, prog=prog, modulus=L)
                        ev.forced = forced
                        outs.append(ev.run())
                        if len(ev.taken) > len(forced):
                            # a comparison beyond the prescribed ones was undecided: follow its other outcome as well
                            todo.append(list(ev.taken[:len(forced)]) + [1])
                    first = outs[0]
                    if any(repr(o_) != repr(first) for o_ in outs[1:]):
                        yield mode, how, qc, cmp2, ("ambiguous", [repr(o_) for o_ in outs])
                    else:
                        yield mode, how, qc, cmp2, first
