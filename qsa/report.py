"""Obligations, findings, known-findings matching and evidence files."""
from __future__ import annotations

import json
import os
import time
from typing import Dict, List, Optional

VERIF = os.path.dirname(os.path.dirname(os.path.abspath(__file__)))
KNOWN_FILE = os.path.join(VERIF, "known_findings.json")


class Violation:
    def __init__(self, rule, site, case, sig, detail="", path=None):
        self.rule = rule
        self.site = site
        self.case = case
        self.sig = sig
        self.detail = detail
        self.path = path or []

    def key(self):
        return (self.rule, self.site, self.case, self.sig)

    def as_dict(self):
        return {"rule": self.rule, "site": self.site, "case": self.case, "signature": self.sig,
                "detail": self.detail, "path": self.path}


class Result:
    def __init__(self, prop: str):
        self.prop = prop
        self.obligations = 0
        self.discharged = 0
        self.evaluations = 0
        self.nontrivial_keys = set()
        self.violations: List[Violation] = []
        self.samples: List[dict] = []
        self.functions = set()
        self.paths = 0
        self.rules: Dict[str, int] = {}
        self.assumptions: List[str] = []
        self.trusted: List[str] = []
        self.notes: List[str] = []
        self.min_counts: Dict[str, int] = {}
        self.explanation = ""
        self.exhaustive = False
        self.extra: Dict[str, object] = {}

    def ob(self, rule, site, case, ok: bool, detail="", sig=None, path=None, nontrivial=True,
           sample=None, evaluations=1):
        """Record one obligation (rule instance at a site for a case)."""
        self.obligations += 1
        self.evaluations += evaluations
        self.rules[rule] = self.rules.get(rule, 0) + 1
        if nontrivial:
            self.nontrivial_keys.add((rule, site, case))
        if ok:
            self.discharged += 1
        else:
            self.violations.append(Violation(rule, site, case, sig or "violated", detail, path))
        if sample is not None and len(self.samples) < 12:
            self.samples.append(sample)
        elif len(self.samples) < 4:
            self.samples.append({"rule": rule, "site": site, "case": case, "ok": ok,
                                 "detail": str(detail)[:300]})

    def require(self, rule: str, n: int):
        """Minimum instance count confirmed by hand on the pinned tree."""
        self.min_counts[rule] = n


def load_known() -> List[dict]:
    if not os.path.exists(KNOWN_FILE):
        return []
    with open(KNOWN_FILE, encoding="utf-8") as fh:
        return json.load(fh)["findings"]


def match_known(prop: str, v: Violation, known: List[dict]) -> Optional[dict]:
    for k in known:
        if k.get("status") != "known":
            continue
        if prop not in ([k["property"]] + k.get("also", [])):
            continue
        if k["rule"] != v.rule or k["site"] != v.site:
            continue
        if k.get("case") not in (None, v.case):
            continue
        if k.get("signature") not in (None, v.sig):
            continue
        return k
    return None


def finish(res: Result, tier: str, seed: int, t0: float, technique: str) -> int:
    """Print report, write evidence, return exit code."""
    from .loader import AnalysisError
    known = load_known()
    new: List[Violation] = []
    seen_known = {}
    seen = set()
    for v in res.violations:
        if v.key() in seen:
            continue
        seen.add(v.key())
        k = match_known(res.prop, v, known)
        if k is not None:
            seen_known.setdefault(k["id"], (k, v))
        else:
            new.append(v)
    if not new:
        # a rule that matched fewer instances than confirmed by hand passes vacuously: fail closed
        for rule, n in res.min_counts.items():
            got = res.rules.get(rule, 0)
            if got < n:
                raise AnalysisError(f"rule {rule}: {got} instances analysed, at least {n} were confirmed on the "
                                    f"pinned tree (anchor vanished?)")
    print(f"[{res.prop}] tier={tier} functions={len(res.functions)} paths={res.paths} "
          f"obligations={res.obligations} discharged={res.discharged} "
          f"rules={json.dumps(res.rules, sort_keys=True)}")
    for kid, (k, v) in sorted(seen_known.items()):
        print(f"KNOWN-FINDING: property={res.prop} {k['id']} {v.rule} {v.site} [{v.case}] {k['what']}")
    out_dir = os.path.join(VERIF, "out")
    os.makedirs(out_dir, exist_ok=True)
    code = 0
    if new:
        code = 1
        rp = os.path.join(out_dir, f"{res.prop}.{tier}.violation.json")
        if os.environ.get("QSA_NO_EVIDENCE"):
            rp = os.path.join(out_dir, f"audit.{os.getpid()}.{res.prop}.violation.json")
        with open(rp, "w", encoding="utf-8") as fh:
            json.dump({"property": res.prop, "tier": tier,
                       "violations": [v.as_dict() for v in new]}, fh, indent=1, ensure_ascii=False)
        for v in new:
            print(f"  violated {v.rule} at {v.site} case [{v.case}]: {v.sig}")
            if v.detail:
                print(f"      {str(v.detail)[:600]}")
            for step in v.path[:14]:
                print(f"        path: {step}")
        print(f"VIOLATION property={res.prop} replay={rp}")
    ev = {
        "property_id": res.prop,
        "tier": tier,
        "seed": seed,
        "level": "other",
        "coverage": {
            "explanation": res.explanation,
            "obligations": res.obligations,
            "discharged": res.discharged,
            "evaluations": res.evaluations,
            "distinct_nontrivial": len(res.nontrivial_keys),
            "rule": "one obligation = one rule instance (rule, qualified function or data row, operand-kind "
                    "case); distinct_nontrivial counts distinct (rule, site, case) triples whose verdict "
                    "needed abstract evaluation or table comparison rather than a presence test; "
                    "evaluations counts explored paths / table cells",
            "samples": res.samples[:12],
            "rules": res.rules,
            "functions_analysed": sorted(res.functions),
            "paths": res.paths,
            "exhaustive": res.exhaustive,
            "checker_cmd": f"bin/vcheck {res.prop} --tier {tier}",
            "trusted_base": res.trusted,
            "technique": technique,
            "known_findings_reproduced": sorted(seen_known),
            "notes": res.notes[:40],
            **res.extra,
        },
        "assumptions": res.assumptions,
        "wall_s": round(time.time() - t0, 3),
        "violations": len(new),
    }
    if os.environ.get("QSA_NO_EVIDENCE"):
        return code
    ev_dir = os.path.join(VERIF, "evidence")
    os.makedirs(ev_dir, exist_ok=True)
    with open(os.path.join(ev_dir, f"{res.prop}.json"), "w", encoding="utf-8") as fh:
        json.dump(ev, fh, indent=1, ensure_ascii=False, default=str)
    return code
