"""Engine A driver: run one function on one operand-kind case, all paths."""
from __future__ import annotations

from typing import Callable, List

from .interp import Interp, Outcome, SetupVerdict, explore
from .loader import FuncInfo, Program
from .models2 import FullModels
from .poly import RF
from .values import *  # noqa: F401,F403


class Ctx:
    """Helper handed to case set-ups to build symbolic operands."""

    def __init__(self, st: State, models: FullModels):
        self.st = st
        self.m = models

    def new_type(self, tid, **attrs):
        return self.st.new_type(tid, **attrs)

    def unit(self, uid, tid, kind=None) -> UnitV:
        return UnitV(self.st.new_unit(tid, uid=uid, kind=kind))

    def qty(self, name, unit: UnitV, kind="exact") -> QtyV:
        return QtyV(Num(RF.atom(("a", name)), kind), unit, self.st.unit_type(unit.uid), name=name)

    def num(self, name, kind) -> Num:
        return Num(RF.atom(("k", name)), kind)

    def cls(self, tid) -> ClsV:
        return ClsV(tid)

    def rate(self, name, unit: UnitV, term: UnitV) -> RateV:
        return RateV(unit, term, Num(RF.atom(("um", name)), "dec"), Num(RF.atom(("ta", name)), "dec"), name=name)


FLAVORS = {
    "ref": dict(has_ref=True, has_quantum=False, money=False),
    "ref+quantum": dict(has_ref=True, has_quantum=True, money=False),
    "noref": dict(has_ref=False, has_quantum=False, money=False),
    "money": dict(money=True),
}


def dynamic_method(prog: Program, st, fi: FuncInfo, args):
    """Dynamic dispatch of the analysed entry point: a method named through Quantity / Unit / QuantityMeta is looked
    up on the class the receiver actually has (Money / Currency / MoneyMeta for money types), so that an override in
    the subclass is what gets evaluated."""
    if fi.cls is None or not args or fi.kind in ("static",):
        return fi
    recv = args[0]
    dyn = None
    try:
        if isinstance(recv, QtyV) and st.T(recv.tid).money is True:
            dyn = "Money"
        elif isinstance(recv, UnitV) and st.T(st.unit_type(recv.uid)).money is True:
            dyn = "Currency"
        elif isinstance(recv, ClsV) and st.T(recv.tid).money is True and not st.T(recv.tid).generic:
            dyn = "MoneyMeta"
    except Exception:
        return fi
    if dyn is None or not prog.has_cls(dyn):
        return fi
    dci = prog.cls(dyn)
    if not prog.is_subclass(dci, fi.cls.name) or dci is fi.cls:
        return fi
    over = prog.lookup(dci, fi.name)
    return over if over is not None and over.node is not None else fi


def value_snapshot(st, v, depth=0, strict=False):
    """Comparable picture of a result: what it denotes (strict: and how it is represented - which unit, which
    amount), down to the objects it holds."""
    if depth > 6:
        return "..."
    if strict:
        if isinstance(v, QtyV):
            return ("qty", st.tfind(v.tid) if v.tid is not None else None,
                    st.ufind(v.unit.uid) if isinstance(v.unit, UnitV) else repr(v.unit),
                    repr(st.norm(v.amount.rf)) if isinstance(v.amount, Num) else repr(v.amount))
        if isinstance(v, RateV):
            return ("rate", st.ufind(v.unit.uid), st.ufind(v.term.uid), repr(st.norm(v.um.rf)), repr(st.norm(v.ta.rf)))
        if isinstance(v, (TupleV, ListV)):
            items = getattr(v, "items", None)
            return (type(v).__name__, tuple(value_snapshot(st, x, depth + 1, True) for x in items) if items is not None else "?")
        if type(v).__name__ == "ObjV":
            return ("obj", v.ci.name if v.ci is not None else None,
                    tuple(sorted((k, value_snapshot(st, x, depth + 1, True)) for k, x in v.fields.items())))
        if type(v).__name__ == "DictV":
            return ("dict", tuple((value_snapshot(st, k, depth + 1, True), value_snapshot(st, x, depth + 1, True))
                                  for k, x in v.items))
    if isinstance(v, Num):
        return ("num", repr(st.norm(v.rf)))
    if isinstance(v, QtyV):
        tid = st.tfind(v.tid) if v.tid is not None else None
        if isinstance(v.amount, Num) and isinstance(v.unit, UnitV) and tid is not None and st.U(v.unit.uid).mu is not None:
            # by value: the type and the exact amount in reference units (1 km and 1000 m are one result)
            # (for quantized types: the exact value that was rounded, how often, and under which ambient state)
            return ("qty", tid, "value", repr(st.norm(st.expand_rnd(v.amount.rf) * st.U(v.unit.uid).mu)),
                    st.rnd_depth(v.amount.rf), st.rnd_epochs(v.amount.rf))
        return ("qty", tid, st.ufind(v.unit.uid) if isinstance(v.unit, UnitV) else repr(v.unit),
                repr(st.norm(v.amount.rf)) if isinstance(v.amount, Num) else repr(v.amount))
    if isinstance(v, UnitV):
        return ("unit", st.ufind(v.uid))
    if isinstance(v, ClsV):
        return ("cls", st.tfind(v.tid))
    if isinstance(v, RateV):
        # by value: the quotation (amount per multiple, as rounded) between the two currencies
        return ("rate", st.ufind(v.unit.uid), st.ufind(v.term.uid), repr(st.norm(st.expand_rnd(v.ta.rf) / v.um.rf)),
                st.rnd_depth(v.ta.rf), st.rnd_epochs(v.ta.rf))
    if isinstance(v, TupleV) and len(v.items) == 2 and isinstance(v.items[0], Num) and isinstance(v.items[1], UnitV):
        # (factor, unit): the scaled unit it denotes
        tid = st.tfind(st.unit_type(v.items[1].uid))
        if st.U(v.items[1].uid).mu is not None:
            return ("scaled unit", tid, repr(st.norm(v.items[0].rf * st.U(v.items[1].uid).mu)))
    if isinstance(v, (TupleV, ListV)):
        items = getattr(v, "items", None)
        return (type(v).__name__, tuple(value_snapshot(st, x, depth + 1) for x in items) if items is not None else "?")
    if isinstance(v, StrV):
        return ("str", v.const if v.const is not None else v.tag)
    if isinstance(v, BoolV):
        return ("bool", v.val)
    if isinstance(v, NoneV):
        return ("none",)
    if isinstance(v, EnumV):
        return ("enum", v.cls, v.member, getattr(v, "origin", None))
    if isinstance(v, TermV):
        return ("term", repr(st.norm(v.mag)), tuple(sorted((st.tfind(k), e) for k, e in v.dims.items() if e != (0, 0))))
    if isinstance(v, DateV):
        return ("date",) + tuple(repr(st.norm(x.rf)) for x in (v.y, v.m, v.d))
    if type(v).__name__ == "ObjV":
        return ("obj", v.ci.name if v.ci is not None else None,
                tuple(sorted((k, value_snapshot(st, x, depth + 1)) for k, x in v.fields.items())))
    if type(v).__name__ == "DictV":
        return ("dict", tuple((value_snapshot(st, k, depth + 1), value_snapshot(st, x, depth + 1)) for k, x in v.items))
    if type(v).__name__ == "CmpV":
        return ("cmp", v.op, value_snapshot(st, v.l, depth + 1), value_snapshot(st, v.r, depth + 1))
    return ("opaque", type(v).__name__, getattr(v, "tag", None))


def _freeze(v, depth=0):
    """A structural copy of a result (same numbers, units and elements, new containers and objects): what it was
    when it was handed out, to be compared later under whatever the path has learnt since."""
    import copy as _copy
    if depth > 6:
        return v
    if isinstance(v, QtyV):
        c = _copy.copy(v)
        return c
    if isinstance(v, (TupleV, ListV)) and getattr(v, "items", None) is not None:
        c = _copy.copy(v)
        c.items = [_freeze(x, depth + 1) for x in v.items]
        return c
    if type(v).__name__ == "ObjV":
        c = _copy.copy(v)
        c.fields = {k: _freeze(x, depth + 1) for k, x in v.fields.items()}
        return c
    if type(v).__name__ == "DictV":
        c = _copy.copy(v)
        c.items = [(_freeze(k, depth + 1), _freeze(x, depth + 1)) for k, x in v.items]
        return c
    return v


def _outcome_snapshot(st, kind, value, exc, strict=False):
    if kind == "raise":
        return ("raise", exc.name, getattr(exc, "tag", None))
    return ("return", value_snapshot(st, value, 0, strict))


def run_case(prog: Program, fi: FuncInfo, setup: Callable, *, inline_ctor=False,
             inline_rate_ctor=False, max_depth=10, cache_hits=False, replay=None, path_cap=None) -> List[Outcome]:
    """replay: None - one call; "same" - the call is made twice in the same state (what the first call memoised is
    there for the second, which is the one returned and judged); "epoch" - between the two calls the ambient state
    changes (default rounding mode, directories may have grown), and the judged call is followed by a third one for
    which everything memoised in process-global maps and by decorators is forgotten (recomputation in the current
    state).  The pictures of the calls are left on the outcome (`first`, `first_after`, `second`, `cold`)."""
    def run(oracle):
        st = State(oracle)
        models = FullModels(inline_ctor=inline_ctor, inline_rate_ctor=inline_rate_ctor,
                            cache_hits=cache_hits)
        interp = Interp(prog, st, models, max_depth=max_depth)
        ctx = Ctx(st, models)
        try:
            args, kwargs = setup(ctx)
        except SetupVerdict as sv:
            out = Outcome("setup-verdict", state=st)
            out.verdict = (sv.sig, sv.detail)
            out.args, out.kwargs, out.ctx = [], {}, ctx
            return out
        target = dynamic_method(prog, st, fi, args)

        if replay:
            st.oracle.sticky = {}

        def call():
            st.oracle.begin_call()
            try:
                return "return", interp.call_function(target, args, kwargs), None
            except AbsRaise as ar:
                return "raise", None, ar.exc
        first = first_value = None
        if replay:
            k1, v1, e1 = call()
            first, first_value = _outcome_snapshot(st, k1, v1, e1, strict=True), v1
            first_frozen = _freeze(v1) if k1 == "return" else None
            st.prior_effects.extend(st.effects)
            st.effects[:] = []
            st.oracle.trace.append("-- the call is repeated" + (" after the ambient state changed" if replay == "epoch" else ""))
            if replay == "epoch":
                st.bump_epoch()
        k, v, e = call()
        out = Outcome(k, value=v, exc=e, state=st)
        if replay:
            out.replay = replay
            out.first = first
            second_frozen = _freeze(v) if k == "return" else None
            if replay == "epoch":
                st.memo_hidden = True
                st.oracle.trace.append("-- recomputation with nothing memoised")
                saved = list(st.effects)
                st.cold_mark = len(st.effects)
                k3, v3, e3 = call()
                out.cold = _outcome_snapshot(st, k3, v3, e3)
                st.effects[:] = saved
                st.memo_hidden = False
            out.second = _outcome_snapshot(st, k, second_frozen, e, strict=(replay == "same"))
            # (all pictures are taken now, under everything the path has learnt: only a change of the objects
            # themselves makes the two pictures of the first result differ)
            out.first_was = _outcome_snapshot(st, "return", first_frozen, None, strict=True) if first[0] == "return" else first
            out.first_after = _outcome_snapshot(st, "return", first_value, None, strict=True) if first[0] == "return" else first
        out.args = args
        out.kwargs = kwargs
        out.ctx = ctx
        return out
    return explore(run, cap=path_cap)


def run_body(prog: Program, body: Callable, *, inline_ctor=False, inline_rate_ctor=False,
             max_depth=10) -> List[Outcome]:
    """Like run_case, but `body(interp, ctx)` drives several calls on one path state."""
    def run(oracle):
        st = State(oracle)
        models = FullModels(inline_ctor=inline_ctor, inline_rate_ctor=inline_rate_ctor)
        interp = Interp(prog, st, models, max_depth=max_depth)
        ctx = Ctx(st, models)
        from .interp import Frame
        interp.frames.append(Frame(None, prog.modules["quantity"], None, {}))
        try:
            v = body(interp, ctx)
            out = Outcome("return", value=v, state=st)
        except AbsRaise as ar:
            out = Outcome("raise", exc=ar.exc, state=st)
        except SetupVerdict as sv:
            out = Outcome("setup-verdict", state=st)
            out.verdict = (sv.sig, sv.detail)
        finally:
            interp.frames.pop()
        out.args = []
        out.kwargs = {}
        out.ctx = ctx
        return out
    return explore(run)
