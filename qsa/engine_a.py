"""Engine A driver: run one function on one operand-kind case, all paths."""
from __future__ import annotations

from typing import Callable, List

from .interp import Interp, Outcome, SetupVerdict, explore
from .loader import FuncInfo, Program
from .models2 import FullModels
from .poly import RF
from .values import *  # noqa: F401,F403


class Ctx:
    """Helper handed to case set-ups to build symbolic operands."""

    def __init__(self, st: State, models: FullModels):
        self.st = st
        self.m = models

    def new_type(self, tid, **attrs):
        return self.st.new_type(tid, **attrs)

    def unit(self, uid, tid, kind=None) -> UnitV:
        return UnitV(self.st.new_unit(tid, uid=uid, kind=kind))

    def qty(self, name, unit: UnitV, kind="exact") -> QtyV:
        return QtyV(Num(RF.atom(("a", name)), kind), unit, self.st.unit_type(unit.uid), name=name)

    def num(self, name, kind) -> Num:
        return Num(RF.atom(("k", name)), kind)

    def cls(self, tid) -> ClsV:
        return ClsV(tid)

    def rate(self, name, unit: UnitV, term: UnitV) -> RateV:
        return RateV(unit, term, Num(RF.atom(("um", name)), "dec"), Num(RF.atom(("ta", name)), "dec"), name=name)


FLAVORS = {
    "ref": dict(has_ref=True, has_quantum=False, money=False),
    "ref+quantum": dict(has_ref=True, has_quantum=True, money=False),
    "noref": dict(has_ref=False, has_quantum=False, money=False),
    "money": dict(money=True),
}


def dynamic_method(prog: Program, st, fi: FuncInfo, args):
    """Dynamic dispatch of the analysed entry point: a method named through Quantity / Unit / QuantityMeta is looked
    up on the class the receiver actually has (Money / Currency / MoneyMeta for money types), so that an override in
    the subclass is what gets evaluated."""
    if fi.cls is None or not args or fi.kind in ("static",):
        return fi
    recv = args[0]
    dyn = None
    try:
        if isinstance(recv, QtyV) and st.T(recv.tid).money is True:
            dyn = "Money"
        elif isinstance(recv, UnitV) and st.T(st.unit_type(recv.uid)).money is True:
            dyn = "Currency"
        elif isinstance(recv, ClsV) and st.T(recv.tid).money is True and not st.T(recv.tid).generic:
            dyn = "MoneyMeta"
    except Exception:
        return fi
    if dyn is None or not prog.has_cls(dyn):
        return fi
    dci = prog.cls(dyn)
    if not prog.is_subclass(dci, fi.cls.name) or dci is fi.cls:
        return fi
    over = prog.lookup(dci, fi.name)
    return over if over is not None and over.node is not None else fi


def run_case(prog: Program, fi: FuncInfo, setup: Callable, *, inline_ctor=False,
             inline_rate_ctor=False, max_depth=10, cache_hits=False) -> List[Outcome]:
    def run(oracle):
        st = State(oracle)
        models = FullModels(inline_ctor=inline_ctor, inline_rate_ctor=inline_rate_ctor,
                            cache_hits=cache_hits)
        interp = Interp(prog, st, models, max_depth=max_depth)
        ctx = Ctx(st, models)
        try:
            args, kwargs = setup(ctx)
        except SetupVerdict as sv:
            out = Outcome("setup-verdict", state=st)
            out.verdict = (sv.sig, sv.detail)
            out.args, out.kwargs, out.ctx = [], {}, ctx
            return out
        target = dynamic_method(prog, st, fi, args)
        try:
            v = interp.call_function(target, args, kwargs)
            out = Outcome("return", value=v, state=st)
        except AbsRaise as ar:
            out = Outcome("raise", exc=ar.exc, state=st)
        out.args = args
        out.kwargs = kwargs
        out.ctx = ctx
        return out
    return explore(run)


def run_body(prog: Program, body: Callable, *, inline_ctor=False, inline_rate_ctor=False,
             max_depth=10) -> List[Outcome]:
    """Like run_case, but `body(interp, ctx)` drives several calls on one path state."""
    def run(oracle):
        st = State(oracle)
        models = FullModels(inline_ctor=inline_ctor, inline_rate_ctor=inline_rate_ctor)
        interp = Interp(prog, st, models, max_depth=max_depth)
        ctx = Ctx(st, models)
        from .interp import Frame
        interp.frames.append(Frame(None, prog.modules["quantity"], None, {}))
        try:
            v = body(interp, ctx)
            out = Outcome("return", value=v, state=st)
        except AbsRaise as ar:
            out = Outcome("raise", exc=ar.exc, state=st)
        except SetupVerdict as sv:
            out = Outcome("setup-verdict", state=st)
            out.verdict = (sv.sig, sv.detail)
        finally:
            interp.frames.pop()
        out.args = []
        out.kwargs = {}
        out.ctx = ctx
        return out
    return explore(run)
