"""Engine A semantic models: attribute/field access summarised from the repo's
write sites, dunder dispatch, numeric kinds, the Term abstract data type, the
directories, and constructor summaries (each summary is verified against the
constructor's own body by a dedicated contract, see contracts K11 / K15)."""
from __future__ import annotations

import ast
from fractions import Fraction
from typing import Dict, List, Optional

from .loader import FuncInfo, src_of
from .poly import RF, PolyError
from .values import *  # noqa: F401,F403
from .loader import AnalysisError
from .interp import Interp

N_ATOM = ("n",)

QTY_META = ("QuantityMeta", "MoneyMeta")

_OPSYM = {ast.Add: "+", ast.Sub: "-", ast.Mult: "*", ast.Div: "/", ast.Pow: "**",
          ast.FloorDiv: "//", ast.Mod: "%", ast.LShift: "<<"}
_DUNDER = {ast.Add: "add", ast.Sub: "sub", ast.Mult: "mul", ast.Div: "truediv",
           ast.Pow: "pow", ast.FloorDiv: "floordiv", ast.Mod: "mod"}
_CMPSYM = {ast.Eq: "==", ast.NotEq: "!=", ast.Lt: "<", ast.LtE: "<=", ast.Gt: ">", ast.GtE: ">="}
_CMPDUNDER = {ast.Eq: "__eq__", ast.Lt: "__lt__", ast.LtE: "__le__", ast.Gt: "__gt__",
              ast.GtE: "__ge__", ast.NotEq: "__ne__"}
_REFLECT = {"__lt__": "__gt__", "__gt__": "__lt__", "__le__": "__ge__", "__ge__": "__le__",
            "__eq__": "__eq__", "__ne__": "__ne__"}


class NativeV(V):
    def __init__(self, fn, name="native"):
        self.fn = fn
        self.name = name

    def __repr__(self):
        return f"Native<{self.name}>"


class HashV(V):
    def __init__(self, arg):
        self.arg = arg

    def __repr__(self):
        return f"hash({self.arg!r})"


def is_exact_kind(k):
    return k in ("int", "bool", "dec", "frac", "exact")


class Models:
    def __init__(self, inline_ctor=False, inline_rate_ctor=False, cache_hits=False):
        self.inline_ctor = inline_ctor
        self.inline_rate_ctor = inline_rate_ctor
        self.cache_hits = cache_hits
        self.I: Interp = None

    def bind(self, interp):
        self.I = interp
        self.st: State = interp.st
        self.prog = interp.prog
        self.dim_types: Dict[tuple, str] = {}

    # =============================================================== helpers
    def flag(self, kind, node, detail=""):
        fr = self.I.frames[-1] if self.I.frames else None
        where = fr.fi.qualname if fr and fr.fi else "?"
        self.st.flags.append((kind, where, src_of(node) if isinstance(node, ast.AST) else str(node), detail))

    def num_const(self, c, kind="int"):
        return Num(RF.const(c), kind)

    def ufn(self, name, arg: RF) -> RF:
        arg = self.st.norm(arg)
        key = (name, arg.key())
        n = self.st.rnd_index.get(key)
        if n is None:
            n = len(self.st.rnd_args) + 1
            self.st.rnd_index[key] = n
            self.st.rnd_args[n] = arg
        return RF.atom(("fn", name, n))

    def fresh_num(self, tag, kind="exact") -> Num:
        return Num(RF.atom(("sym", self.st.fresh(tag))), kind)

    def exp_of(self, v: Num, node):
        """Exponent (c0, c1) of an integer-valued Num: const or linear in n."""
        rf = self.st.norm(v.rf)
        if rf.is_const():
            c = rf.const_value()
            if c.denominator != 1:
                self.I.unsupported(node, "non-integer exponent")
            return (int(c), 0)
        # c0 + c1*n
        if rf.d.is_const():
            c0 = c1 = Fraction(0)
            ok = True
            for m, c in rf.n.t.items():
                c = c / rf.d.const_value()
                if m == ():
                    c0 = c
                elif len(m) == 1 and m[0][1] == (1, 0) and v.kind in ("int", "bool") and \
                        (m[0][0] == N_ATOM or getattr(self.st, "exp_symbol", m[0][0]) == m[0][0]):
                    # one symbolic integer exponent per path (aliased to n)
                    if m[0][0] != N_ATOM:
                        self.st.exp_symbol = m[0][0]
                    c1 = c
                else:
                    ok = False
            if ok and c0.denominator == 1 and c1.denominator == 1:
                return (int(c0), int(c1))
        return None

    # =============================================================== constants / names
    def constant(self, value, node):
        if value is None:
            return NONE
        if isinstance(value, bool):
            return BoolV(value)
        if isinstance(value, int):
            return self.num_const(value, "int")
        if isinstance(value, float):
            return Num(RF.const(Fraction(value)), "float")
        if isinstance(value, str):
            return StrV(value)
        if value is Ellipsis:
            return OpaqueV("ellipsis")
        self.I.unsupported(node, "constant")

    BUILTIN_FUNCS = {"isinstance", "len", "abs", "round", "hash", "divmod", "min", "max", "int",
                     "type", "reversed", "sorted", "tuple", "list", "str", "format", "iter",
                     "next", "map", "range", "zip", "enumerate", "all", "any", "bool", "repr",
                     "float", "issubclass", "getattr", "setattr", "vars", "id", "callable", "builtin_sum", "dict",
                     "set", "frozenset", "object", "filter", "hasattr", "staticmethod"}

    def global_name(self, module, name, node):
        r = self.prog.resolve_global(module, name)
        if r is None:
            if name in self.BUILTIN_FUNCS:
                if name in ("int", "str", "tuple", "list", "float", "bool", "object", "dict", "type"):
                    return TypeV(name)
                return FuncV(name)
            if name in ("NotImplemented",):
                return NOTIMPL
            if name in ("True", "False"):
                return BoolV(name == "True")
            import builtins
            if hasattr(builtins, name) and isinstance(getattr(builtins, name), type):
                return TypeV(name)
            if not hasattr(builtins, name):
                # neither a local bound on this path, nor a name of the module, an import or a builtin: Python raises
                # NameError (UnboundLocalError for a local that was never assigned on this path)
                self.flag("unbound-name", node, f"name '{name}' is not bound on this path")
                self.I.raise_("NameError", node)
            self.I.unsupported(node, f"unresolved name {name}")
        kind = r[0]
        if kind == "class":
            return self.class_value(r[1])
        if kind == "func":
            return PyFuncV(r[1])
        if kind == "module":
            return ModuleV(r[1])
        if kind == "ext":
            return self.external(r[1], r[2], name, node)
        if kind == "expr":
            return self.global_expr(r[1], name, r[2], node)
        self.I.unsupported(node, f"name {name}")

    def class_value(self, ci):
        meta = self.prog.metaclass_of(ci)
        if meta is not None and meta.name in QTY_META:
            if ci.name == "Quantity":
                return ClsV(self.special_type("Quantity"))
            if self.prog.is_subclass(ci, "Money"):
                return ClsV(self.special_type("Money"))
            return ClsV(self.special_type(ci.name))
        return TypeV(ci.name, ci)

    def special_type(self, name):
        tid = f"cls:{name}"
        if tid not in self.st.types:
            if name == "Quantity":
                self.st.new_type(tid, generic=True, has_ref=False, has_quantum=False, money=False)
            elif name == "Money":
                self.st.new_type(tid, money=True)
            else:
                self.st.new_type(tid)
        return tid

    def external(self, mod, nm, local, node):
        if nm is None:
            return ModuleV(mod)
        key = nm
        if mod == "decimalfp":
            if nm == "ONE":
                return Num(RF.const(1), "dec")
            if nm in ("Decimal", "ROUNDING"):
                return TypeV(nm)
            if nm == "get_dflt_rounding_mode":
                return FuncV(nm)
        if mod == "numbers" and nm in ("Rational", "Real", "Integral", "Number", "Complex"):
            return TypeV(nm)
        if mod == "fractions" and nm == "Fraction":
            return TypeV("Fraction")
        if mod == "decimal" and nm == "Decimal":
            return TypeV("StdLibDecimal")
        if mod == "datetime" and nm == "date":
            return TypeV("date")
        if mod == "typing":
            if nm == "cast":
                return FuncV("cast")
            return OpaqueV(f"typing.{nm}")
        if mod == "collections.abc":
            return OpaqueV(f"typing.{nm}")
        if mod == "collections" and nm == "abc":
            return ModuleV("collections.abc")
        if mod == "types" and nm == "MappingProxyType":
            return FuncV("MappingProxyType")
        if mod == "builtins" and nm == "sum":
            return FuncV("builtin_sum")
        if mod in ("operator", "math", "itertools", "functools", "contextlib", "heapq", "collections", "dataclasses",
                   "bisect", "copy"):
            return FuncV(f"{mod}.{nm}")
        return OpaqueV(f"{mod}.{nm}")

    def global_expr(self, module, name, expr, node):
        # NAME = lru_cache(...)(f) / cache(f): the function f, memoised
        if isinstance(expr, ast.Call) and len(expr.args) == 1 and isinstance(expr.args[0], ast.Name) and not expr.keywords:
            deco = expr.func.func if isinstance(expr.func, ast.Call) else expr.func
            dn = deco.attr if isinstance(deco, ast.Attribute) else (deco.id if isinstance(deco, ast.Name) else "")
            from .interp import _MEMO_WORDS
            if any(w == dn or (w != "cache" and w in dn) for w in _MEMO_WORDS):
                tgt = self.prog.resolve_global(module, expr.args[0].id)
                if tgt and tgt[0] == "func":
                    import copy as _copy
                    fi = _copy.copy(tgt[1])
                    fi.name = name          # (its own memo table)
                    fi._memoised = True
                    return PyFuncV(fi)
        # directories and aliases, recognised by the shape of their initialiser
        if isinstance(expr, ast.Dict) and not expr.keys:
            g = GlobalMapV(name)
            ann = module.global_ann.get(name, "")
            g.unit_values = self._mapping_value_is_unit(ann) or self._is_symbol_directory(name)
            g.record_types = self.record_types(module, ann)
            return g
        if isinstance(expr, ast.Call) and isinstance(expr.func, ast.Name) and expr.func.id in ("set", "dict") \
                and not expr.args and not expr.keywords:
            # an empty process-global container filled at run time: a memo / directory like `{}`
            g = GlobalMapV(name)
            g.container = expr.func.id
            if expr.func.id == "dict":
                ann = module.global_ann.get(name, "")
                g.unit_values = self._mapping_value_is_unit(ann) or self._is_symbol_directory(name)
                g.record_types = self.record_types(module, ann)
            return g
        if isinstance(expr, ast.Call):
            f = expr.func
            base = f.value if isinstance(f, ast.Subscript) else f
            if isinstance(base, ast.Name):
                tgt = self.prog.resolve_global(module, base.id)
                if tgt and tgt[0] == "expr" and isinstance(tgt[2], ast.Subscript):
                    base2 = tgt[2].value
                    if isinstance(base2, ast.Name):
                        tgt = self.prog.resolve_global(tgt[1], base2.id)
                if tgt and tgt[0] == "class" and tgt[1].name == "DefinedItemRegistry":
                    g = GlobalMapV(name)
                    g.registry = True
                    g.unique = True
                    ua = [k.value for k in expr.keywords if k.arg == "unique_items"] + list(expr.args[:1])
                    if ua and isinstance(ua[0], ast.Constant):
                        g.unique = bool(ua[0].value)
                    return g
        if isinstance(expr, ast.Call) and src_of(expr.func).split(".")[-1] == "namedtuple" and len(expr.args) >= 2:
            try:
                spec = ast.literal_eval(expr.args[1])
                fields = spec.replace(",", " ").split() if isinstance(spec, str) else list(spec)
                tv = TypeV(name)
                tv.nt_fields = fields
                return tv
            except Exception:
                pass
        if isinstance(expr, ast.Subscript) and isinstance(expr.value, ast.Name):
            # type alias such as UnitDefT = Term['Unit']
            r = self.prog.resolve_global(module, expr.value.id)
            if r and r[0] == "class":
                return self.class_value(r[1])
            return OpaqueV(f"alias:{name}")
        if isinstance(expr, ast.Name):
            return self.global_name(module, expr.id, node)
        if isinstance(expr, (ast.Constant,)):
            return self.constant(expr.value, node)
        # evaluate simple constant expressions in module scope
        if isinstance(expr, (ast.Call, ast.BinOp, ast.List, ast.Tuple, ast.Attribute, ast.Dict, ast.Lambda, ast.ListComp,
                             ast.DictComp, ast.SetComp, ast.GeneratorExp, ast.UnaryOp, ast.Subscript, ast.IfExp,
                             ast.JoinedStr, ast.Set, ast.Compare, ast.BoolOp)):
            # evaluated once per path: a module-level object has one identity (sentinels, tables, lists)
            cache = self.st.__dict__.setdefault("global_cache", {})
            ck = (getattr(module, "name", "?"), name)
            if ck in cache:
                return cache[ck]
            from .interp import Frame
            self.I.frames.append(Frame(None, module, None, {}))
            try:
                v = self.I.eval(expr)
            except Unsupported:
                v = OpaqueV(f"global:{name}")
            finally:
                self.I.frames.pop()
            cache[ck] = v
            return v
        return OpaqueV(f"global:{name}")

    # =============================================================== truthiness
    def truth(self, v, node=None) -> bool:
        st = self.st
        if isinstance(v, BoolV):
            return v.val
        if isinstance(v, NoneV):
            return False
        if isinstance(v, (UnitV, QtyV, ClsV, RateV, FuncV, PyFuncV, TypeV, ConvV, NativeV, EnumV)):
            return True
        if isinstance(v, ObjV) and (v.ci is None or self.prog.lookup(v.ci, "__len__") is None):
            return True
        if isinstance(v, NotImplV):
            return True
        if isinstance(v, CmpV):
            r = self.decide_cmp(v.op, v.l, v.r, node)
            return (not r) if v.negated else r
        if isinstance(v, Num):
            rf = st.norm(v.rf)
            if rf.is_const():
                return rf.const_value() != 0
            return self.decide_cmp("!=", v, self.num_const(0), node)
        if isinstance(v, StrV):
            if v.nonempty is None:
                v.nonempty = bool(self.I.choose(2, f"str-nonempty@{getattr(node, 'lineno', '?')}",
                                                ["empty", "nonempty"]))
            return v.nonempty
        if isinstance(v, TupleV):
            return bool(v.items)
        if isinstance(v, GenV):
            return True
        if isinstance(v, ListV):
            if v.lazy:
                return True         # a generator object is always truthy
            n = self.list_len(v, node)
            return n != 0
        if isinstance(v, ObjV) and v.ci is not None and self.prog.lookup(v.ci, "__len__") is not None:
            n = self.I.call_function(self.prog.lookup(v.ci, "__len__"), [v], {}, node)
            return self.truth(n, node)
        if type(v).__name__ == "IterV":
            return True
        if type(v).__name__ == "DictV":
            if getattr(v, "opaque_updates", None):
                self.I.unsupported(node, "truth of a dict with opaque content")
            return bool(self.dict_view(v, node)) if hasattr(self, "dict_view") else bool(v.items)
        if isinstance(v, GlobalMapV) and self.is_memo_map(v) and not getattr(v, "record_types", None):
            # a process-global memo / lazily filled table: empty until something is stored (Engine A follows the miss)
            for e in self.visible_effects():
                if e[0] == "mapcall" and isinstance(e[1], GlobalMapV) and e[1].name == v.name and e[2] == "clear":
                    return False
                if e[0] == "setitem" and isinstance(e[1], GlobalMapV) and e[1].name == v.name:
                    return True
            return False
        if isinstance(v, TermV):
            return not self.term_is_empty(v, node)
        if isinstance(v, OpaqueV):
            c = self.I.choose(2, f"truth({v.tag})@{getattr(node, 'lineno', '?')}", ["False", "True"])
            return bool(c)
        self.I.unsupported(node, f"truth of {v!r}")

    def decide_cmp(self, op, l: Num, r: Num, node) -> bool:
        st = self.st
        a, b = st.norm(l.rf), st.norm(r.rf)
        diff = a - b
        if diff.is_const():
            d = diff.const_value()
            return {"==": d == 0, "!=": d != 0, "<": d < 0, "<=": d <= 0, ">": d > 0, ">=": d >= 0}[op]
        # registry ids identify the registered class: equal iff the classes are identical
        sa, sb = _single_atom_of(a), _single_atom_of(b)
        if sa is not None and sb is not None and sa[0] == "regid" and sb[0] == "regid" and op in ("==", "!="):
            same = sa[1] in st.tparent and sb[1] in st.tparent and st.tfind(sa[1]) == st.tfind(sb[1])
            return same if op == "==" else not same
        # positivity knowledge: scales, quanta and powers of ten are positive
        sgn = self.sign_of(diff)
        if sgn is not None:
            return {"==": False, "!=": True, "<": sgn < 0, "<=": sgn < 0, ">": sgn > 0, ">=": sgn > 0}[op]
        key = st.canon_diff(a - b).key()
        nkey = st.canon_diff(b - a).key()
        flip = {"==": "==", "!=": "!=", "<": ">", "<=": ">=", ">": "<", ">=": "<="}
        holds = lambda o, s: {"==": s == 0, "!=": s != 0, "<": s < 0, "<=": s <= 0, ">": s > 0, ">=": s >= 0}[o]
        allowed = {-1, 0, 1}
        if sa is not None and sb is not None and sa[0] == "regid" and sb[0] == "regid":
            allowed = {-1, 1}       # distinct classes have distinct registry ids
        for (k, o, res) in st.cmp_facts:
            if k == nkey and nkey != key:
                k, o = key, flip[o]
            if k == key:
                allowed = {s_ for s_ in allowed if holds(o, s_) == res}
        if not allowed:
            raise Infeasible
        vals = {holds(op, s_) for s_ in allowed}
        if len(vals) == 1:
            return vals.pop()
        c = self.I.choose(2, f"({a!r} {op} {b!r})@{getattr(node, 'lineno', '?')}", ["False", "True"])
        res = bool(c)
        st.cmp_facts.append((key, op, res))
        st.cmp_raw.append((a - b, op, res))
        if (op == "==" and res) or (op == "!=" and not res):
            st.equate(a, b)
        return res

    def sign_of(self, rf: RF):
        """+1 / -1 when, in numerator and denominator, every monomial has the same sign and all atoms are
        positive-valued."""
        rf = self.st.norm(rf)

        def poly_sign(p, scale=1):
            signs = set()
            for m, c in p.t.items():
                for a, e in m:
                    if a[0] not in ("mu", "rho", "Qm", "sf", "pw10", "beta", "const", "regid"):
                        return None
                signs.add(1 if c * scale > 0 else -1)
            return signs.pop() if len(signs) == 1 else None
        sn, sd = poly_sign(rf.n), poly_sign(rf.d)
        if sn is None or sd is None:
            return None
        return sn * sd

    # =============================================================== unit / type facts
    def type_of_unit(self, u: UnitV) -> str:
        return self.st.unit_type(u.uid)

    def decide_has_ref(self, tid, node) -> bool:
        t = self.st.T(tid)
        if t.has_ref is None:
            c = self.I.choose(2, f"has_ref({t.tid})", ["no-ref-unit", "ref-unit"])
            t.has_ref = bool(c)
            self.st._type_invariants(t)
        return t.has_ref

    def decide_has_quantum(self, tid, node) -> bool:
        t = self.st.T(tid)
        if t.has_quantum is None:
            c = self.I.choose(2, f"has_quantum({t.tid})", ["no-quantum", "quantum"])
            t.has_quantum = bool(c)
            self.st._type_invariants(t)
        return t.has_quantum

    def decide_money(self, tid, node) -> bool:
        t = self.st.T(tid)
        if t.money is None:
            c = self.I.choose(2, f"is_money({t.tid})", ["plain", "money"])
            t.money = bool(c)
            self.st._type_invariants(t)
        return t.money

    def unit_kind(self, u: UnitV, node) -> str:
        """ref | base | defined (creation kind, forked once per path)."""
        st = self.st
        us = st.U(u.uid)
        tid = st.unit_type(u.uid)
        if us.kind is None:
            if self.st.T(tid).money:
                us.kind = "base"    # MoneyMeta.new_unit never passes a definition (rule R08.1b)
            else:
                opts = ["base", "defined"]
                if self.decide_has_ref(tid, node):
                    ref = st.ref_unit(tid)
                    s = st.same_unit(u.uid, ref)
                    if s is True:
                        us = st.U(u.uid)
                        us.kind = "ref"
                        return "ref"
                    opts = ["defined", "ref"] if s is None else ["defined"]
                    # an undefined extra unit in a type with reference unit is not modelled (assumption A1)
                c = self.I.choose(len(opts), f"kind({us.uid})", opts)
                us.kind = opts[c]
                if us.kind == "ref":
                    st.unify_units(st.ref_unit(tid), u.uid)
                    st.U(u.uid).kind = "ref"
        return st.U(u.uid).kind

    def is_ref_unit(self, u: UnitV, node) -> Optional[bool]:
        tid = self.type_of_unit(u)
        if not self.decide_has_ref(tid, node):
            return False
        return self.st.same_unit(u.uid, self.st.ref_unit(tid))

    def mu(self, u: UnitV) -> RF:
        return self.st.norm(self.st.U(u.uid).mu)

    def rho(self, tid) -> RF:
        return self.st.norm(RF.atom(("rho", self.st.tfind(tid))))

    # field summaries -----------------------------------------------------
    def conv_attr(self):
        """Name of the class attribute holding a type's registered converters (read off register_converter)."""
        nm = getattr(self.prog, "_conv_attr", False)
        if nm is False:
            from .anchors import converter_registry_attr
            try:
                nm = converter_registry_attr(self.prog)
            except AnalysisError:
                nm = None
            self.prog._conv_attr = nm
        return nm

    def derived_unit_field(self, u: UnitV, attr, node):
        """A field of units outside the vocabulary of the models: what the unit-creating code stores into it, evaluated
        on the unit's own symbol / name / definition / type (None when the creating code stores no such field)."""
        cache = self.st.__dict__.setdefault("derived_fields", {})
        key = (self.st.ufind(u.uid), attr)
        if key in cache:
            return cache[key]
        from .anchors import unit_creator, _direct_callees
        try:
            mk = unit_creator(self.prog)
        except AnalysisError:
            return None
        funcs, todo = [], [mk]
        while todo:
            f = todo.pop(0)
            if any(f is g for g in funcs):
                continue
            funcs.append(f)
            todo.extend(g for g in _direct_callees(self.prog, f) if g.cls is mk.cls)
        from .interp import Frame
        for f in funcs:
            a = f.node.args
            params = [p.arg for p in a.posonlyargs + a.args]
            for n in ast.walk(f.node):
                if not (isinstance(n, ast.Assign) and len(n.targets) == 1 and isinstance(n.targets[0], ast.Attribute)
                        and n.targets[0].attr == attr and isinstance(n.targets[0].value, ast.Name)
                        and n.targets[0].value.id not in params):
                    continue
                names = {x.id for x in ast.walk(n.value) if isinstance(x, ast.Name)}
                env = {}
                for i, p_ in enumerate(params):
                    if i == 0:
                        env[p_] = ClsV(self.type_of_unit(u))
                    elif "symbol" in p_:
                        env[p_] = self.get_attr(u, "_symbol", node)
                    elif "name" in p_:
                        env[p_] = self.get_attr(u, "_name", node)
                    else:
                        env[p_] = self.get_attr(u, "_definition", node)
                env[n.targets[0].value.id] = u
                if not names <= set(env) | set(dir(__import__("builtins"))) | set(f.module.globals) | set(f.module.imports):
                    continue        # computed from other locals: not reconstructed
                fr = Frame(f, f.module, f.cls, env)
                self.I.frames.append(fr)
                try:
                    v = self.I.eval(n.value)
                finally:
                    self.I.frames.pop()
                cache[key] = v
                return v
        return None

    def unit_equiv(self, u: UnitV, node) -> V:
        """Summary of what _make_unit/_make_ref_unit store in Unit._equiv (rule R01.3)."""
        st = self.st
        tid = self.type_of_unit(u)
        if self.decide_has_ref(tid, node):
            k = self.unit_kind(u, node)
            return Num(self.mu(u) / self.rho(tid), "exact")
        k = self.unit_kind(u, node)
        if k == "base":
            return NONE
        return Num(self.mu(u) / RF.atom(("beta", st.ufind(u.uid))), "exact")

    def unit_definition_field(self, u: UnitV, node) -> V:
        d = self.st.unit_defs.get(u.uid)
        if d is None:
            d = self.st.unit_defs.get(self.st.ufind(u.uid))
        if d is None and self.st.unit_defs:
            rep = self.st.ufind(u.uid)
            for k_, v_ in self.st.unit_defs.items():
                if k_ in self.st.uparent and self.st.ufind(k_) == rep:
                    d = v_
                    break
        if d is not None:
            return NONE if d == "base" else d
        k = self.unit_kind(u, node)
        if k == "base":
            return NONE
        if k == "ref":
            # reference unit of a base type has no definition; of a derived type it has one
            c = self.I.choose(2, f"refdef({u.uid})", ["no-definition", "definition"])
            if c == 0:
                return NONE
        return TermV(self.mu(u), {self.type_of_unit(u): (1, 0)}, origin=("def", self.st.ufind(u.uid)))

    def unit_quantum_contract(self, u: UnitV, node) -> Optional[RF]:
        """K12: per-unit quantum = Qm(T)·ρ(T)/μ(U); currencies: smallest fraction."""
        tid = self.type_of_unit(u)
        if self.decide_money(tid, node):
            return RF.atom(("sf", self.st.ufind(u.uid)))
        if not self.decide_has_quantum(tid, node):
            return None
        return RF.atom(("Qm", self.st.tfind(tid))) * self.rho(tid) / self.mu(u)

    # =============================================================== attributes
    def get_attr(self, obj, attr, node):
        I = self.I
        if attr == "__class__" and not isinstance(obj, (QtyV, UnitV, RateV, ObjV, ClsV)):
            return self.type_of(obj, node)
        if isinstance(obj, QtyV):
            if attr == "_amount":
                if obj.amount is None:
                    I.raise_("AttributeError", node)
                return obj.amount
            if attr == "_unit":
                if obj.unit is None:
                    I.raise_("AttributeError", node)
                return obj.unit
            if attr == "__class__":
                return ClsV(obj.tid)
            cname = "Money" if self.st.T(obj.tid).money else "Quantity"
            if self.is_instance_slot(cname, attr):
                # a further slot of the class: holds what was stored into it, nothing before that
                ex = getattr(obj, "extra", None) or {}
                if attr in ex:
                    return ex[attr]
                I.raise_("AttributeError", node)
            return self.class_attr(obj, cname, attr, node)
        if isinstance(obj, UnitV):
            if attr == "_qty_cls":
                return ClsV(self.type_of_unit(obj))
            if attr == "_equiv":
                return self.unit_equiv(obj, node)
            if attr == "_definition":
                return self.unit_definition_field(obj, node)
            if attr in ("_symbol",):
                s = StrV(None, f"symbol({self.st.ufind(obj.uid)})")
                s.nonempty = True
                return s
            if attr == "_name":
                return StrV(None, f"name({self.st.ufind(obj.uid)})")
            if attr == "_smallest_fraction":
                if not self.decide_money(self.type_of_unit(obj), node):
                    I.raise_("AttributeError", node)
                return Num(RF.atom(("sf", self.st.ufind(obj.uid))), "dec")
            if attr == "__class__":
                return TypeV("Currency" if self.decide_money(self.type_of_unit(obj), node) else "Unit")
            if self.prog.lookup(self.prog.cls("Unit"), attr) is None and \
                    not (self.prog.has_cls("Currency") and self.prog.lookup(self.prog.cls("Currency"), attr) is not None):
                dv = self.derived_unit_field(obj, attr, node)
                if dv is not None:
                    return dv
            cname = "Currency" if (self.prog.has_cls("Currency") and self.lookup_needs_currency(obj, attr, node)) else "Unit"
            return self.class_attr(obj, cname, attr, node)
        if isinstance(obj, ClsV):
            t = self.st.T(obj.tid)
            stored = self.st.cls_fields.get((self.st.tfind(obj.tid), attr))
            if stored is not None:
                return stored
            if attr == "_ref_unit":
                if t.generic:
                    return NONE
                if self.decide_has_ref(obj.tid, node):
                    return UnitV(self.st.ref_unit(obj.tid))
                return NONE
            if attr == "_quantum":
                if t.generic:
                    return NONE
                if self.decide_has_quantum(obj.tid, node):
                    return Num(RF.atom(("Qm", self.st.tfind(obj.tid))), "exact")
                return NONE
            if attr == "__name__":
                return StrV(None, "clsname")
            if attr == self.conv_attr() and not getattr(self.st, "concrete_registries", False):
                # (scenarios that build a concrete registry through the public API start from what the metaclass
                # assigns when the class is created - derived below)
                lv = ListV(None, tag=f"converters({self.st.tfind(obj.tid)})", opaque_elem=ConvV())
                lv.owner = obj
                lv.ci = self.converter_list_class()
                return lv
            if attr == "_unit_map":
                if getattr(t, "under_creation", False):
                    # a class being created that has not assigned its own map yet sees the base class's map
                    g = GlobalMapV(f"_unit_map(inherited from the base class of {self.st.tfind(obj.tid)})")
                    g.inherited = True
                else:
                    g = GlobalMapV(f"_unit_map({self.st.tfind(obj.tid)})")
                g.owner = obj
                return g
            if attr == "_definition":
                d = self.st.type_defs.get(self.st.tfind(obj.tid))
                if d is not None:
                    if d == "base":
                        return NONE
                    return d
                c = I.choose(2, f"clsdef({obj.tid})", ["base-class", "derived-class"])
                if c == 0:
                    return NONE
                return TermV(RF.atom(("clsdef", obj.tid)), {"?cls": (1, 0)})
            if attr == "dflt_format_spec":
                return StrV("{a} {u}")
            if attr == "_unit_cls":
                ucls = "Currency" if (t.money and self.prog.has_cls("Currency")) else "Unit"
                return TypeV(ucls, self.prog.cls(ucls))
            if attr == "_reg_id":
                return Num(RF.atom(("regid", self.st.tfind(obj.tid))), "int")
            meta = "MoneyMeta" if (t.money and self.prog.has_cls("MoneyMeta")) else "QuantityMeta"
            fi = self.prog.lookup(self.prog.cls(meta), attr)
            if fi is None:
                # class-level attribute of Quantity (static lookups such as dflt_format_spec)
                e = self.prog.lookup_attr(self.prog.cls("Quantity"), attr)
                if e is not None and isinstance(e, ast.Constant):
                    return self.constant(e.value, node)
                # an attribute some method of the metaclass keeps equal to an expression over the class's other state
                # (`cls.<attr> = len(cls._converters)` after every change of the list): it *is* that expression, now
                derived = []
                for mci in self.prog.mro(self.prog.cls(meta)):
                    for mfi in mci.methods.values():
                        if mfi.node is None or not hasattr(mfi.node, "args") or not mfi.node.args.args:
                            continue
                        me = mfi.node.args.args[0].arg
                        for n_ in ast.walk(mfi.node):
                            if isinstance(n_, ast.Assign) and len(n_.targets) == 1 and isinstance(n_.targets[0], ast.Attribute) \
                                    and n_.targets[0].attr == attr and isinstance(n_.targets[0].value, ast.Name) \
                                    and n_.targets[0].value.id == me:
                                names = [x for x in ast.walk(n_.value) if isinstance(x, ast.Name)]
                                attrs_ = [x for x in ast.walk(n_.value) if isinstance(x, ast.Attribute) and
                                          isinstance(x.value, ast.Name) and x.value.id == me and x.attr != attr]
                                if attrs_ and all(x.id == me or x.id in ("len", "tuple", "sorted", "bool", "min", "max", "sum")
                                                  for x in names):
                                    derived.append((mfi, me, n_.value))
                if derived and len({ast.dump(d[2]) for d in derived}) == 1:
                    mfi, me, expr = derived[0]
                    from .interp import Frame
                    self.I.frames.append(Frame(mfi, mfi.module, mfi.cls, {me: obj}))
                    try:
                        return self.I.eval(expr)
                    finally:
                        self.I.frames.pop()
                # an attribute every quantity class gets from its metaclass when it is created: what the metaclass
                # __init__ / __new__ assigns to it, if that is a constant or an empty container
                for mname in ("__init__", "__new__"):
                    mfi = self.prog.lookup(self.prog.cls(meta), mname)
                    if mfi is None or not hasattr(mfi.node, "body"):
                        continue
                    for n_ in ast.walk(mfi.node):
                        tgt = None
                        if isinstance(n_, ast.Assign) and len(n_.targets) == 1:
                            tgt = n_.targets[0]
                        elif isinstance(n_, ast.AnnAssign) and n_.value is not None:
                            tgt = n_.target
                        if isinstance(tgt, ast.Attribute) and tgt.attr == attr and isinstance(tgt.value, ast.Name) and \
                                tgt.value.id == "cls":
                            val = n_.value
                            init_v = None
                            if isinstance(val, ast.Constant):
                                init_v = self.constant(val.value, node)
                            elif isinstance(val, ast.Tuple) and not val.elts:
                                init_v = TupleV([])
                            elif isinstance(val, ast.List) and not val.elts:
                                init_v = ListV([])
                            elif isinstance(val, ast.Dict) and not val.keys:
                                init_v = DictV()
                            elif isinstance(val, ast.Call) and not any(isinstance(x, ast.Name) and x.id in ("cls", "self", "name", "bases", "clsdict")
                                                                       for x in ast.walk(val)):
                                # computed when the class was created (an earlier moment than the call analysed): ambient
                                # state read then is stale now
                                from .interp import Frame
                                self.st.at_class_creation = True
                                self.I.frames.append(Frame(None, mfi.module, None, {}))
                                try:
                                    init_v = self.I.eval(val)
                                except Unsupported:
                                    init_v = None
                                finally:
                                    self.I.frames.pop()
                                    self.st.at_class_creation = False
                            if init_v is not None:
                                self.st.cls_fields[(self.st.tfind(obj.tid), attr)] = init_v
                                return init_v
                if attr == "__slots__":
                    for c_ in self.prog.mro(self.prog.cls("Money" if t.money else "Quantity")):
                        sl = c_.attrs.get("__slots__")
                        if isinstance(sl, (ast.List, ast.Tuple)) and all(isinstance(x, ast.Constant) for x in sl.elts):
                            return (ListV if isinstance(sl, ast.List) else TupleV)([StrV(x.value) for x in sl.elts])
                I.unsupported(node, f"attribute {attr} of quantity class")
            return self.bind_func(fi, obj, node)
        if isinstance(obj, RateV):
            if attr == "_unit_currency":
                return obj.unit
            if attr == "_term_currency":
                return obj.term
            if attr == "_unit_multiple":
                return obj.um
            if attr == "_term_amount":
                return obj.ta
            if attr == "__class__":
                return self.class_value(self.prog.cls("ExchangeRate"))
            extra = obj.__dict__.setdefault("extra", {})
            if attr in extra:
                return extra[attr]
            eci = self.prog.cls("ExchangeRate")
            if self.prog.lookup(eci, attr) is None and self.prog.lookup_attr(eci, attr) is None:
                # an instance attribute the summary does not model: what __init__ initialises it to (a constant)
                init = self.prog.lookup(eci, "__init__")
                if init is not None:
                    me = init.node.args.args[0].arg
                    for n_ in ast.walk(init.node):
                        tgt = None
                        if isinstance(n_, ast.Assign) and len(n_.targets) == 1:
                            tgt = n_.targets[0]
                        elif isinstance(n_, ast.AnnAssign) and n_.value is not None:
                            tgt = n_.target
                        if isinstance(tgt, ast.Attribute) and tgt.attr == attr and isinstance(tgt.value, ast.Name) \
                                and tgt.value.id == me and isinstance(n_.value, ast.Constant):
                            extra[attr] = self.constant(n_.value.value, node)
                            return extra[attr]
            return self.class_attr(obj, "ExchangeRate", attr, node)
        if isinstance(obj, TermV):
            return self.term_attr(obj, attr, node)
        if isinstance(obj, Num):
            return self.num_attr(obj, attr, node)
        if isinstance(obj, StrV):
            return self.str_attr(obj, attr, node)
        if isinstance(obj, ListV):
            return self.list_attr(obj, attr, node)
        if isinstance(obj, ModuleV) and obj.name == "re":
            from .regexmodel import flag_value
            fv = flag_value(attr)
            if fv is not None:
                return Num(RF.const(fv), "int")
            return FuncV(f"re.{attr}")
        if isinstance(obj, RegexV):
            if attr in ("fullmatch", "match", "search"):
                return NativeV(lambda a, k, n, rx=obj, how=attr: self.regex_apply(rx, how, a[0] if a else None, n),
                               f"pattern.{attr}")
            if attr == "pattern":
                return StrV(obj.pattern)
            if attr == "flags":
                return Num(RF.const(obj.flags), "int")
            self.I.unsupported(node, f"pattern attribute {attr}")
        if isinstance(obj, MatchV):
            if attr == "group":
                return NativeV(lambda a, k, n, m=obj: self.match_group(m, a[0] if a else self.num_const(0), n)
                               if len(a) <= 1 else TupleV([self.match_group(m, x, n) for x in a]), "match.group")
            if attr == "groups":
                return NativeV(lambda a, k, n, m=obj: TupleV([self.match_group(m, self.num_const(i), n)
                                                              for i in range(1, m.profile["groups"] + 1)]), "match.groups")
            if attr in ("start", "end") and obj.concrete is None:
                # a position inside an opaque text
                return NativeV(lambda a, k, n, what=attr: Num(RF.atom(("k", f"match.{what}@{getattr(n, 'lineno', '?')}")), "int"),
                               f"match.{attr}")
            if attr in ("start", "end", "span") and obj.concrete is not None:
                def pos(a, k, n, m=obj, what=attr):
                    g = 0
                    if a:
                        g = a[0].const if isinstance(a[0], StrV) else int(self.st.norm(a[0].rf).const_value())
                    r_ = getattr(m.concrete, what)(g)
                    if isinstance(r_, tuple):
                        return TupleV([self.num_const(x) for x in r_])
                    return self.num_const(r_)
                return NativeV(pos, f"match.{attr}")
            if attr == "groupdict":
                def gd(a, k, n, m=obj):
                    d = DictV()
                    for nm, i in m.profile["names"].items():
                        d.items.append((StrV(nm), self.match_group(m, self.num_const(i), n)))
                    return d
                return NativeV(gd, "match.groupdict")
            self.I.unsupported(node, f"match attribute {attr}")
        if isinstance(obj, ModuleV):
            short = obj.name.split(".")[-1]
            if obj.name in self.prog.modules:
                return self.global_name(self.prog.modules[obj.name], attr, node)
            if obj.name in ("collections.abc", "typing") and attr[:1].isupper():
                return OpaqueV(f"typing.{attr}")
            if obj.name == "collections" and attr == "abc":
                return ModuleV("collections.abc")
            return FuncV(f"{short}.{attr}")
        if isinstance(obj, FuncV) and obj.name == "itertools.chain" and attr == "from_iterable":
            return FuncV("itertools.chain.from_iterable")
        if isinstance(obj, FuncV) and obj.name in ("collections.abc", "abc") and attr[:1].isupper():
            return OpaqueV(f"typing.{attr}")        # the abstract collection classes, as used in isinstance tests
        if isinstance(obj, TypeV):
            if obj.name == "ROUNDING":
                return EnumV("ROUNDING", attr)
            if obj.name == "date":
                return FuncV(f"date.{attr}")
            if obj.name == "object" and attr == "__new__":
                return FuncV("object.__new__")
            if obj.ci is not None:
                fi = self.prog.lookup(obj.ci, attr)
                if fi is not None:
                    if fi.kind == "classmethod":
                        return PyFuncV(fi, obj)
                    return PyFuncV(fi) if fi.kind != "property" else OpaqueV("property")
                e = self.prog.lookup_attr(obj.ci, attr)
                if e is not None:
                    return self.global_expr(obj.ci.module, f"{obj.name}.{attr}", e, node)
                if attr == "__name__":
                    return StrV(obj.name)
            if attr == "__name__":
                return StrV(obj.name)
            I.unsupported(node, f"attribute {attr} of type {obj.name}")
        if isinstance(obj, SuperV):
            return self.super_attr(obj, attr, node)
        if isinstance(obj, ObjV) and obj.name == "kwargs" and obj.ci is None:
            def kwcall(args, kwargs, n, o=obj, attr=attr):
                if attr == "pop":
                    k = args[0].const if isinstance(args[0], StrV) else None
                    if k in o.fields:
                        return o.fields.pop(k)
                    if len(args) > 1:
                        return args[1]
                    self.I.raise_("KeyError", n)
                if attr == "get":
                    k = args[0].const if isinstance(args[0], StrV) else None
                    return o.fields.get(k, args[1] if len(args) > 1 else NONE)
                if attr in ("keys", "items", "values"):
                    return ListV(None, tag="kwargs." + attr)
                self.I.unsupported(n, f"kwargs.{attr}")
            return NativeV(kwcall, "kwargs." + attr)
        if isinstance(obj, ObjV):
            if attr in obj.fields:
                return obj.fields[attr]
            if attr == "__class__":
                return self.class_value(obj.ci) if obj.ci else OpaqueV("class")
            if obj.ci is not None:
                fi = self.prog.lookup(obj.ci, attr)
                if fi is not None:
                    return self.bind_func(fi, obj, node)
                e = self.prog.lookup_attr(obj.ci, attr)
                if e is not None:
                    v = self.global_expr(obj.ci.module, f"{obj.ci.name}.{attr}", e, node)
                    return v
            hook = getattr(self, "objfield_" + (obj.ci.name if obj.ci else "x"), None)
            if hook is not None:
                v = hook(obj, attr, node)
                if v is not None:
                    obj.fields[attr] = v
                    return v
            I.raise_("AttributeError", node)
        if isinstance(obj, DictV):
            def dictcall(args, kwargs, n, d=obj, attr=attr):
                self.st.effects.append(("dictcall", d, attr, args, self.where(n)))
                if attr == "update":
                    src = args[0] if args else None
                    if isinstance(src, DictV):
                        d.items.extend(self.dict_view(src, n))
                        for k_, v_ in kwargs.items():
                            d.items.append((StrV(k_), v_))
                        return NONE
                    if isinstance(src, GenV):
                        from .interp import OpaqueMarker
                        for it in self.I.gen_iter(src):
                            if it is OpaqueMarker:
                                d.opaque_updates = getattr(d, "opaque_updates", []) + [src]
                                return NONE
                            if isinstance(it, TupleV) and len(it.items) == 2:
                                d.items.append((it.items[0], it.items[1]))      # inserted before the next element is built
                            else:
                                self.I.unsupported(n, "dict.update item")
                        return NONE
                    seq = self.iterate(src, n) if src is not None else []
                    if seq is None:
                        d.opaque_updates = getattr(d, "opaque_updates", []) + [src]
                        return NONE
                    for it in seq:
                        if isinstance(it, TupleV) and len(it.items) == 2:
                            d.items.append((it.items[0], it.items[1]))
                        else:
                            self.I.unsupported(n, "dict.update item")
                    return NONE
                if attr in ("keys", "values", "items"):
                    return ListV([TupleV([k, v]) if attr == "items" else (k if attr == "keys" else v)
                                  for k, v in self.dict_view(d, n)])
                if attr == "copy":
                    c_ = DictV(list(d.items), tag=d.tag)
                    for extra in ("default_factory",):
                        if hasattr(d, extra):
                            setattr(c_, extra, getattr(d, extra))
                    return c_
                if attr == "get":
                    try:
                        return self.dict_get(d, args[0], n)
                    except AbsRaise:
                        return args[1] if len(args) > 1 else NONE
                if attr == "setdefault":
                    try:
                        return self.dict_get(d, args[0], n)
                    except AbsRaise:
                        d.items.append((args[0], args[1] if len(args) > 1 else NONE))
                        return d.items[-1][1]
                if attr == "pop" and args and getattr(d, "rate_table", None) is None:
                    v_ = self.dict_remove(d, args[0], n)
                    if v_ is not None:
                        return v_
                    if len(args) > 1:
                        return args[1]
                    self.I.raise_("KeyError", n)
                if attr == "clear" and getattr(d, "rate_table", None) is None:
                    d.items[:] = []
                    return NONE
                if attr == "popitem" and getattr(d, "rate_table", None) is None:
                    view = self.dict_view(d, n)
                    if not view:
                        self.I.raise_("KeyError", n)
                    k_, v_ = view[-1]
                    self.dict_remove(d, k_, n)
                    return TupleV([k_, v_])
                if attr in ("pop", "clear", "popitem"):
                    return OpaqueV(f"dict.{attr}")
                self.I.unsupported(n, f"dict method {attr}")
            return NativeV(dictcall, f"dict.{attr}")
        if isinstance(obj, GlobalMapV):
            def mapcall(args, kwargs, n, g=obj, attr=attr):
                self.st.effects.append(("mapcall", g, attr, args, self.where(n)))
                if attr in ("values", "keys", "items") and getattr(g, "owner", None) is not None and \
                        not getattr(g, "inherited", False) and isinstance(g.owner, ClsV):
                    # the units of the type that exist on this path (there may be others: what is computed from the
                    # listing is computed from at least these)
                    st_ = self.st
                    tid_ = st_.tfind(g.owner.tid)
                    seen_, out_ = set(), []
                    for uid_ in list(st_.units):
                        r_ = st_.ufind(uid_)
                        if r_ in seen_ or st_.same_type(st_.units[r_].tid, tid_) is not True:
                            continue
                        seen_.add(r_)
                        k_ = StrV(None, f"symbol({r_})")
                        k_.nonempty = True
                        u_ = UnitV(r_)
                        out_.append(u_ if attr == "values" else (k_ if attr == "keys" else TupleV([k_, u_])))
                    lv_ = ListV(out_, tag=f"{g.name}.{attr}")
                    lv_.partial = True
                    return lv_
                if attr in ("values", "keys", "items"):
                    return ListV(None, tag=f"{g.name}.{attr}")
                if attr == "register_item":
                    item = args[0] if args else None
                    can_dup = getattr(g, "unique", False)
                    if can_dup and isinstance(item, ClsV):
                        d = self.st.type_defs.get(self.st.tfind(item.tid))
                        if d == "base":
                            can_dup = False     # a base class is its own, unique definition
                        elif isinstance(d, TermV) and (g.name, self.st.norm(d.mag).key()) in self.st.known_absent:
                            can_dup = False     # the same definition was just looked up and found free
                    if can_dup:
                        c = self.I.choose(2, f"{g.name}.register_item", ["registered", "duplicate-definition"])
                        if c == 1:
                            ex = ExcV("ValueError", (), n, self.where(n))
                            ex.tag = "duplicate-definition"
                            self.st.effects.pop()       # a rejected registration writes nothing
                            raise AbsRaise(ex)
                    return Num(RF.atom(("regid", self.st.fresh("r"))), "int")
                if attr == "get" and args:
                    self.st.effects.pop()       # a read, not a mutation
                    try:
                        return self.map_get(g, args[0], n)
                    except AbsRaise as ar:
                        if ar.exc.name != "KeyError":
                            raise
                        return args[1] if len(args) > 1 else NONE
                if attr == "setdefault" and args:
                    # may store: recorded as a store of (key, default)
                    v = args[1] if len(args) > 1 else NONE
                    self.st.effects.append(("setitem", g, args[0], v, self.where(n)))
                    return v
                if attr == "update":
                    for a in args:
                        pairs = None
                        if type(a).__name__ == "DictV":
                            pairs = list(a.items)
                        else:
                            seq = self.iterate(a, n)
                            if seq is not None and all(isinstance(x, TupleV) and len(x.items) == 2 for x in seq):
                                pairs = [tuple(x.items) for x in seq]
                        if pairs is None:
                            self.I.unsupported(n, f"{g.name}.update with an opaque argument")
                        for k_, v_ in pairs:
                            self.st.effects.append(("setitem", g, k_, v_, self.where(n)))
                    for k_, v_ in kwargs.items():
                        self.st.effects.append(("setitem", g, StrV(k_), v_, self.where(n)))
                    return NONE
                if attr == "add" and len(args) == 1:
                    # a set used as a memo of facts: recorded as a store of (key, True)
                    self.st.effects.append(("setitem", g, args[0], BoolV(True), self.where(n)))
                    return NONE
                if attr in ("pop", "clear", "popitem", "discard", "remove"):
                    return OpaqueV(f"{g.name}.{attr}")
                self.I.unsupported(n, f"map method {attr}")
            return NativeV(mapcall, f"{obj.name}.{attr}")
        if isinstance(obj, NoneV):
            self.flag("none-attribute", node, f"attribute '{attr}' of None")
            I.raise_("AttributeError", node)
        if isinstance(obj, SIPrefixV):
            if attr == "factor":
                return Num(RF.atom(("pw10", "prefix:" + obj.name)), "dec")
            return OpaqueV(f"siprefix.{attr}")
        if isinstance(obj, DateV) and attr in ("year", "month", "day"):
            return {"year": obj.y, "month": obj.m, "day": obj.d}[attr]
        if isinstance(obj, OpaqueV):
            o = OpaqueV(f"{obj.tag}.{attr}")
            o.attr_of = obj
            if "date" in (getattr(obj, "kinds", None) or ()) and attr in ("year", "month", "day"):
                o.kinds = {"int"}
            return o
        if isinstance(obj, ConvV):
            return OpaqueV(f"conv.{attr}")
        if isinstance(obj, NTupleV):
            if attr in obj.fields:
                return obj.items[obj.fields.index(attr)]
            if attr == "_replace":
                def repl(args, kwargs, n, o=obj):
                    vals = [kwargs.get(f, v) for f, v in zip(o.fields, o.items)]
                    return NTupleV(vals, o.fields, o.clsname)
                return NativeV(repl, "namedtuple._replace")
            if attr == "_asdict":
                return NativeV(lambda a, k, n, o=obj: DictV([(StrV(f), v) for f, v in zip(o.fields, o.items)]), "_asdict")
        if isinstance(obj, TupleV) and attr in ("count", "index"):
            return OpaqueV("tuple." + attr)
        I.unsupported(node, f"attribute {attr} of {obj!r}")

    def _is_symbol_directory(self, name: str) -> bool:
        """The directory unit creation enters new units into (whatever its annotation says about its values)."""
        from .anchors import symbol_directories
        try:
            return name in symbol_directories(self.prog)
        except AnalysisError:
            return False

    @staticmethod
    def _mapping_value_is_unit(ann: str) -> bool:
        """Mapping[K, Unit] (the value type itself is a unit class), as opposed to tuples containing units."""
        try:
            e = ast.parse(ann, mode="eval").body
        except SyntaxError:
            return False
        if isinstance(e, ast.Subscript) and isinstance(e.slice, ast.Tuple) and len(e.slice.elts) == 2:
            v = e.slice.elts[1]
            name = v.id if isinstance(v, ast.Name) else (v.value if isinstance(v, ast.Constant) else None)
            return name in ("Unit", "Currency")
        return False

    def record_types(self, module, ann: str):
        """Element types of a mapping's tuple-valued records, from the repo's own type aliases."""
        try:
            e = ast.parse(ann, mode="eval").body
        except SyntaxError:
            return None
        for _ in range(4):
            if isinstance(e, ast.Name):
                r = self.prog.resolve_global(module, e.id)
                if r and r[0] == "expr":
                    module, e = r[1], r[2]
                    continue
                return None
            break
        if isinstance(e, ast.Subscript) and isinstance(e.slice, ast.Tuple) and len(e.slice.elts) == 2:
            v = e.slice.elts[1]
            for _ in range(4):
                if isinstance(v, ast.Name):
                    r = self.prog.resolve_global(module, v.id)
                    if r and r[0] == "expr":
                        module, v = r[1], r[2]
                        continue
                    return None
                break
            if isinstance(v, ast.Subscript) and src_of(v.value) in ("Tuple", "tuple") and isinstance(v.slice, ast.Tuple):
                out = []
                for el in v.slice.elts:
                    s_ = src_of(el)
                    out.append("str" if s_ == "str" else "int" if s_ == "int" else
                               "list" if s_.startswith(("List", "list")) else "?")
                return out
        return None

    def objfield_TableConverter(self, obj, attr, node):
        if attr == "_unit_map":
            g = GlobalMapV("convtable")
            g.convtable = True
            return g
        return None

    def lookup_needs_currency(self, obj: UnitV, attr, node) -> bool:
        cur = self.prog.cls("Currency")
        if attr in cur.methods or attr in cur.attrs:
            return self.decide_money(self.type_of_unit(obj), node)
        return False

    def is_instance_slot(self, cname, attr) -> bool:
        """Is `attr` declared as an instance attribute (a slot or an annotated field) of the class or a base, and not
        a method / property / class-level value?"""
        ci = self.prog.cls(cname)
        if self.prog.lookup(ci, attr) is not None:
            return False
        for c in self.prog.mro(ci):
            sl = c.attrs.get("__slots__")
            if isinstance(sl, (ast.List, ast.Tuple)) and any(isinstance(x, ast.Constant) and x.value == attr for x in sl.elts):
                return True
            node_ = getattr(c, "node", None)
            if node_ is not None:
                for st_ in node_.body:
                    if isinstance(st_, ast.AnnAssign) and st_.value is None and isinstance(st_.target, ast.Name) and \
                            st_.target.id == attr:
                        return True
        return False

    def class_attr(self, obj, cname, attr, node):
        ci = self.prog.cls(cname)
        fi = self.prog.lookup(ci, attr)
        if fi is None:
            e = self.prog.lookup_attr(ci, attr)
            if e is not None:
                return self.global_expr(ci.module, f"{cname}.{attr}", e, node)
            self.flag("missing-attribute", node, f"{cname}.{attr}")
            self.I.raise_("AttributeError", node)
        return self.bind_func(fi, obj, node)

    def bind_func(self, fi: FuncInfo, obj, node):
        if fi.kind == "property":
            return self.I.call_function(fi, [obj], {}, node)
        if fi.kind == "static":
            return PyFuncV(fi)
        if fi.kind == "classmethod" and isinstance(obj, (ObjV, QtyV, UnitV)):
            return PyFuncV(fi, self.type_of(obj, node))
        return PyFuncV(fi, obj)

    def super_attr(self, sv: SuperV, attr, node):
        mro = self.prog.mro(sv.ci)
        for c in mro[1:]:
            if attr in c.methods:
                if attr == "__new__":
                    return PyFuncV(c.methods[attr])      # static: the class is passed explicitly
                return self.bind_func(c.methods[attr], sv.self_val, node)
        if attr == "__new__":
            return FuncV("object.__new__")
        if attr == "__init__":
            return NativeV(lambda a, k, n: NONE, "object.__init__")
        self.I.unsupported(node, f"super().{attr}")

    def set_attr(self, obj, attr, v, node, aug=False):
        self.st.effects.append(("setattr", obj, attr, v, self.where(node), aug))
        if isinstance(obj, QtyV):
            if attr == "_amount":
                obj.amount = v
            elif attr == "_unit":
                obj.unit = v
            elif self.is_instance_slot("Money" if self.st.T(obj.tid).money else "Quantity", attr):
                if getattr(obj, "extra", None) is None:
                    obj.extra = {}
                obj.extra[attr] = v
            else:
                self.I.unsupported(node, f"store to quantity field {attr}")
            obj.writes.append((attr, v, self.where(node)))
            return
        if isinstance(obj, ObjV):
            setter = self.prog.lookup_setter(obj.ci, attr) if obj.ci is not None else None
            if setter is not None and not (self.I.frames and self.I.frames[-1].fi is setter):
                self.st.effects.pop()
                self.I.call_function(setter, [obj, v], {}, node)      # a property with a setter: its code runs
                return
            obj.fields[attr] = v
            return
        if isinstance(obj, ClsV):
            self.st.cls_fields[(self.st.tfind(obj.tid), attr)] = v
            if attr == "_definition":
                self.st.type_defs[self.st.tfind(obj.tid)] = "base" if isinstance(v, NoneV) else v
            elif attr == "_ref_unit":
                t = self.st.T(obj.tid)
                if isinstance(v, NoneV):
                    t.has_ref = False
                elif isinstance(v, UnitV) and t.has_ref is not False:
                    t.has_ref = True
                    t.ref_uid = v.uid
            return
        if isinstance(obj, RateV) and attr not in ("_unit_currency", "_term_currency", "_unit_multiple", "_term_amount"):
            obj.__dict__.setdefault("extra", {})[attr] = v      # derived / cached instance attributes
            return
        if isinstance(obj, (UnitV, RateV, TermV)):
            # recorded as an effect; ownership rules live in Engine B
            return
        self.I.unsupported(node, f"attribute store on {obj!r}")

    def where(self, node):
        fr = self.I.frames[-1] if self.I.frames else None
        q = fr.fi.qualname if fr and fr.fi else "?"
        return f"{q}:{getattr(node, 'lineno', '?')}"

    # =============================================================== Num attrs
    def num_attr(self, v: Num, attr, node):
        if attr in ("numerator", "denominator"):
            cv = self.st.norm(v.rf)
            if cv.is_const() and v.kind != "float":
                q_ = cv.const_value()
                return self.num_const(q_.numerator if attr == "numerator" else q_.denominator, "int")
            return Num(self.ufn(attr, v.rf), "int")
        if attr in ("magnitude", "precision"):
            kind = v.kind
            if kind == "exact":
                # decimal or fraction: decided once per value (the same refinement isinstance() uses)
                key = self.st.norm(v.rf).key()
                k = self.st.kind_refine.get(key)
                if k is None:
                    c = self.I.choose(2, f"kind@{getattr(node, 'lineno', '?')}", ["dec", "frac"])
                    k = ["dec", "frac"][c]
                    self.st.kind_refine[key] = k
                kind = k
            if kind != "dec":
                # only the decimal class has these; fractions, ints and floats do not
                self.flag("missing-attribute", node, f"{kind} number has no attribute {attr}")
                self.I.raise_("AttributeError", node)
            cv = self.st.norm(v.rf)
            if cv.is_const():
                # a constant decimal: its number of fractional digits / the exponent of its leading digit
                q_ = cv.const_value()
                d_, n2, n5 = q_.denominator, 0, 0
                while d_ % 2 == 0:
                    d_ //= 2
                    n2 += 1
                while d_ % 5 == 0:
                    d_ //= 5
                    n5 += 1
                if d_ == 1:
                    if attr == "precision":
                        return self.num_const(max(n2, n5), "int")
                    if q_ != 0:
                        m_ = 0
                        a_ = abs(q_)
                        while a_ >= 10:
                            a_ /= 10
                            m_ += 1
                        while a_ < 1:
                            a_ *= 10
                            m_ -= 1
                        return self.num_const(m_, "int")
            return Num(self.ufn(attr, v.rf), "int")
        if attr == "adjusted":
            return NativeV(lambda a, k, n: Num(v.rf, v.kind), "adjusted")
        if attr == "quantize":
            def quantize(args, kwargs, n):
                q = args[0]
                mode = kwargs.get("rounding", args[1] if len(args) > 1 else NONE)
                r = self.ufn("decquantize", v.rf / q.rf)
                self.st.effects.append(("decquantize", v, q, mode, self.where(n)))
                return Num(r * q.rf, "dec")
            return NativeV(quantize, "Decimal.quantize")
        if attr in ("real",):
            return v
        if v.kind == "float" or attr.startswith("is_") or attr in ("norm_sort_key", "definition", "normalized_definition"):
            self.flag("missing-attribute", node, f"{v.kind} number has no attribute {attr}")
            self.I.raise_("AttributeError", node)
        import decimal
        import fractions
        if not any(hasattr(t, attr) for t in (int, float, fractions.Fraction, decimal.Decimal)) and \
                attr not in ("magnitude", "precision", "adjusted", "as_fraction", "as_integer_ratio", "as_tuple"):
            # no number of any kind has it: the attribute protocol of the library's own classes asked of a number
            self.flag("missing-attribute", node, f"{v.kind} number has no attribute {attr}")
            self.I.raise_("AttributeError", node)
        self.I.unsupported(node, f"number attribute {attr}")

    def str_attr(self, v: StrV, attr, node):
        def method(args, kwargs, n):
            if v.const is not None and attr in ("split", "rsplit", "partition", "rpartition", "count", "find", "index",
                                                "startswith", "endswith", "isdigit", "isalpha", "isalnum", "isspace",
                                                "upper", "lower", "strip", "lstrip", "rstrip", "replace", "zfill",
                                                "removeprefix", "removesuffix", "title", "capitalize") and not kwargs:
                # a constant text: Python's own string semantics on constant arguments
                cargs, ok = [], True
                for a_ in args:
                    if isinstance(a_, StrV) and a_.const is not None:
                        cargs.append(a_.const)
                    elif isinstance(a_, Num) and self.st.norm(a_.rf).is_const() and self.st.norm(a_.rf).const_value().denominator == 1:
                        cargs.append(int(self.st.norm(a_.rf).const_value()))
                    elif isinstance(a_, NoneV):
                        cargs.append(None)
                    else:
                        ok = False
                if ok:
                    try:
                        r_ = getattr(v.const, attr)(*cargs)
                    except ValueError:
                        self.I.raise_("ValueError", n)
                    except TypeError:
                        self.I.raise_("TypeError", n)
                    if isinstance(r_, bool):
                        return BoolV(r_)
                    if isinstance(r_, int):
                        return self.num_const(r_)
                    if isinstance(r_, str):
                        return StrV(r_)
                    if isinstance(r_, list):
                        return ListV([StrV(x) for x in r_])
                    if isinstance(r_, tuple):
                        return TupleV([StrV(x) for x in r_])
            if attr in ("lstrip", "rstrip", "strip"):
                return StrV(None, f"{v.tag}.{attr}")
            if attr in ("split", "rsplit", "partition", "rpartition"):
                self.st.effects.append(("strsplit", v, attr, list(args), self.where(n)))
            if attr == "count" and len(args) == 1 and isinstance(args[0], StrV) and args[0].const:
                # the number of separators in a text: one less than its number of separated fields, which is one
                # quantity per text and separator however it is asked for (count, split, ...)
                sep = args[0].const
                if v.const is not None:
                    return self.num_const(v.const.count(sep))
                nf = getattr(v, "n_fields", None)
                if nf is None or nf[0] != sep:
                    opts = [1, 2, 3, 4]
                    c = self.I.choose(len(opts), f"fields({v.tag},{sep!r})", [str(o) for o in opts])
                    v.n_fields = nf = (sep, opts[c])
                return self.num_const(nf[1] - 1)
            if attr in ("split", "rsplit"):
                lv = ListV(None, tag="split", opaque_elem=None)
                lv.split_of = (v, args)
                nf = getattr(v, "n_fields", None)
                if nf is not None and len(args) == 1 and isinstance(args[0], StrV) and args[0].const == nf[0]:
                    lv.length = nf[1]
                sep = args[0] if args else None
                if isinstance(sep, StrV) and sep.const and getattr(self, "text_templates", False):
                    parts = self.split_template(v, sep.const)
                    if parts is not None:
                        return ListV(parts)
                # str.split(sep) always yields at least one part; split() / split(None) yields none for blank text
                lo = 0 if (not args or isinstance(args[0], NoneV)) else 1
                if len(args) >= 2 and isinstance(args[1], Num) and args[1].rf.is_const():
                    lv.len_choices = list(range(lo, int(args[1].rf.const_value()) + 2))
                else:
                    lv.len_choices = list(range(lo, 5))
                return lv
            if attr == "partition":
                return TupleV([StrV(None, "part0"), StrV(None, "sep"), StrV(None, "part2")])
            if attr == "format":
                if getattr(self, "text_templates", False) and v.const is not None:
                    return self.format_template(v, args, kwargs, n)
                s = StrV(None, "formatted")
                s.fmt = (v, args, kwargs)
                return s
            if attr in ("isdigit", "startswith", "endswith", "isalpha", "isalnum", "isspace", "isnumeric", "isdecimal",
                        "isupper", "islower", "isidentifier", "isascii"):
                return OpaqueV("strpred")
            if attr == "join":
                if getattr(self, "text_templates", False) and args:
                    seq = self.iterate(args[0], n)
                    if seq is not None and all(isinstance(x, StrV) for x in seq):
                        parts = []
                        for i, x in enumerate(seq):
                            if i:
                                parts.extend(self.text_parts(v))
                            parts.extend(self.text_parts(x))
                        return self.mk_text(parts)
                return StrV(None, "joined")
            if attr in ("replace", "lower", "upper", "title", "capitalize", "casefold", "center", "ljust", "rjust",
                        "zfill", "expandtabs", "removeprefix", "removesuffix", "translate", "swapcase"):
                # pure text transformations: concrete when everything is concrete, otherwise some text
                if v.const is not None and all(isinstance(a, StrV) and a.const is not None for a in args) and not kwargs:
                    try:
                        return StrV(getattr(v.const, attr)(*[a.const for a in args]))
                    except Exception:
                        pass
                return StrV(None, f"{v.tag}.{attr}")
            if attr in ("find", "rfind", "index", "rindex", "count"):
                return Num(RF.atom(("sym", self.st.fresh("strpos"))), "int")
            self.I.unsupported(n, f"str method {attr}")
        return NativeV(method, f"str.{attr}")

    def list_len(self, v: ListV, node) -> int:
        if v.items is not None:
            return len(v.items)
        if v.length is None:
            # the symbolic length `len(tag)` and a chosen concrete length are one quantity
            atom = RF.atom(("len", v.tag))
            known = self.st.norm(atom)
            if known.is_const() and known.const_value().denominator == 1 and not v.len_choices:
                v.length = int(known.const_value())
                return v.length
            opts = v.len_choices or [0, 1, 2]
            c = self.I.choose(len(opts), f"len({v.tag})@{getattr(node, 'lineno', '?')}", [str(o) for o in opts])
            v.length = opts[c]
            so = getattr(v, "split_of", None)
            if so is not None and len(so[1]) == 1 and isinstance(so[1][0], StrV) and so[1][0].const:
                so[0].n_fields = (so[1][0].const, v.length)     # the text consists of that many separated fields
            if not v.len_choices:
                from .contracts import known_truth
                if known_truth(self.st, CmpV("==", Num(atom, "int"), self.num_const(v.length))) is False:
                    raise Infeasible
                self.st.equate(atom, RF.const(v.length))
        return v.length

    def list_class_of(self, ci) -> bool:
        """Is the package class a subclass of list (without a constructor of its own)?"""
        if ci is None or self.prog.lookup(ci, "__init__") is not None or self.prog.lookup(ci, "__new__") is not None:
            return False
        for c in self.prog.mro(ci):
            for b in c.base_names:
                if b.split("[")[0].split(".")[-1] in ("list", "List"):
                    return True
        return False

    def converter_list_class(self):
        """The class of the object the metaclass initialises the converter registry with, if it is a list subclass
        of the package (the abstract registry then has that class's methods too)."""
        c = getattr(self.prog, "_conv_list_cls", False)
        if c is False:
            c = None
            nm = self.conv_attr()
            meta = self.prog.classes.get("QuantityMeta")
            if nm and meta is not None:
                for f in meta.methods.values():
                    for n in ast.walk(f.node):
                        tgt = val = None
                        if isinstance(n, ast.Assign) and len(n.targets) == 1:
                            tgt, val = n.targets[0], n.value
                        elif isinstance(n, ast.AnnAssign) and n.value is not None:
                            tgt, val = n.target, n.value
                        if isinstance(tgt, ast.Attribute) and tgt.attr == nm and isinstance(val, ast.Call) and \
                                isinstance(val.func, ast.Name) and not val.args:
                            r = self.prog.resolve_global(f.module, val.func.id)
                            if r and r[0] == "class" and self.list_class_of(r[1]):
                                c = r[1]
            self.prog._conv_list_cls = c
        return c

    def list_attr(self, v: ListV, attr, node):
        ci = getattr(v, "ci", None)
        if ci is not None:
            fi = self.prog.lookup(ci, attr)
            if fi is not None and fi.node is not None:
                return self.bind_func(fi, v, node)

        def method(args, kwargs, n):
            if attr == "pop" and len(args) == 1 and isinstance(args[0], Num) and self.st.norm(args[0].rf).is_const() \
                    and self.st.norm(args[0].rf).const_value() == -1:
                args = []       # pop(-1) is pop()
            self.st.effects.append(("listop", v, attr, args, self.where(n)))
            if attr == "append":
                if v.items is not None:
                    v.items.append(args[0])
                return NONE
            if attr == "sort" and v.items is not None and kwargs.get("key") is not None:
                v.items[:] = self.stable_sort(v.items, kwargs["key"], kwargs.get("reverse"), n)
                return NONE
            if attr == "extend" and v.items is not None:
                seq = self.iterate(args[0], n)
                if seq is None:
                    self.I.unsupported(n, "extend with opaque iterable")
                v.items.extend(seq)
                return NONE
            if attr == "__getitem__" and args:
                self.st.effects.pop()
                return self.get_item(v, args[0], n)
            if attr == "__len__":
                self.st.effects.pop()
                return self.num_const(self.list_len(v, n))
            if attr in ("index", "count") and v.items is not None and args:
                self.st.effects.pop()
                hits = [i for i, x in enumerate(v.items) if self.keys_equal(x, args[0], n)]
                if attr == "count":
                    return self.num_const(len(hits))
                if not hits:
                    self.I.raise_("ValueError", n)
                return self.num_const(hits[0])
            if attr == "copy" and v.items is not None:
                self.st.effects.pop()
                return ListV(list(v.items))
            if v.items is not None and attr in ("pop", "remove", "insert", "clear", "reverse"):
                # concrete lists: the operation itself
                if attr == "pop":
                    i_ = -1
                    if args:
                        if not (isinstance(args[0], Num) and self.st.norm(args[0].rf).is_const()):
                            self.I.unsupported(n, "list.pop with a symbolic index")
                        i_ = int(self.st.norm(args[0].rf).const_value())
                    try:
                        return v.items.pop(i_)
                    except IndexError:
                        self.I.raise_("IndexError", n)
                if attr == "remove":
                    for i, x in enumerate(v.items):
                        if self.keys_equal(x, args[0], n):
                            del v.items[i]
                            return NONE
                    self.I.raise_("ValueError", n)
                if attr == "insert":
                    if not (isinstance(args[0], Num) and self.st.norm(args[0].rf).is_const()):
                        self.I.unsupported(n, "list.insert with a symbolic index")
                    v.items.insert(int(self.st.norm(args[0].rf).const_value()), args[1])
                    return NONE
                if attr == "clear":
                    v.items[:] = []
                    return NONE
                if attr == "reverse":
                    v.items.reverse()
                    return NONE
            if attr == "sort" and v.items is not None:
                srt = self.call_builtin("sorted", [ListV(list(v.items))], dict(kwargs), n)
                if isinstance(srt, ListV) and srt.items is not None:
                    v.items[:] = srt.items
                    return NONE
            if attr in ("pop", "remove", "insert", "extend", "clear", "sort", "reverse"):
                if v.items is not None:
                    self.I.unsupported(n, f"list.{attr} on concrete list")
                return OpaqueV("popped") if attr == "pop" else NONE
            self.I.unsupported(n, f"list method {attr}")
        return NativeV(method, f"list.{attr}")

    # =============================================================== items
    def get_item(self, obj, key, node):
        I = self.I
        if isinstance(obj, MatchV):
            return self.match_group(obj, key, node)
        if isinstance(key, SliceV):
            return self.get_slice(obj, key.lo, key.hi, node)
        if isinstance(obj, StrV) and obj.const is not None and isinstance(key, Num) and self.st.norm(key.rf).is_const():
            try:
                return StrV(obj.const[int(self.st.norm(key.rf).const_value())])
            except IndexError:
                I.raise_("IndexError", node)
        if isinstance(obj, TupleV) or (isinstance(obj, ListV) and obj.items is not None):
            items = obj.items
            if isinstance(key, Num) and self.st.norm(key.rf).is_const():
                i = int(self.st.norm(key.rf).const_value())
                try:
                    return items[i]
                except IndexError:
                    I.raise_("IndexError", node)
            if isinstance(key, Num) and key.kind in ("int", "bool", "anyrat", "exact") and 0 < len(items) <= 32:
                # symbolic index into a concrete table: one path per valid index (the index is then known), plus
                # the out-of-range path
                n_ = len(items)
                from .contracts import known_truth
                in_range = known_truth(self.st, CmpV("<", key, self.num_const(n_))) is True and \
                    known_truth(self.st, CmpV(">=", key, self.num_const(0))) is True
                opts = [str(i) for i in range(n_)] + ([] if in_range else ["out of range"])
                c = I.choose(len(opts), f"index@{getattr(node, 'lineno', '?')}", opts)
                if c == n_:
                    # (a negative index that is in range is not modelled: it ends here as well)
                    I.raise_("IndexError", node)
                self.decide_cmp("==", key, self.num_const(c), node) if False else None
                st_ = self.st
                if not st_.equate(key.rf, RF.const(c)):
                    st_.cmp_facts.append((st_.canon_diff(st_.norm(key.rf) - RF.const(c)).key(), "==", True))
                return items[c]
            I.unsupported(node, "symbolic index")
        if isinstance(obj, ListV):
            if isinstance(key, Num) and self.st.norm(key.rf).is_const():
                i = int(self.st.norm(key.rf).const_value())
                n = self.list_len(obj, node)
                if not (-n <= i < n):
                    I.raise_("IndexError", node)
                if getattr(obj, "split_of", None):
                    s = StrV(None, f"part{i}")
                    return s
                if obj.opaque_elem is not None:
                    return obj.opaque_elem
                return OpaqueV(f"{obj.tag}[{i}]")
            return obj.opaque_elem if obj.opaque_elem is not None else OpaqueV(f"{obj.tag}[?]")
        if isinstance(obj, GlobalMapV):
            return self.map_get(obj, key, node)
        if isinstance(obj, TermV):
            return self.term_getitem(obj, key, node)
        if isinstance(obj, (TypeV, OpaqueV)):
            return obj      # generic alias subscription, e.g. Term['Unit']
        if isinstance(obj, ObjV) and obj.ci is not None:
            fi = self.prog.lookup(obj.ci, "__getitem__")
            if fi is not None:
                return I.call_function(fi, [obj, key], {}, node)
        if isinstance(obj, DictV):
            return self.dict_get(obj, key, node, subscript=True)
        I.unsupported(node, f"subscript of {obj!r}")

    def dict_view(self, d, node):
        """Distinct keys in insertion order with their latest values."""
        out = []
        for k, v in d.items:
            for i, (k2, _) in enumerate(out):
                if self.keys_equal(k2, k, node):
                    out[i] = (k2, v)
                    break
            else:
                out.append((k, v))
        return out

    def dict_remove(self, d, key, node):
        """Remove `key`; -> its value, or None when absent."""
        found = None
        kept = []
        for k, v in d.items:
            if self.keys_equal(k, key, node):
                found = v
            else:
                kept.append((k, v))
        if found is not None:
            d.items[:] = kept
        return found

    def dict_get(self, d, key, node, subscript=False):
        if getattr(d, "rate_table", None) is not None:
            return self.rate_table_get(d, key, node)
        for k, v in reversed(d.items):
            if self.keys_equal(k, key, node):
                return v
        fac = getattr(d, "default_factory", None) if subscript else None
        if fac is not None and not isinstance(fac, NoneV):
            v = self.call(fac, [], {}, node)
            d.items.append((key, v))
            return v
        self.I.raise_("KeyError", node)

    def keys_equal(self, a, b, node) -> bool:
        if isinstance(a, TypeV) and isinstance(b, TypeV):
            return a.name == b.name
        if isinstance(a, TupleV) and isinstance(b, TupleV):
            return len(a.items) == len(b.items) and all(self.keys_equal(x, y, node) for x, y in zip(a.items, b.items))
        if isinstance(a, UnitV) and isinstance(b, UnitV):
            return self.decide_same_unit(a.uid, b.uid, node)
        if isinstance(a, StrV) and isinstance(b, StrV) and a.const is not None and b.const is not None:
            return a.const == b.const
        if isinstance(a, StrV) and isinstance(b, StrV) and a.const is None and b.const is None and a.tag and b.tag:
            if a.tag == b.tag:
                return True
            import re as _re
            ma, mb = _re.fullmatch(r"symbol\((.+)\)", a.tag), _re.fullmatch(r"symbol\((.+)\)", b.tag)
            if ma and mb and ma.group(1) in self.st.uparent and mb.group(1) in self.st.uparent:
                # symbols are unique: two units have the same symbol exactly when they are one unit
                return self.decide_same_unit(ma.group(1), mb.group(1), node)
        if isinstance(a, ClsV) and isinstance(b, ClsV):
            t = self.st.same_type(a.tid, b.tid)
            if t is not None:
                return t
        if isinstance(a, NoneV) or isinstance(b, NoneV):
            return isinstance(a, NoneV) and isinstance(b, NoneV)
        if isinstance(a, EnumV) and isinstance(b, EnumV):
            return self.truth(self.compare(ast.Eq, a, b, node), node)
        if isinstance(a, FuncV) and isinstance(b, FuncV):
            return a.name == b.name
        if isinstance(a, Num) and isinstance(b, Num):
            return self.truth(CmpV("==", a, b), node)
        if isinstance(a, DateV) and isinstance(b, DateV):
            return a is b or all(self.truth(CmpV("==", x, y), node) for x, y in ((a.y, b.y), (a.m, b.m), (a.d, b.d)))
        if isinstance(a, ObjV) and isinstance(b, ObjV) and a.ci is not None and self.prog.lookup(a.ci, "__eq__"):
            if a is b:
                return True
            return self.truth(self.compare(ast.Eq, a, b, node), node)
        if type(a) is not type(b):
            return False
        return a is b

    def rate_table_get(self, d, key, node):
        """MoneyConverter._rate_dict: (validity, term currency) -> rate from the base currency (writer: update)."""
        I = self.I
        self.st.effects.append(("ratetable-read", d, key, self.where(node)))
        if not (isinstance(key, TupleV) and len(key.items) == 2):
            I.raise_("KeyError", node)
        cur = key.items[1]
        if not isinstance(cur, UnitV):
            I.raise_("KeyError", node)     # entries are keyed by Currency objects
        uid = self.st.ufind(cur.uid)
        memo = d.rate_table
        if uid not in memo:
            memo[uid] = bool(I.choose(2, f"rate_dict[{uid}]", ["KeyError", "entry"]))
        if not memo[uid]:
            I.raise_("KeyError", node)
        base = d.base_currency
        if self.st.same_unit(base.uid, cur.uid) is True:
            I.raise_("KeyError", node)     # a rate base->base cannot be stored (constructor rejects it)
        return RateV(base, cur, Num(RF.atom(("um", "tbl:" + uid)), "dec"), Num(RF.atom(("ta", "tbl:" + uid)), "dec"),
                     name="tbl:" + uid)

    def get_slice(self, obj, lo, hi, node, step=None):
        if isinstance(obj, StrV) and obj.const is None and step is None and any(
                isinstance(x, Num) and not self.st.norm(x.rf).is_const() for x in (lo, hi) if x is not None):
            return StrV(None, f"{obj.tag}[slice]")      # a piece of an opaque text cut at a computed position

        def idx(x):
            if x is None or isinstance(x, NoneV):
                return None
            if isinstance(x, Num) and self.st.norm(x.rf).is_const():
                return int(self.st.norm(x.rf).const_value())
            self.I.unsupported(node, "symbolic slice bound")
        if isinstance(obj, TupleV):
            return TupleV(obj.items[idx(lo):idx(hi):idx(step)])
        if isinstance(obj, ListV) and obj.items is not None:
            return ListV(obj.items[idx(lo):idx(hi):idx(step)])
        if isinstance(obj, StrV) and obj.const is not None:
            return StrV(obj.const[idx(lo):idx(hi):idx(step)])
        if step is not None:
            self.I.unsupported(node, "slice step")
        if isinstance(obj, ObjV) and obj.ci is not None:
            fi = self.prog.lookup(obj.ci, "__getitem__")
            if fi is not None:
                return self.I.call_function(fi, [obj, SliceV(lo, hi)], {}, node)
        if isinstance(obj, TermV) and step is None:
            if obj.items is not None and not obj.normalized:
                return TupleV([TupleV([e, x]) for e, x in obj.items][idx(lo):idx(hi)])
            if idx(lo) == 1 and idx(hi) is None and getattr(obj, "num_choice", None) == 1:
                # items after the numeric element of a normal form: the non-numeric remainder
                rest = TermV(obj.mag / obj.nu, dict(obj.dims), items=None, normalized=True, origin=("split", id(obj)))
                rest.as_items = True
                rest.part_of = obj      # (dimensionless exactly when the term it is the non-numeric part of is)
                rest.num_choice = 0
                rest.pure = True
                can_zero, must_zero = self.dims_zero(obj)
                rest.empty = True if must_zero else (None if can_zero else False)
                return rest
        self.I.unsupported(node, "slice")

    def set_item(self, obj, key, v, node):
        self.st.effects.append(("setitem", obj, key, v, self.where(node)))
        if isinstance(obj, GlobalMapV):
            return
        if isinstance(obj, DictV):
            obj.items.append((key, v))
            return
        if isinstance(obj, ListV) and obj.items is not None and isinstance(key, SliceV):
            def idx_(x):
                if x is None or isinstance(x, NoneV):
                    return None
                if isinstance(x, Num) and self.st.norm(x.rf).is_const():
                    return int(self.st.norm(x.rf).const_value())
                self.I.unsupported(node, "symbolic slice bound")
            seq = self.iterate(v, node)
            if seq is None:
                self.I.unsupported(node, "slice assignment of an opaque value")
            obj.items[idx_(key.lo):idx_(key.hi)] = seq
            return
        if isinstance(obj, ListV) and obj.items is not None and isinstance(key, Num):
            obj.items[int(self.st.norm(key.rf).const_value())] = v
            return
        if isinstance(obj, ListV):
            return
        self.I.unsupported(node, f"item store on {obj!r}")

    def map_get(self, g: GlobalMapV, key, node):
        I = self.I
        st = self.st
        st.effects.append(("mapread", g, key, self.where(node)))
        if getattr(g, "registry", False):
            return self.registry_lookup(g, key, node)
        if getattr(g, "convtable", False):
            if not (isinstance(key, TupleV) and len(key.items) == 2 and all(isinstance(k, UnitV) for k in key.items)):
                I.unsupported(node, "conversion table key")
            a, b = (self.st.ufind(k.uid) for k in key.items)
            memo = getattr(g, "memo", None)
            if memo is None:
                memo = g.memo = {}
            if (a, b) not in memo:
                memo[(a, b)] = bool(I.choose(2, f"convtable[({a},{b})]", ["KeyError", "row"]))
            if not memo[(a, b)]:
                I.raise_("KeyError", node)
            return TupleV([Num(RF.atom(("tf", a, b)), "exact"), Num(RF.atom(("to", a, b)), "exact")])
        if self.is_memo_map(g):
            hit = self.memo_stored(g, key, node)
            if hit is not None:
                st.oracle.trace.append(f"{g.name}: entry stored earlier on this path")
                return hit[0]
        if isinstance(key, TupleV) and any(k_ is key for k_ in getattr(g, "hit_keys", [])):
            o = OpaqueV("cache-hit")
            o.key = key
            return o
        if isinstance(key, TupleV):
            # operation cache: hit == recomputation by the cache discipline (rule R17.1); Engine A follows the miss
            if self.cache_hits and (self.cache_hits is True or g.name in self.cache_hits):
                c = I.choose(2, f"cache@{getattr(node, 'lineno', '?')}", ["miss", "hit"])
                if c == 1:
                    o = OpaqueV("cache-hit")
                    o.key = key
                    return o
            I.raise_("KeyError", node)
        if isinstance(key, (StrV, OpaqueV)) and self.is_memo_map(g) and not getattr(g, "record_types", None):
            # a memo keyed by text: nothing stored on this path under that key - Engine A follows the miss (what a
            # hit returns is what an earlier call stored: the replayed cases evaluate that)
            I.raise_("KeyError", node)
        if isinstance(key, (StrV, OpaqueV)):
            c = I.choose(2, f"{g.name}[{key!r}]@{getattr(node, 'lineno', '?')}", ["KeyError", "found"])
            st.effects.append(("symlookup", g, key, bool(c), self.where(node)))
            if c == 0:
                I.raise_("KeyError", node)
            owner = getattr(g, "owner", None)
            if owner is None and not getattr(g, "unit_values", False):
                rt = getattr(g, "record_types", None)
                if rt:
                    out = []
                    for i, t in enumerate(rt):
                        if t == "str":
                            sv = StrV(None, f"{g.name}.{i}")
                            sv.nonempty = True
                            out.append(sv)
                        elif t == "int":
                            out.append(Num(RF.atom(("rec", g.name, i)), "int"))
                        elif t == "list":
                            out.append(ListV(None, tag=f"{g.name}.{i}"))
                        else:
                            out.append(OpaqueV(f"{g.name}.{i}"))
                    return TupleV(out)
                return OpaqueV(f"record({g.name})")
            # the directory answers the same symbol with the same unit
            sk = (g.name, key.const if isinstance(key, StrV) and key.const is not None else getattr(key, "tag", None))
            uid = st.found_units.get(sk) if sk[1] is not None else None
            if uid is None:
                tid = st.tfind(owner.tid) if owner is not None else st.new_type()
                uid = st.new_unit(tid)
                if sk[1] is not None:
                    st.found_units[sk] = uid
            u = UnitV(uid)
            u.from_symbol = key
            return u
        # any other process-global mapping (a memo): what was stored on this path is found again, anything else is
        # a miss - Engine A follows the miss; that a hit equals recomputation is what the memo rules decide
        for e in reversed(st.effects):
            if e[0] == "setitem" and isinstance(e[1], GlobalMapV) and e[1].name == g.name and \
                    self.keys_equal(e[2], key, node):
                return e[3]
        I.raise_("KeyError", node)

    def is_memo_map(self, g) -> bool:
        """A process-global mapping that is neither a directory of units / types, nor a table filled at import, nor a
        per-type map: a memo written at run time."""
        return not (getattr(g, "registry", False) or getattr(g, "convtable", False) or getattr(g, "unit_values", False)
                    or getattr(g, "owner", None) is not None or g.name.startswith("_unit_map("))

    def visible_effects(self):
        """Effects, latest first, that a read of memoised state may see: everything on the path - or, during a
        recomputation with nothing memoised, only what that recomputation itself has stored."""
        st = self.st
        if st.memo_hidden:
            return list(reversed(st.effects[getattr(st, "cold_mark", 0):]))
        return list(reversed(st.effects)) + list(reversed(st.prior_effects))

    def memo_stored(self, g, key, node):
        """(value,) stored under an equal key earlier on this path and not removed since, else None."""
        for e in self.visible_effects():
            if e[0] == "mapcall" and isinstance(e[1], GlobalMapV) and e[1].name == g.name and e[2] in ("clear",):
                return None
            if e[0] == "mapcall" and isinstance(e[1], GlobalMapV) and e[1].name == g.name and \
                    e[2] in ("pop", "popitem", "discard", "remove"):
                if e[2] == "popitem" or (e[3] and self.keys_equal(e[3][0], key, node)):
                    return None
            if e[0] == "delitem" and isinstance(e[1], GlobalMapV) and e[1].name == g.name and self.keys_equal(e[2], key, node):
                return None
            if e[0] == "setitem" and isinstance(e[1], GlobalMapV) and e[1].name == g.name and \
                    self.keys_equal(e[2], key, node):
                return (e[3],)
        return None

    def term_view(self, t, node, depth=0):
        """Abstract view (value, dimension vector) of an interpreted Term object."""
        st = self.st
        items = t.fields.get("_items")
        if not isinstance(items, TupleV) or depth > 6:
            self.I.unsupported(node, "term object without concrete items")
        mag = RF.const(1)
        dims = {}
        for it in items.items:
            e, x = it.items
            ex = self.exp_of(x, node)
            if ex is None:
                self.I.unsupported(node, "term exponent")
            if isinstance(e, UnitV):
                mag = mag * self.mu(e).pow_sym(ex)
                for k_, d_ in st.dims_of_type(self.type_of_unit(e)).items():
                    o = dims.get(k_, (0, 0))
                    dims[k_] = (o[0] + d_[0] * ex[0], o[1] + d_[0] * ex[1])
            elif isinstance(e, Num):
                mag = mag * st.norm(e.rf).pow_sym(ex)
            elif isinstance(e, ClsV):
                mag = mag * RF.atom(("rho", st.tfind(e.tid))).pow_sym(ex)
                o = dims.get(e.tid, (0, 0))
                dims[e.tid] = (o[0] + ex[0], o[1] + ex[1])
            else:
                self.I.unsupported(node, f"term element {e!r}")
        return TermV(mag, {k_: v_ for k_, v_ in dims.items() if v_ != (0, 0)})

    def registry_lookup(self, g, key, node):
        I = self.I
        st = self.st
        if isinstance(key, ObjV) and key.ci is not None and key.ci.name == "Term":
            items = key.fields.get("_items")
            if isinstance(items, TupleV) and len(items.items) == 1 and not getattr(g, "unique", False):
                e, x = items.items[0].items
                if isinstance(e, UnitV) and isinstance(x, Num) and st.norm(x.rf).is_const() and \
                        st.norm(x.rf).const_value() == 1 and st.unit_defs.get(e.uid) == "base":
                    # a unit without definition is registered, when it is created, under the term made of itself:
                    # that term is the normal form of no unit created earlier, so the look-up finds the unit itself
                    st.oracle.trace.append(f"unit_from_term@{getattr(node, 'lineno', '?')}=the base unit itself")
                    return e
            key = self.term_view(key, node)
        if not isinstance(key, TermV):
            I.unsupported(node, "registry lookup by non-term")
        can_zero, must_zero = self.dims_zero(key)
        if must_zero:
            I.raise_("KeyError", node)
        dk_ = tuple(sorted((st.tfind(k_), e_) for k_, e_ in self.norm_dims(key.dims).items() if e_ != (0, 0)))
        if st.rf_table_get("never", (key.mag,), dk_):
            st.known_absent.add((g.name, st.norm(key.mag).key()))
            I.raise_("KeyError", node)
        c = st.rf_table_get("lookup:" + g.name, (key.mag,), dk_) if st.oracle.sticky is not None else None
        if c is not None:
            # the same look-up in the same state finds the same
            st.oracle.trace.append(f"unit_from_term@{getattr(node, 'lineno', '?')}={'found' if c else 'KeyError'} (as before)")
        else:
            c = I.choose(2, f"unit_from_term@{getattr(node, 'lineno', '?')}", ["KeyError", "found"], sticky=False)
            st.rf_table_set("lookup:" + g.name, (key.mag,), dk_, c)
        if c == 0:
            st.known_absent.add((g.name, st.norm(key.mag).key()))
            I.raise_("KeyError", node)
        if getattr(g, "unique", False):
            # type registry: the registered item is a quantity class
            dk = tuple(sorted(self.norm_dims(key.dims).items()))
            tid = self.dim_types.get(dk)
            if tid is None:
                tid = st.new_type()
                self.dim_types[dk] = tid
            return ClsV(tid)
        return self.unit_for_term(key)

    def unit_for_term(self, t: TermV) -> UnitV:
        st = self.st
        dims = self.norm_dims(t.dims)
        nz = [(k, e) for k, e in dims.items() if e != (0, 0)]
        if len(nz) == 1 and nz[0][1] == (1, 0) and not nz[0][0].startswith("?"):
            tid = nz[0][0]
        else:
            dk = tuple(sorted(nz))
            tid = self.dim_types.get(dk)
            if tid is None:
                # a declared type of exactly this dimension (one type per dimension, R02.5)
                for t_, _d in list(st.type_dims.items()):
                    if st._explicit_dims(t_) == dict(nz):
                        tid = st.tfind(t_)
                        self.dim_types[dk] = tid
                        break
            if tid is None:
                tid = st.new_type()
                self.dim_types[dk] = tid
                st.type_dims[tid] = dict(nz)
        # the directory answers the same look-up with the same unit
        tk = st.tfind(tid) if tid in st.tparent else tid
        uid = st.rf_table_get("unit", (t.mag,), tk)
        if uid is None:
            uid = st.new_unit(tid, mu=t.mag)
            st.rf_table_set("unit", (t.mag,), tk, uid)
        return UnitV(uid)

    def norm_dims(self, dims):
        out: Dict[str, tuple] = {}
        for k, e in dims.items():
            k2 = self.st.tfind(k) if k in self.st.tparent else k
            o = out.get(k2, (0, 0))
            out[k2] = (o[0] + e[0], o[1] + e[1])
        return out

    def dims_zero(self, t: TermV):
        """-> (can be zero, must be zero) for the dimension vector of a term."""
        dims = self.norm_dims(t.dims)
        nz = [(k, e) for k, e in dims.items() if e != (0, 0)]
        if not nz:
            return True, True
        if any(k.startswith("?") for k, _ in nz):
            return True, False
        if len(nz) == 1:
            k, e = nz[0]
            if e[1] != 0 and e[0] == 0:
                # T^(c*n): zero iff n == 0; callers establish n != 0 before building the term
                return False, False
            return False, False
        if len(nz) == 2:
            (k1, e1), (k2, e2) = nz
            if e1[1] == 0 and e2[1] == 0 and e1[0] == -e2[0]:
                # T1^e * T2^-e with distinct types: two types of one dimension cannot both exist (R02.5)
                return False, False
        return True, False

    # =============================================================== iteration
    def iterate(self, v, node):
        if isinstance(v, TupleV):
            return list(v.items)
        if isinstance(v, ListV) and v.items is not None:
            return list(v.items)
        if isinstance(v, TermV) and v.items is not None:
            return [TupleV([e, x]) for e, x in v.items]
        if isinstance(v, DictV) and getattr(v, "rate_table", None) is None:
            return [k for k, _ in self.dict_view(v, node)]
        if isinstance(v, GenV):
            out = list(self.I.gen_iter(v))
            from .interp import OpaqueMarker
            if out and out[0] is OpaqueMarker:
                v.as_list = ListV(None, tag="genexp", opaque_elem=v.opaque_elem)
                return None
            return out
        if type(v).__name__ == "IterV":
            rest = v.seq[v.pos:]
            v.pos = len(v.seq)
            return rest
        if isinstance(v, ObjV) and v.ci is not None and self.prog.lookup(v.ci, "__iter__") is not None:
            it = self.I.call_function(self.prog.lookup(v.ci, "__iter__"), [v], {}, node)
            return self.iterate(it, node)
        if isinstance(v, (ListV, OpaqueV, TermV, GlobalMapV)):
            return None
        if isinstance(v, StrV):
            return None
        self.I.unsupported(node, f"iteration over {v!r}")

    def opaque_element(self, it, node):
        if isinstance(it, GenV) and getattr(it, "opaque_elem", None) is not None:
            return it.opaque_elem
        if isinstance(it, ListV) and it.opaque_elem is not None:
            return it.opaque_elem
        if isinstance(it, TermV):
            return TupleV([OpaqueV("term-elem"), Num(RF.atom(("sym", self.st.fresh("e"))), "int")])
        return OpaqueV("elem")

    def unpack(self, v, n, node):
        if isinstance(v, TupleV) or (isinstance(v, ListV) and v.items is not None):
            if len(v.items) != n:
                self.I.raise_("ValueError", node)
            return v.items
        if isinstance(v, ListV):
            ln = self.list_len(v, node)
            if ln != n:
                self.I.raise_("ValueError", node)
            return [self.get_item(v, self.num_const(i), node) for i in range(n)]
        if isinstance(v, OpaqueV):
            if getattr(v, "key", None) is not None:
                return [OpaqueV(f"{v.tag}[{i}]") for i in range(n)]
            return [OpaqueV(f"{v.tag}[{i}]") for i in range(n)]
        if isinstance(v, NotImplV):
            self.I.raise_("TypeError", node)
        if isinstance(v, TermV) and v.items is not None:
            if len(v.items) != n:
                self.I.raise_("ValueError", node)
            return [TupleV([e, x]) for e, x in v.items]
        if isinstance(v, TermV) and v.items is None and not v.normalized:
            items = self.term_materialize(v, n, node)
            return [TupleV([e, x]) for e, x in items]
        if isinstance(v, (Num, NoneV, QtyV, UnitV)):
            self.flag("bad-unpack", node, f"cannot unpack {v!r}")
            self.I.raise_("TypeError", node)
        self.I.unsupported(node, f"unpack of {v!r}")


def _single_atom_of(rf):
    if rf.d.is_const() and rf.n.is_monomial():
        (m, c), = rf.n.t.items()
        if c == rf.d.const_value() and len(m) == 1 and m[0][1] == (1, 0):
            return m[0][0]
    return None


class DictV(V):
    def __init__(self, items=None, tag="dict"):
        self.items = list(items or [])
        self.tag = tag
